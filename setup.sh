#!/bin/sh
# Build the framework from files on disk only (offline): regenerate Gen/*.v from /repo, full .vo build.
cd "$(dirname "$0")" || exit 2
export PYTHONPATH=/repo PYTHONHASHSEED=0
/venv/bin/python translate/run_all.py || exit 1
cd coq || exit 2
coq_makefile -f _CoqProject -o Makefile > /dev/null || exit 1
timeout 3000 make -j16 2>&1 | grep -v 'conda.cli.condarc' | tail -5
test -f Spec/C01Check.vo
