#!/venv/bin/python
"""Single entry point:  check <Cxx> [--tier quick|thorough] [--replay file]

Decides one property on /repo's current working tree (see DESIGN.md section 3.4):
hygiene -> regenerate Gen/*.v -> build -> re-check the property theorems ->
correspondence (model vs implementation) -> direct evaluation of the property predicate on
the implementation's behaviour -> known findings -> evidence -> exit code."""
import argparse
import importlib
import json
import os
import random
import re
import sys
import traceback

sys.path.insert(0, os.path.dirname(os.path.abspath(__file__)))
os.environ.setdefault('PYTHONHASHSEED', '0')

import common  # noqa: E402
from common import VERIF, COQ_DIR, sh  # noqa: E402

FORBIDDEN = re.compile(
    r'\b(Admitted|admit|Axiom|Axioms|Parameter|Parameters|Conjecture|Hypothesis|Variable'
    r'|Unset\s+Guard|bypass_check|type-in-type|impredicative-set|Admit\s+Obligations'
    r'|native_compute)\b')


def hygiene():
    """No admits/axioms/disabled checks anywhere in the development."""
    bad = []
    for root, _, files in os.walk(COQ_DIR):
        for fn in files:
            if not fn.endswith('.v'):
                continue
            path = os.path.join(root, fn)
            in_section = 0
            for n, line in enumerate(open(path), 1):
                code = re.sub(r'\(\*.*?\*\)', '', line)
                if re.match(r'\s*Section\b', code):
                    in_section += 1
                if re.match(r'\s*End\b', code) and in_section:
                    in_section -= 1
                m = FORBIDDEN.search(code)
                if m:
                    if m.group(1) in ('Variable', 'Hypothesis') and in_section:
                        continue
                    bad.append('%s:%d: %s' % (os.path.relpath(path, VERIF), n, line.strip()))
    for fn in ('_CoqProject',):
        txt = open(os.path.join(COQ_DIR, fn)).read()
        if 'type-in-type' in txt or 'impredicative-set' in txt:
            bad.append(fn + ': forbidden flag')
    return bad


def regenerate():
    """Run the translators; returns (ok, message)."""
    rc, out = sh('%s %s' % (sys.executable, os.path.join(VERIF, 'translate', 'run_all.py')),
                 timeout=300, env=dict(os.environ, PYTHONPATH=common.REPO))
    return rc == 0, out


def build():
    lock = common.build_lock()
    try:
        if not os.path.exists(os.path.join(COQ_DIR, 'Makefile')):
            sh('coq_makefile -f _CoqProject -o Makefile', cwd=COQ_DIR)
        rc, out = sh('timeout 3000 make -j16', cwd=COQ_DIR, timeout=3100)
        return rc == 0, out
    finally:
        lock.close()


def recheck_properties(prop):
    """Compile Properties/<prop>.v (and Refuted/<prop>.v) again, capturing Print Assumptions."""
    res = {'theorems': [], 'assumptions': [], 'ok': True, 'log': ''}
    for sub in ('Properties', 'Refuted'):
        path = os.path.join(COQ_DIR, sub, prop + '.v')
        if not os.path.exists(path):
            continue
        lock = common.build_lock()
        try:
            rc, out = sh('timeout 900 coqc -Q . Verif -w -notation-overridden %s/%s.v' % (sub, prop),
                         cwd=COQ_DIR, timeout=950)
        finally:
            lock.close()
        res['log'] += out
        if rc != 0:
            res['ok'] = False
            res['failed'] = '%s/%s.v' % (sub, prop)
            continue
        src = open(path).read()
        res['theorems'] += ['%s.%s' % (sub, n) for n in
                            re.findall(r'^\s*(?:Theorem|Lemma|Example|Corollary)\s+(\w+)', src, re.M)]
        axioms = [l.strip() for l in out.splitlines()
                  if l.strip() and 'Closed under the global context' not in l]
        closed = out.count('Closed under the global context')
        res['assumptions'].append('%s/%s.v: %d theorem(s) closed under the global context%s' % (
            sub, prop, closed, ('; other output: ' + ' | '.join(axioms[:20])) if axioms else ''))
    return res


def count_obligations(prop):
    """Number of Theorem/Lemma/Example statements in the dependency cone of the property file."""
    rc, out = sh('coqdep -Q . Verif Properties/%s.v $(cat _CoqProject | grep "\\.v$")' % prop,
                 cwd=COQ_DIR)
    deps = {}
    for line in out.splitlines():
        if ':' not in line:
            continue
        lhs, rhs = line.split(':', 1)
        tgt = lhs.split()[0]
        if tgt.endswith('.vo'):
            deps[tgt[:-1]] = [d[:-1] for d in rhs.split() if d.endswith('.vo')]
    seen, todo = set(), ['Properties/%s.v' % prop]
    while todo:
        f = todo.pop()
        if f in seen:
            continue
        seen.add(f)
        todo += deps.get(f, [])
    n, built = 0, 0
    for f in sorted(seen):
        p = os.path.join(COQ_DIR, f)
        if not os.path.exists(p):
            continue
        k = len(re.findall(r'^\s*(?:Theorem|Lemma|Example|Corollary|Fact|Remark)\s+\w+',
                           open(p).read(), re.M))
        n += k
        if os.path.exists(p + 'o'):
            built += k
    return n, built, sorted(seen)


def main():
    ap = argparse.ArgumentParser()
    ap.add_argument('prop')
    ap.add_argument('--tier', default=None)
    ap.add_argument('--replay', default=None)
    args = ap.parse_args()
    prop = args.prop
    tier = args.tier or os.environ.get('VERIF_TIER') or 'quick'
    seed = int(os.environ.get('VERIF_SEED', '0'))
    timer = common.Timer()
    mod = importlib.import_module('props.' + prop.lower())
    plugin = mod.Plugin()

    if args.replay:
        return plugin.replay(args.replay)

    broken = []     # reasons the tie/proof is broken (strings)
    bad = hygiene()
    if bad:
        print('BROKEN-MACHINERY: forbidden constructs in the Coq development:')
        print('\n'.join(bad))
        return 2

    ok, out = regenerate()
    if not ok:
        broken.append({'kind': 'translator', 'detail': out[-3000:]})
    ok, out = build()
    build_log = out
    if not ok:
        broken.append({'kind': 'build', 'detail': out[-4000:]})
    thm = recheck_properties(prop) if ok else {'theorems': [], 'assumptions': [], 'ok': False,
                                                'log': ''}
    if ok and not thm['ok']:
        broken.append({'kind': 'theorem', 'detail': thm.get('failed', '') + '\n' + thm['log'][-3000:]})
    n_obl, n_built, cone = count_obligations(prop)

    rng = random.Random(seed * 1000003 + sum(ord(c) for c in prop))
    try:
        result = plugin.run(rng, tier, seed, model_ok=ok)
    except common.CoqRunError as e:
        broken.append({'kind': 'model-evaluation', 'detail': e.out})
        result = plugin.run(rng, tier, seed, model_ok=False)

    violations = list(result.get('violations', []))   # list of dict(replay payload)
    mismatches = result.get('mismatches', [])
    if mismatches:
        broken.append({'kind': 'correspondence',
                       'detail': '%d case(s) where implementation and model disagree' % len(mismatches),
                       'cases': mismatches[:10]})

    lines = []
    n_viol = 0
    for k, v in enumerate(violations[:5]):
        path = common.write_replay(prop, seed, k, dict(v, property=prop, tier=tier, seed=seed))
        lines.append('VIOLATION property=%s replay=%s' % (prop, path))
        n_viol += 1
    if broken and not violations:
        payload = {'property': prop, 'tier': tier, 'seed': seed,
                   'no_failing_input_found': True, 'broken': broken,
                   'explanation': 'the proof or the correspondence no longer checks against '
                                  '/repo; the search over this run\'s cases found no input '
                                  'on which the property predicate fails'}
        path = common.write_replay(prop, seed, 'tie', payload)
        lines.append('VIOLATION property=%s replay=%s no-failing-input-found' % (prop, path))
        n_viol += 1

    for kf in result.get('known_findings', []):
        print('KNOWN-FINDING: property=%s %s %s' % (prop, kf['id'], kf['what_fails']))

    coverage = dict(result.get('coverage', {}))
    coverage.update({
        'obligations': max(n_obl, 1),
        'discharged': n_built if (ok and thm['ok']) else 0,
        'checker_cmd': 'make -C coq -j16 (coqc 8.16.1, full .vo build) ; coqc Properties/%s.v' % prop,
        'trusted_base': TRUSTED_BASE + thm['assumptions'] + getattr(plugin, 'trusted', []),
        'property_theorems': thm['theorems'],
        'dependency_cone': cone,
        'tie_broken': [b['kind'] for b in broken],
    })
    common.write_evidence(prop, tier, seed, coverage,
                          getattr(plugin, 'assumptions', []), timer.s(), n_viol)
    for l in lines:
        print(l)
    print('%s tier=%s seed=%d evaluations=%s obligations=%d/%d violations=%d wall=%.1fs' % (
        prop, tier, seed, coverage.get('evaluations'), coverage['discharged'],
        coverage['obligations'], n_viol, timer.s()))
    return 1 if n_viol else 0


TRUSTED_BASE = [
    'Coq 8.16.1 kernel (coqc); vm_compute (kernel VM) is used, native_compute is not',
    'no Axiom/Parameter/Admitted in the development (hygiene grep on every run)',
    'the fail-closed ast translators in translate/ (Gen/*.v regenerated every run)',
    'the correspondence harness: generators, Python->Coq term printer (harness/common.py), '
    'canonical outcomes (error classes only), counter-based ObjectId and utcnow patches',
    'CPython assumptions recorded in DESIGN.md 3.8 (stable sorted, dict insertion order, '
    'deepcopy disjointness)',
]

if __name__ == '__main__':
    try:
        sys.exit(main())
    except SystemExit:
        raise
    except Exception:
        traceback.print_exc()
        sys.exit(2)
