"""C15 (history property; see DESIGN.md section 5)."""
import copy

import common
import gen
import hist
from props.hist_base import HistPlugin


class Plugin(HistPlugin):
    id = 'C15'
    extra_import = 'HistProps HistPropCheck'
    check_fn = 'c15_check'
    weights = {'insert_one': 3, 'bulk': 12, 'update': 2, 'create_index': 2, 'delete': 1}
    rule = ('operation lists of length 1-4 over the six write models (with/without upsert, including failing '
            'ones) executed through bulk_write, ordered and unordered, over states with unique indexes; the '
            'effect and the counters are compared with issuing the same operations one at a time through '
            'the single-operation steps. Non-trivial = a bulk with at least two operations of which one '
            'fails or upserts; distinct by canonical JSON.')
    FINDING_BITS = 0
    UNDECIDED_BITS = 1

    def gen_case(self, rng, i, tier):
        gen.TINY[0] = rng.random() < 0.6
        try:
            return HistPlugin.gen_case(self, rng, i, tier)
        finally:
            gen.TINY[0] = False

    def extra_checks(self, rng, tier, seed):
        """The ordered/unordered bulk builders: same effect and counters as bulk_write; an empty
        bulk raises InvalidOperation; a bulk can be executed only once - after a success and
        after a BulkWriteError alike - and the second attempt changes nothing."""
        import mongomock
        n = 150 if tier == 'quick' else 3000
        viol = []
        done = 0
        for i in range(n):
            gen.TINY[0] = True
            try:
                docs = [hist.small_doc(rng) for _ in range(rng.choice([0, 1, 2, 3]))]
                seen, init = set(), []
                for d in docs:
                    key = repr(d.get('_id'))
                    if '_id' in d and key not in seen:
                        seen.add(key)
                        init.append(d)
                op = hist.gen_op(rng, init, {'bulk': 1})
            finally:
                gen.TINY[0] = False
            ordered = op['ordered']

            def fresh():
                c = mongomock.MongoClient().db.c
                if init:
                    c.insert_many(copy.deepcopy(init))
                return c

            def build(c):
                b = c.initialize_ordered_bulk_op() if ordered else c.initialize_unordered_bulk_op()
                for r in copy.deepcopy(op['reqs']):
                    hist.BulkReq(r['kind'], **{k: v for k, v in r.items() if k != 'kind'})._add_to_bulk(b)
                return b

            def run(fn):
                try:
                    return ('ok', fn())
                except mongomock.BulkWriteError as e:
                    d = e.details
                    return ('bulk', {k: d[k] for k in ('nInserted', 'nMatched', 'nModified', 'nUpserted', 'nRemoved')},
                            [w['index'] for w in d['writeErrors']])
                except Exception as e:  # noqa
                    return ('raise', type(e).__name__)
            from unittest import mock
            with mock.patch('mongomock.collection.ObjectId', common.CounterOidFactory(1000)), \
                    mock.patch('mongomock.utcnow', return_value=hist.T0):
                c1 = fresh()
                r1 = run(lambda: hist.run_op(c1, op, [None]))
            with mock.patch('mongomock.collection.ObjectId', common.CounterOidFactory(1000)), \
                    mock.patch('mongomock.utcnow', return_value=hist.T0):
                c2 = fresh()
                try:
                    b = build(c2)
                except Exception as e:  # registration-time validation
                    continue
                r2 = run(lambda: {k: v for k, v in b.execute().items()
                                  if k in ('nInserted', 'nMatched', 'nModified', 'nUpserted', 'nRemoved')})
            s1 = hist.dump_store(c1)
            s2 = hist.dump_store(c2)
            done += 1
            bad = None
            if repr(s1) != repr(s2):
                bad = 'the builder and bulk_write leave different collections'
            before = repr(hist.dump_store(c2))
            r3 = run(lambda: b.execute())
            if r3 != ('raise', 'InvalidOperation'):
                bad = 'a bulk was executed a second time: %r' % (r3,)
            elif repr(hist.dump_store(c2)) != before:
                bad = 'the refused second execute() changed the collection'
            if bad:
                viol.append({'case': {'init': common.to_jsonable(init), 'op': common.to_jsonable(op)},
                             'impl': {'bulk_write': repr(r1)[:300], 'builder': repr(r2)[:300], 'second': repr(r3)[:200]},
                             'failing_clause': bad})
                if len(viol) >= 3:
                    break
        e = run(lambda: mongomock.MongoClient().db.c.initialize_ordered_bulk_op().execute())
        if e != ('raise', 'InvalidOperation'):
            viol.append({'case': 'empty bulk', 'impl': repr(e), 'failing_clause': 'an empty bulk did not raise InvalidOperation'})
        return viol[:3], {'builder_probes': done}
