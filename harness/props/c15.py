"""C15 (history property; see DESIGN.md section 5)."""
from props.hist_base import HistPlugin


class Plugin(HistPlugin):
    id = 'C15'
    extra_import = 'HistProps HistPropCheck'
    check_fn = 'c15_check'
    FINDING_BITS = 0
    UNDECIDED_BITS = 1
