"""C15 (history property; see DESIGN.md section 5)."""
import gen
from props.hist_base import HistPlugin


class Plugin(HistPlugin):
    id = 'C15'
    extra_import = 'HistProps HistPropCheck'
    check_fn = 'c15_check'
    weights = {'insert_one': 3, 'bulk': 12, 'update': 2, 'create_index': 2, 'delete': 1}
    rule = ('operation lists of length 1-4 over the six write models (with/without upsert, including failing '
            'ones) executed through bulk_write, ordered and unordered, over states with unique indexes; the '
            'effect and the counters are compared with issuing the same operations one at a time through '
            'the single-operation steps. Non-trivial = a bulk with at least two operations of which one '
            'fails or upserts; distinct by canonical JSON.')
    FINDING_BITS = 0
    UNDECIDED_BITS = 1

    def gen_case(self, rng, i, tier):
        gen.TINY[0] = rng.random() < 0.6
        try:
            return HistPlugin.gen_case(self, rng, i, tier)
        finally:
            gen.TINY[0] = False
