"""C09 (history property; see DESIGN.md section 5)."""
from props.hist_base import HistPlugin


class Plugin(HistPlugin):
    id = 'C09'
    extra_import = 'HistProps HistPropCheck'
    check_fn = 'c09_check'
    FINDING_BITS = 0
    UNDECIDED_BITS = 0
