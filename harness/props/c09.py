"""C09 (history property; see DESIGN.md section 5)."""
import hist
from props.hist_base import HistPlugin


class Plugin(HistPlugin):
    id = 'C09'
    extra_import = 'HistProps HistPropCheck'
    check_fn = 'c09_check'
    weights = {'insert_dated': 10, 'create_ttl': 5, 'clock': 7, 'find': 6, 'count': 3, 'update': 4,
               'delete': 2, 'distinct': 1, 'create_index': 1, 'drop_index': 2, 'drop_indexes': 1,
               'drop': 1, 'insert_many': 1, 'fam': 1, 'replace': 1}
    n_ops = (4, 10)
    rule = ('histories mixing writes of documents whose TTL field holds a date, an array of dates, an array '
            'mixing dates and scalars, an empty array, null, a string, a number or nothing; TTL index '
            'creation with expireAfterSeconds in {0, 1, 10, 60, \'5\', \'abc\', 1.5} on single and '
            'compound keys, index removal (drop_index, drop_indexes, drop) and clock moves forwards and '
            'backwards that straddle date+N by +-1 us / 1 ms / 1 s; through find, count, update, delete, '
            'distinct, duplicate checks and unique index creation. Non-trivial = a TTL index exists, the '
            'clock moved and a document carries a date; distinct by canonical JSON.')
    FINDING_BITS = 0
    UNDECIDED_BITS = 1 | 2 | 4 | 8

    def gen_case(self, rng, i, tier):
        if rng.random() < 0.3:
            return {'ops': hist.gen_focus_ttl(rng), 'pre5': False}
        return HistPlugin.gen_case(self, rng, i, tier)
