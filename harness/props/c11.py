"""C11: natural order, sort, skip and limit."""
import copy

import common
import gen
import hist
from props.base import BasePlugin, shrink_value
from common import to_coq, coq_z, coq_list, coq_opt

import mongomock


def meth_to_coq(m):
    k = m[0]
    if k == 'sort':
        return 'MSort %s' % hist.sort_to_coq(m[1])
    if k == 'skip':
        return 'MSkip %s' % coq_z(m[1])
    if k == 'limit':
        return 'MLimit %s' % coq_z(m[1])
    if k == 'slice':
        return 'MSlice %s %s' % (coq_opt(None if m[1] is None else coq_z(m[1])),
                                 coq_opt(None if m[2] is None else coq_z(m[2])))
    if k == 'peek':
        return 'MPeek'
    return 'MClone'


class Plugin(BasePlugin):
    id = 'C11'
    imports = ('From Coq Require Import ZArith List String.\n'
               'From Verif Require Import Value Cursor.\n'
               'Import ListNotations. Open Scope Z_scope. Open Scope string_scope.')
    case_type = 'c11_case'
    check_fn = 'c11_check'
    explain_fn = 'c11_explain'
    quick_n = 1500
    thorough_n = 40000
    UNDECIDED_BITS = 1
    rule = ('collections of 0-8 documents with mixed BSON types, missing values and many ties under the '
            'sort keys; 0-3 sort keys with directions; skip/limit from {0,1,n-1,n,n+1,2n} and negative '
            'limits as find() arguments, followed by a random sequence of cursor calls (sort, skip, '
            'limit, slices [a:b], clone); plus count_documents(skip=, limit=) on the same data. '
            'Non-trivial = the specification decides the case (scalar sort keys) and the program has '
            'a sort with at least one tie or a non-trivial window; distinct by canonical JSON.')
    assumptions = ['sort keys that are arrays, sub-documents or ObjectIds are left undecided by the '
                   'specification (correspondence still applies)']

    def gen_case(self, rng, i, tier):
        n = rng.choice([0, 1, 2, 3, 4, 5, 6, 8])
        pool = [None, 0, 1, 1, 2, 2.0, 1.5, 'a', 'b', 'a', True, False,
                gen.BASE_DATE, [1, 2], {'k': 1}, common.make_oid(1)]
        simple = rng.random() < 0.7
        if simple:
            pool = [None, 0, 1, 1, 2, 2.0, 1.5, 'a', 'b', 'a', True, gen.BASE_DATE]
        docs = []
        for k in range(n):
            d = {'_id': k}
            for key in ('a', 'b', 'c'):
                if rng.random() < 0.75:
                    d[key] = rng.choice(pool)
            if rng.random() < 0.3:
                d['s'] = {'x': rng.choice([1, 2, None])}
            docs.append(d)

        def sortspec():
            return [[rng.choice(['a', 'b', 'c', 's.x', '_id']), rng.choice([1, -1])]
                    for _ in range(rng.choice([1, 1, 2, 3]))]
        vals = [0, 0, 1, max(n - 1, 0), n, n + 1, 2 * n]
        meths = []
        for _ in range(rng.choice([0, 0, 1, 2, 3])):
            r = rng.random()
            if r < 0.3:
                meths.append(['sort', sortspec()])
            elif r < 0.5:
                meths.append(['skip', rng.choice(vals)])
            elif r < 0.7:
                meths.append(['limit', rng.choice(vals + [-1, -2])])
            elif r < 0.9:
                a = rng.choice([None] + vals)
                b = rng.choice([None] + vals)
                if a is not None and b is not None and b < a:
                    a, b = b, a
                meths.append(['slice', a, b])
            elif r < 0.97:
                meths.append(['clone'])
            else:
                meths.append(['peek'])
        f = {} if rng.random() < 0.6 else gen.filter_(rng, docs[0] if docs else {}, depth=1)
        if docs and rng.random() < 0.12:
            # the documents named by _id, in another order than they were inserted (and one absent)
            ids = [d['_id'] for d in docs] + [99]
            rng.shuffle(ids)
            f = {'_id': {'$in': ids[:rng.choice([2, 3, len(ids)])]}}
        return {'docs': docs, 'filter': f, 'sort': sortspec() if rng.random() < 0.6 else [],
                'skip': rng.choice(vals), 'limit': rng.choice(vals + [-1, -2]), 'meths': meths,
                'count_skip': rng.choice(vals), 'count_limit': rng.choice([None, None, 1, 2, n + 1, 0])}

    def run_impl(self, case):
        coll = mongomock.MongoClient().db.c
        for d in copy.deepcopy(case['docs']):
            coll._store[d['_id']] = d
        out = {}
        try:
            cur = coll.find(copy.deepcopy(case['filter']),
                            sort=[tuple(x) for x in case['sort']] or None,
                            skip=case['skip'], limit=case['limit'])
            for m in case['meths']:
                if m[0] == 'sort':
                    cur = cur.sort([tuple(x) for x in m[1]])
                elif m[0] == 'skip':
                    cur = cur.skip(m[1])
                elif m[0] == 'limit':
                    cur = cur.limit(m[1])
                elif m[0] == 'slice':
                    cur = cur[m[1]:m[2]]
                elif m[0] == 'peek':
                    try:
                        cur[0]
                    except IndexError:
                        pass
                else:
                    cur = cur.clone()
            out['find'] = {'ok': hist.canon(list(cur))}
        except Exception as e:  # noqa
            out['find'] = {'err': common.err_class(e), 'exc': type(e).__name__}
        try:
            kw = {}
            if case['count_skip']:
                kw['skip'] = case['count_skip']
            if case['count_limit'] is not None:
                kw['limit'] = case['count_limit']
            out['count'] = {'ok': coll.count_documents(copy.deepcopy(case['filter']), **kw)}
        except Exception as e:  # noqa
            out['count'] = {'err': common.err_class(e), 'exc': type(e).__name__}
        return out

    def case_term(self, case, o):
        def res(x, f):
            return 'Ok (%s)' % f(x['ok']) if 'ok' in x else 'Err %s' % x['err']
        return 'mkC11 %s (%s) %s %s %s %s (%s) %s %s (%s)' % (
            coq_list(to_coq(d) for d in case['docs']), to_coq(case['filter']),
            hist.sort_to_coq(case['sort']), coq_z(case['skip']), coq_z(case['limit']),
            coq_list(meth_to_coq(m) for m in case['meths']),
            res(o['find'], lambda l: coq_list(to_coq(d) for d in l)),
            coq_z(case['count_skip']),
            coq_opt(None if case['count_limit'] is None else coq_z(case['count_limit'])),
            res(o['count'], to_coq))

    def features(self, case, o, flags):
        f = {'n:%d' % len(case['docs'])}
        if case['sort'] or any(m[0] == 'sort' for m in case['meths']):
            f.add('sorted')
        for m in case['meths']:
            f.add('meth:' + m[0])
        if case['skip']:
            f.add('skip')
        if case['limit']:
            f.add('limit' if case['limit'] > 0 else 'neg-limit')
        f.add('find:' + ('ok' if 'ok' in o['find'] else o['find']['err']))
        if flags is not None and not flags & 4:
            f.add('decided')
        return f

    def shrink(self, case):
        for k in ('docs', 'meths', 'sort'):
            for w in shrink_value(case[k]):
                if isinstance(w, list) and all(isinstance(x, (dict if k == 'docs' else list)) for x in w):
                    if k == 'docs' and not all('_id' in d for d in w):
                        continue
                    if k == 'docs' and len({repr(common.to_jsonable(d['_id'])) for d in w}) != len(w):
                        continue       # two documents with one _id: not a collection
                    if k == 'sort' and not all(len(x) == 2 and isinstance(x[0], str) and x[1] in (1, -1) for x in w):
                        continue
                    if k == 'meths' and w != case[k] and not all(
                            x and x[0] in ('sort', 'skip', 'limit', 'slice', 'clone', 'peek') and len(x) == len(
                                {'sort': [0, 0], 'skip': [0, 0], 'limit': [0, 0], 'slice': [0, 0, 0], 'clone': [0], 'peek': [0]}[x[0]])
                            and (x[0] != 'sort' or (isinstance(x[1], list) and x[1] and all(
                                isinstance(y, list) and len(y) == 2 and isinstance(y[0], str) and y[1] in (1, -1) for y in x[1])))
                            and (x[0] not in ('skip', 'limit') or isinstance(x[1], int))
                            and (x[0] != 'slice' or all(y is None or isinstance(y, int) for y in x[1:]))
                            for x in w):
                        continue
                    yield dict(case, **{k: w})
        if case['filter']:
            yield dict(case, filter={})
        for k in ('skip', 'limit', 'count_skip'):
            if case[k]:
                yield dict(case, **{k: 0})
        if case['count_limit'] is not None:
            yield dict(case, count_limit=None)
