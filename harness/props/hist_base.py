"""Plug-in base for the history properties."""
import common
import hist
from props.base import BasePlugin, shrink_value, from_jsonable


class HistPlugin(BasePlugin):
    imports = ('From Coq Require Import ZArith List String.\n'
               'From Verif Require Import Value Coll HistCheck %s.\n'
               'Import ListNotations. Open Scope Z_scope. Open Scope string_scope.')
    extra_import = ''
    case_type = 'hist_case'
    check_fn = 'hist_check'
    explain_fn = 'hist_explain'
    weights = None
    n_ops = (2, 7)
    quick_n = 400
    thorough_n = 8000
    gen_kw = {}
    pre5_rate = 0.2

    def __init__(self):
        self.imports = self.imports % self.extra_import

    def first_ops(self, rng):
        return [{'op': 'clock', 't': 0}]

    def gen_case(self, rng, i, tier):
        pre5 = rng.random() < self.pre5_rate
        n = rng.randint(*self.n_ops)
        ops = hist.gen_history(rng, n, self.weights, pre5, first=self.first_ops(rng), **self.gen_kw)
        return {'ops': ops, 'pre5': pre5}

    def run_impl(self, case):
        obs, notes = hist.run_history(case['ops'], case['pre5'])
        return {'obs': obs, 'notes': notes}

    def case_term(self, case, outcome):
        return hist.case_to_coq(case['ops'], outcome['obs'], case['pre5'])

    def describe(self, case, outcome):
        return {'case': common.to_jsonable(case),
                'impl': [{'outcome': common.to_jsonable(o), 'store': common.to_jsonable([d for _, d in s]),
                          'indexes': common.to_jsonable(i)}
                         for o, s, i in outcome['obs']],
                'notes': outcome.get('notes')}

    def features(self, case, outcome, flags):
        feats = set()
        for op, (o, _, _) in zip(case['ops'], outcome['obs']):
            feats.add('op:' + op['op'])
            feats.add('out:' + ('ok' if 'ok' in o else o['err']))
            if op['op'] == 'update':
                for k in op['update']:
                    feats.add('upd:' + k)
                if op['upsert']:
                    feats.add('upsert')
                if op['multi']:
                    feats.add('multi')
        feats.add('pre5' if case['pre5'] else 'v5')
        return feats

    def shrink(self, case):
        ops = case['ops']
        # the leading clock operation stays: without it the model's initial clock (0) and the
        # harness's (T0) differ, and a shrunk history would fail for that unrelated reason
        keep0 = bool(ops) and ops[0].get('op') == 'clock'
        for i in range(len(ops)):
            if i == 0 and keep0:
                continue
            yield dict(case, ops=ops[:i] + ops[i + 1:])
        for i, op in enumerate(ops):
            if i == 0 and keep0:
                continue
            for w in shrink_value(op):
                if isinstance(w, dict) and set(w) == set(op) and w.get('op') == op['op'] \
                        and well_formed(w):
                    yield dict(case, ops=ops[:i] + [w] + ops[i + 1:])
        if case['pre5']:
            yield dict(case, pre5=False)


def well_formed(op):
    if op['op'] == 'fam':
        if op.get('kind') not in ('update', 'replace', 'delete'):
            return False
        if op['kind'] != 'delete' and not isinstance(op.get('arg'), dict):
            return False
        if not isinstance(op.get('after'), bool):
            return False
        if op.get('proj') is not None and not isinstance(op['proj'], (dict, list)):
            return False
    if op['op'] == 'bulk':
        if not isinstance(op.get('reqs'), list) or not all(
                isinstance(r, dict) and isinstance(r.get('kind'), str)
                and all(isinstance(r.get(k, {}), dict) for k in ('filter', 'update', 'repl', 'doc'))
                and {'insert_one': {'doc'}, 'update_one': {'filter', 'update'}, 'update_many': {'filter', 'update'},
                     'replace_one': {'filter', 'repl'}, 'delete_one': {'filter'}, 'delete_many': {'filter'}
                     }.get(r['kind'], {'?'}) <= set(r) for r in op['reqs']):
            return False
    if op['op'] == 'find' and (op.get('via', 'kwargs') not in ('kwargs', 'chain', 'index')
                               or (op.get('via') == 'index' and op.get('limit') != 0)):
        return False
    if op['op'] == 'find' and op.get('proj') is not None and not isinstance(op['proj'], (dict, list)):
        return False
    for k in ('filter', 'update', 'repl', 'doc'):
        if k in op and not isinstance(op[k], dict):
            return False
    if 'docs' in op and (not isinstance(op['docs'], list) or not all(isinstance(d, dict) for d in op['docs'])):
        return False
    for k in ('multi', 'upsert', 'ordered'):
        if k in op and not isinstance(op[k], bool):
            return False
    if 'sort' in op and not all(isinstance(x, list) and len(x) == 2 and isinstance(x[0], str) and x[1] in (1, -1) for x in op['sort']):
        return False
    if 'key' in op and op['op'] == 'create_index' and not (op['key'] and all(isinstance(x, list) and len(x) == 2 and isinstance(x[0], str) and x[0] for x in op['key'])):
        return False
    if op['op'] == 'distinct' and not isinstance(op.get('key'), str):
        return False
    if 'name' in op and op['op'] == 'drop_index' and not isinstance(op['name'], str):
        return False
    for k in ('skip', 'limit', 't'):
        if k in op and op[k] is not None and (isinstance(op[k], bool) or not isinstance(op[k], int)):
            return False
    return True
