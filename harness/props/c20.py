"""C20: unsupported features fail loudly."""
import itertools

import common
import vocab50
from props.base import BasePlugin

import mongomock
from mongomock import not_implemented

POS = {'query_top': 0, 'query_field': 1, 'type_alias': 2, 'update_op': 3, 'push_modifier': 4,
       'projection_op': 5, 'stage': 6, 'expr': 7, 'accumulator': 8, 'option': 9}
OPTION_VALUES = {'session': object(), 'collation': {'locale': 'en'}, 'array_filters': [{'x': 1}],
                 'let': {'x': 1}, 'hint': 'a_1'}


def fresh():
    c = mongomock.MongoClient().db.c
    c.insert_many([{'_id': 1, 'a': 1, 'amount': 1, 'l': [1, 2], 'when': __import__('datetime').datetime(2020, 1, 1)},
                   {'_id': 2, 'a': 2, 'amount': 2, 'l': [3], 'when': __import__('datetime').datetime(2020, 1, 8)}])
    return c


def call_with_option(coll, method, opt):
    kw = {opt: OPTION_VALUES[opt]}
    m = getattr(coll, method)
    if method in ('insert_one',):
        return m({'z': 1}, **kw)
    if method == 'insert_many':
        return m([{'z': 1}], **kw)
    if method in ('update_one', 'update_many', 'find_one_and_update'):
        return m({'a': 1}, {'$set': {'b': 1}}, **kw)
    if method in ('replace_one', 'find_one_and_replace'):
        return m({'a': 1}, {'b': 1}, **kw)
    if method in ('delete_one', 'delete_many', 'count_documents', 'find_one_and_delete'):
        return m({'a': 1}, **kw)
    if method == 'distinct':
        return m('a', **kw)
    if method == 'find':
        return list(m({}, **kw))
    if method == 'create_index':
        return m('a', **kw)
    if method == 'drop_index':
        coll.create_index('a')
        return m('a_1', **kw)
    if method in ('drop_indexes', 'index_information', 'drop'):
        return m(**kw)
    if method == 'list_indexes':
        return list(m(**kw))
    if method == 'rename':
        return m('other', **kw)
    if method == 'bulk_write':
        class Req(object):
            def _add_to_bulk(self, b):
                b.add_insert({'z': 2})
        return m([Req()], **kw)
    if method == 'aggregate':
        return list(m([], **kw))
    raise ValueError(method)


def probe(case):
    pos, name = case['pos'], case['name']
    c = fresh()
    arg = case.get('arg', 1)
    if pos == 'query_top':
        return list(c.find({name: arg}))
    if pos == 'query_field':
        return list(c.find({'a': {name: arg}}))
    if pos == 'type_alias':
        return list(c.find({'a': {'$type': name}}))
    if pos == 'update_op':
        return c.update_one({}, {name: {'zz': 1}})
    if pos == 'push_modifier':
        return c.update_one({}, {'$push': {'l': {'$each': [1], name: 1}}})
    if pos == 'projection_op':
        return c.find_one({}, {'l': {name: 1}})
    if pos == 'stage':
        return list(c.aggregate([{name: arg}]))
    if pos == 'expr':
        ctx = case.get('ctx', 'project')
        e = {name: arg}
        if ctx == 'project':
            return list(c.aggregate([{'$project': {'x': e}}]))
        if ctx == 'addFields':
            return list(c.aggregate([{'$addFields': {'x': e}}]))
        if ctx == 'group_id':
            return list(c.aggregate([{'$group': {'_id': e}}]))
        if ctx == 'group_acc':
            return list(c.aggregate([{'$group': {'_id': None, 'x': {'$sum': e}}}]))
        if ctx == 'expr':
            return list(c.find({'$expr': e}))
        return list(c.aggregate([{'$project': {'x': {'$cond': [e, 1, 0]}}}]))
    if pos == 'accumulator':
        return list(c.aggregate([{'$group': {'_id': None, 'x': {name: '$amount'}}}]))
    if pos == 'option':
        method, opt = name.split('.')
        return call_with_option(c, method, opt)
    raise ValueError(pos)


class Plugin(BasePlugin):
    id = 'C20'
    imports = ('From Coq Require Import ZArith List String.\n'
               'From Verif Require Import Vocab.\n'
               'Import ListNotations. Open Scope Z_scope. Open Scope string_scope.')
    case_type = 'c20_case'
    check_fn = 'c20_check'
    quick_n = 0
    thorough_n = 0
    FINDING_BITS = 1
    rule = ('exhaustive sweep: the MongoDB 5.0 vocabulary (harness/vocab50.py) plus unknown $-names at '
            'every syntactic position (top-level query key, field-level query operator, $type alias, '
            'update operator, $push modifier, projection operator, pipeline stage, expression operator '
            'in $project/$addFields/$group/$expr/$cond, accumulator), several operand shapes each, and '
            'every (method, option) pair; non-trivial = a probe of a name the code does not implement '
            '(it must raise); distinct by (position, name, context, operand).')
    assumptions = ['whether an implemented operator computes the right value is C01-C04, not C20']

    def all_cases(self):
        unknown = ['$bogus', '$zzz', '$Set', '$eqq', '$', '$$x']
        cases = []
        for n in vocab50.QUERY_TOP + unknown:
            for arg in ([{'a': 1}], 1, 'x'):
                cases.append({'pos': 'query_top', 'name': n, 'arg': arg})
        for n in vocab50.QUERY_FIELD + unknown:
            for arg in (1, [1], {'$gt': 0}):
                cases.append({'pos': 'query_field', 'name': n, 'arg': arg})
        for n in vocab50.TYPE_ALIASES + ['bogus', 'Int', '']:
            cases.append({'pos': 'type_alias', 'name': n})
        for n in vocab50.UPDATE_OPS + unknown:
            cases.append({'pos': 'update_op', 'name': n})
        for n in vocab50.PUSH_MODIFIERS + unknown:
            cases.append({'pos': 'push_modifier', 'name': n})
        for n in vocab50.PROJECTION_OPS + unknown:
            cases.append({'pos': 'projection_op', 'name': n})
        for n in vocab50.STAGES + unknown:
            for arg in ({}, 1, 'x'):
                cases.append({'pos': 'stage', 'name': n, 'arg': arg})
        for n in vocab50.EXPR_OPS + unknown:
            for ctx in ('project', 'addFields', 'group_id', 'group_acc', 'expr', 'cond'):
                args = ['$amount', ['$amount', 1], '$when']
                if n.startswith(('$date', '$day', '$hour', '$iso', '$milli', '$minute', '$month',
                                 '$second', '$week', '$year')):
                    args.append({'date': '$when', 'timezone': 'UTC'})   # the named-argument form
                for arg in args:
                    cases.append({'pos': 'expr', 'name': n, 'arg': arg, 'ctx': ctx})
        for n in vocab50.ACCUMULATORS + unknown:
            cases.append({'pos': 'accumulator', 'name': n})
        return cases

    def option_cases(self):
        import re
        txt = open(common.COQ_DIR + '/Gen/Tables.v').read()
        return [{'pos': 'option', 'name': '%s.%s' % (m, o)}
                for m, o in re.findall(r'\("(\w+)", "(\w+)", (?:true|false)\)', txt)]

    def corpus(self):
        return self.all_cases() + self.option_cases()

    def gen_case(self, rng, i, tier):
        raise NotImplementedError

    def run_impl(self, case):
        for f in ('session', 'collation', 'array_filters', 'let'):
            not_implemented.warn_on_feature(f)
        try:
            probe(case)
            return {'obs': 0}
        except NotImplementedError:
            return {'obs': 1}
        except Exception as e:  # noqa
            return {'obs': 2, 'exc': type(e).__name__}

    def case_term(self, case, outcome):
        return 'mkC20 %d %s %d' % (POS[case['pos']], common.coq_string(case['name']), outcome['obs'])

    def features(self, case, outcome, flags):
        return {'pos:' + case['pos'], 'obs:%d' % outcome['obs'], 'name:' + case['name']}

    def describe(self, case, outcome):
        return {'case': {k: (v if isinstance(v, (str, int)) else repr(v)) for k, v in case.items()},
                'impl': outcome}

    def case_from_json(self, j):
        return j


    def extra_checks(self, rng, tier, seed):
        """ignore_feature: opted-out options are ignored, and ONLY those."""
        viol = []
        n = 0
        methods = ['update_one', 'update_many', 'delete_one', 'delete_many', 'count_documents', 'insert_one',
                   'find_one_and_update', 'distinct']
        opts_of = {'update_one': ['session', 'collation', 'array_filters', 'let'],
                   'update_many': ['session', 'collation', 'array_filters', 'let'],
                   'delete_one': ['session', 'collation'], 'delete_many': ['session', 'collation'],
                   'count_documents': ['session', 'collation'], 'insert_one': ['session'],
                   'find_one_and_update': ['session'], 'distinct': ['session']}
        try:
            for m in methods:
                for ignored in opts_of[m]:
                    for f in not_implemented._IGNORED_FEATURES:
                        not_implemented.warn_on_feature(f)
                    not_implemented.ignore_feature(ignored)
                    # (a) the opted-out option alone is ignored
                    n += 1
                    try:
                        getattr(fresh(), m)
                        call_with_option(fresh(), m, ignored)
                    except NotImplementedError:
                        viol.append({'case': {'method': m, 'ignored': ignored, 'passed': [ignored]},
                                     'impl': 'raised NotImplementedError',
                                     'failing_clause': 'an option the caller opted out of still raises'})
                    except Exception:  # noqa
                        pass
                    # (b) together with another, not opted-out option: must still raise
                    for other in opts_of[m]:
                        if other == ignored:
                            continue
                        n += 1
                        c = fresh()
                        kw = {ignored: OPTION_VALUES[ignored], other: OPTION_VALUES[other]}
                        try:
                            if m in ('update_one', 'update_many'):
                                getattr(c, m)({'a': 1}, {'$set': {'b': 1}}, **kw)
                            else:
                                getattr(c, m)({'a': 1}, **kw)
                            viol.append({'case': {'method': m, 'ignored': ignored, 'passed': [ignored, other]},
                                         'impl': 'no exception',
                                         'failing_clause': 'an option that was not opted out is silently accepted'})
                        except NotImplementedError:
                            pass
                        except Exception:  # noqa
                            pass
        finally:
            for f in not_implemented._IGNORED_FEATURES:
                not_implemented.warn_on_feature(f)
        # an operator that is rejected in a plain filter is rejected whatever the REST of the filter
        # pins down (an _id nothing is stored under, a stored _id, an $in list, other equalities),
        # through every filter-taking entry point, on a non-empty collection
        unknown = ['$bogus', '$zzz', '$eqq']
        m2 = 0
        rest_choices = [{'_id': 'nope'}, {'_id': common.make_oid(77)}, {'_id': 1}, {'_id': {'$in': ['nope', 7]}},
                        {'_id': 99}, {'amount': 5}, {'_id': 'nope', 'amount': 1}]
        for name in list(vocab50.QUERY_FIELD) + unknown:
            for arg in (1, [1]):
                cond = {'a': {name: arg}}
                try:
                    list(fresh().find(dict(cond)))
                    continue            # accepted in a plain filter: nothing to compare with
                except Exception as e:  # noqa
                    base = type(e).__name__
                for rest in rest_choices:
                    f = dict(cond)
                    f.update(rest)
                    for via in ('find', 'find_one', 'count_documents', 'update_one', 'upsert', 'delete_many', 'distinct'):
                        c = fresh()
                        m2 += 1
                        try:
                            if via == 'find':
                                list(c.find(f))
                            elif via == 'find_one':
                                c.find_one(f)
                            elif via == 'count_documents':
                                c.count_documents(f)
                            elif via == 'update_one':
                                c.update_one(f, {'$set': {'zz': 1}})
                            elif via == 'upsert':
                                c.update_one(f, {'$set': {'zz': 1}}, upsert=True)
                            elif via == 'delete_many':
                                c.delete_many(f)
                            else:
                                c.distinct('a', f)
                        except Exception:  # noqa
                            continue
                        viol.append({'case': {'filter': common.to_jsonable(f), 'via': via},
                                     'impl': 'no exception (the plain filter %r raises %s)' % (cond, base),
                                     'failing_clause': 'an operator that is rejected in a plain filter is silently '
                                                       'ignored when the rest of the filter narrows the scan'})
                        if len(viol) >= 3:
                            return viol[:3], {'ignore_feature_probes': n, 'narrowed_filter_probes': m2}
        return viol[:3], {'ignore_feature_probes': n, 'narrowed_filter_probes': m2}
