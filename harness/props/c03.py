"""C03: a pipeline is the composition of its stages, each acting as MongoDB defines it."""
import copy

import common
import genpipe
import hist
from props.base import BasePlugin, shrink_value
from common import to_coq, coq_list

import mongomock
import warnings
warnings.simplefilter("ignore")


def run_aggregate(docs, other, pipeline):
    db = mongomock.MongoClient().db
    for d in copy.deepcopy(docs):
        db.c._store[d['_id']] = d
    for d in copy.deepcopy(other):
        db.o._store[d['_id']] = d
    return db, list(db.c.aggregate(pipeline))


class Plugin(BasePlugin):
    id = 'C03'
    imports = ('From Coq Require Import ZArith List String.\n'
               'From Verif Require Import Value PipelineCheck.\n'
               'Import ListNotations. Open Scope Z_scope. Open Scope string_scope.')
    case_type = 'c03_case'
    check_fn = 'c03_check'
    explain_fn = 'c03_explain'
    quick_n = 2000
    thorough_n = 40000
    FINDING_BITS = 1 | 2 | 4 | 8 | 16 | 32 | 64 | 128 | 256 | 512 | 1024 | 2048
    UNDECIDED_BITS = 0
    rule = ('a collection of 0-5 documents (group keys from a small domain incl. null/missing/1 vs 1.0 vs true, '
            'numbers, strings, arrays of scalars and of sub-documents, a sub-document, a join key) + a second '
            'collection for $lookup x a pipeline of 1-4 stages over $match/$sort/$skip/$limit/$count/$project/'
            '$addFields/$set/$replaceRoot/$unwind/$group (8 accumulators)/$lookup/$facet (some malformed or '
            'unimplemented stages); list(aggregate(pipeline)) is compared with the model and with the '
            'specification (order-insensitive where $group leaves the order open). Non-trivial = the '
            'specification decides the case and the pipeline has at least two stages or a $group/$facet; '
            'distinct by canonical JSON.')
    assumptions = ['documents are compared up to the order of their top-level keys; numbers across int/double by value']

    def gen_case(self, rng, i, tier):
        return {'docs': genpipe.gen_docs(rng), 'other': genpipe.gen_other(rng),
                'pipeline': genpipe.gen_pipeline(rng)}

    def gen_tiny(self, rng):
        return {'docs': genpipe.gen_docs(rng, rng.choice([0, 1, 2, 3])), 'other': genpipe.gen_other(rng),
                'pipeline': [genpipe.stage(rng)]}

    def signature(self, case, o):
        return ' '.join(sorted(genpipe.stage_names(case['pipeline']))) + (' EMPTY' if not case['docs'] else '') \
            + ' -> ' + ('ok' if 'ok' in o else o['err'])

    def run_impl(self, case):
        try:
            _, out = run_aggregate(case['docs'], case['other'], copy.deepcopy(case['pipeline']))
            return {'ok': hist.canon(out)}
        except Exception as e:  # noqa
            return {'err': common.err_class(e), 'exc': type(e).__name__}

    def case_term(self, case, o):
        if 'ok' in o:
            try:
                impl = 'Ok %s' % coq_list(to_coq(d) for d in o['ok'])
            except common.Unserialisable:
                impl = 'Err EUnmodelled'
        else:
            impl = 'Err %s' % o['err']
        return 'mkC03 %s %s (%s) (%s)' % (coq_list(to_coq(d) for d in case['docs']),
                                          coq_list(to_coq(d) for d in case['other']),
                                          to_coq(case['pipeline']), impl)

    def features(self, case, o, flags):
        f = set(genpipe.stage_names(case['pipeline']))
        f.add('stages:%d' % len(case['pipeline']))
        f.add('ok' if 'ok' in o else 'raise:' + o['err'])
        if flags is not None and not flags & 16:
            f.add('decided')
        return f

    def shrink(self, case):
        p = case['pipeline']
        for i in range(len(p)):
            yield dict(case, pipeline=p[:i] + p[i + 1:])
        for i in range(len(case['docs'])):
            yield dict(case, docs=case['docs'][:i] + case['docs'][i + 1:])
        for i in range(len(case['other'])):
            yield dict(case, other=case['other'][:i] + case['other'][i + 1:])
        for i, st in enumerate(p):
            for w in shrink_value(st):
                if isinstance(w, dict):
                    yield dict(case, pipeline=p[:i] + [w] + p[i + 1:])
        for i, d in enumerate(case['docs']):
            for k in list(d):
                if k != '_id':
                    w = dict(d)
                    del w[k]
                    yield dict(case, docs=case['docs'][:i] + [w] + case['docs'][i + 1:])
