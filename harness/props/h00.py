"""Developer plug-in: the state machine model against the implementation (no property)."""
from props.hist_base import HistPlugin


class Plugin(HistPlugin):
    id = 'H00'
    quick_n = 300
