"""C12: projection returns exactly the requested part of each document."""
import copy

import common
import gen
import hist
from props.base import BasePlugin, shrink_value
from common import to_coq, coq_list

import mongomock


class Plugin(BasePlugin):
    id = 'C12'
    imports = ('From Coq Require Import ZArith List String.\n'
               'From Verif Require Import Value ProjectSpec.\n'
               'Import ListNotations. Open Scope Z_scope. Open Scope string_scope.')
    case_type = 'c12_case'
    check_fn = 'c12_check'
    explain_fn = 'c12_explain'
    quick_n = 2000
    thorough_n = 50000
    FINDING_BITS = 1 | 4
    UNDECIDED_BITS = 2
    rule = ('1-3 documents (nested sub-documents, arrays of sub-documents, arrays mixing scalars and '
            'sub-documents, missing paths) x projection specifications (dict and list form, nested dotted '
            'paths drawn from the documents, _id toggles, $slice counts in [-n-1, n+1] and [skip, limit] '
            'pairs, $elemMatch conditions, some malformed) through find(); the same specification is also '
            'run through find_one and find_one_and_update(return AFTER) and must agree with find. '
            'Non-trivial = the specification decides the case and the projection names at least one path '
            'that exists in a document; distinct by canonical JSON.')
    assumptions = ['a projected document is compared with the specification up to the order of its '
                   'top-level keys (the statement does not say where _id goes)']

    def gen_case(self, rng, i, tier):
        docs = [gen.document(rng, 3 if rng.random() < 0.5 else 2, id_value=k) for k in range(rng.choice([1, 1, 2, 3]))]
        proj = hist.gen_projection(rng, docs)
        return {'docs': docs, 'proj': proj}

    def run_impl(self, case):
        coll = mongomock.MongoClient().db.c
        for d in copy.deepcopy(case['docs']):
            coll._store[d['_id']] = d
        try:
            out = hist.canon(list(coll.find({}, copy.deepcopy(case['proj']))))
        except Exception as e:  # noqa
            return {'err': common.err_class(e), 'exc': type(e).__name__}
        # the other entry points must give the same projection
        notes = []
        try:
            one = hist.canon(coll.find_one({}, copy.deepcopy(case['proj'])))
            if out and one != out[0]:
                notes.append('find_one differs from find')
            c2 = mongomock.MongoClient().db.c
            for d in copy.deepcopy(case['docs']):
                c2._store[d['_id']] = d
            fam = hist.canon(c2.find_one_and_update({'_id': case['docs'][0]['_id']}, {'$set': {'zz9': 1}},
                                                   projection=copy.deepcopy(case['proj'])))
            if out and fam != out[0]:
                notes.append('find_one_and_update(BEFORE) differs from find')
        except Exception as e:  # noqa
            notes.append('another entry point raised %s' % type(e).__name__)
        return {'ok': out, 'notes': notes}

    def case_term(self, case, o):
        impl = 'Ok %s' % coq_list(to_coq(d) for d in o['ok']) if 'ok' in o else 'Err %s' % o['err']
        return 'mkC12 %s (%s) (%s)' % (coq_list(to_coq(d) for d in case['docs']), to_coq(case['proj']), impl)

    def features(self, case, o, flags):
        f = set()
        p = case['proj']
        if isinstance(p, list):
            f.add('list-form')
        else:
            for k, v in p.items():
                if isinstance(v, dict):
                    f.update('op:' + x for x in v)
                elif k == '_id':
                    f.add('_id:%s' % bool(v))
                else:
                    f.add('incl' if v else 'excl')
                    f.add('depth:%d' % (k.count('.') + 1))
        f.add('ok' if 'ok' in o else 'raise:' + o['err'])
        if flags is not None and not (flags >> 8) & 2:
            f.add('decided')
        return f

    def shrink(self, case):
        for w in shrink_value(case['docs']):
            if isinstance(w, list) and w and all(isinstance(d, dict) and '_id' in d for d in w) \
                    and len({repr(common.to_jsonable(d['_id'])) for d in w}) == len(w):
                yield dict(case, docs=w)
        for w in shrink_value(case['proj']):
            if isinstance(w, (dict, list)):
                yield dict(case, proj=w)

    def extra_checks(self, rng, tier, seed):
        return [], {}
