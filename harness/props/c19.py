"""C19: a collection can be used from several threads."""
import datetime
import random
from unittest import mock

import common
import sched
from props.base import BasePlugin


class Plugin(BasePlugin):
    id = 'C19'
    imports = ('From Coq Require Import List NArith ZArith.\n'
               'From Verif Require Import Lock C19Check.\n'
               'Import ListNotations. Open Scope N_scope.')
    case_type = 'c19_case'
    check_fn = 'c19_check'
    quick_n = 600
    thorough_n = 20000
    rule = ('random schedules (seeded) of 2-4 real threads running 1-4 reader/writer sections each '
            'on the unmodified RWLock under the deterministic scheduler of harness/sched.py, 20% of '
            'the sections ending by an exception; every lock operation is a scheduling point; the '
            'same schedule is replayed on the Coq model (enabledness of every chosen step, '
            'blockedness of every waiting thread, mutual exclusion after every step, final lock and '
            'counter state).  Non-trivial = at least two threads overlap (some step was taken while '
            'another thread was blocked) ; distinct by the step sequence.')
    assumptions = [
        'granularity: lock operations (and, for the store-level runs, document-iteration steps); '
        'byte-code level interleavings, the GIL and real preemption are not exhibited',
        'fake locks in harness/sched.py implement threading.Lock / threading.RLock semantics',
    ]

    def gen_case(self, rng, i, tier):
        return {'n': rng.choice([2, 2, 3, 3, 4]), 'k': rng.choice([1, 2, 3, 4]),
                'seed': rng.randrange(1 << 30)}

    def run_impl(self, case):
        rng = random.Random(case['seed'])
        r = sched.run_lock_schedule(rng, case['n'], case['k'])
        r['ok'] = not (r['errors'] or r['deadlock'] or r['violations'])
        return r

    def case_term(self, case, r):
        roles = {}
        steps = []
        # the role of a thread's current section: sections are taken in plan order; a
        # section ends with the last release of its role's release routine, which we detect
        # as "the thread's next visible event after a leave belongs to the release code";
        # simpler and exact: count 'leave' events -- the k-th leave of a thread closes its
        # k-th section's critical part, the section itself ends when the thread next
        # acquires a lock of an *acquire* routine.  We let the model tell: a role is only
        # needed when the model's thread is idle, so we pass the role of the next section
        # not yet left.
        left = {t: 0 for t in range(case['n'])}
        closing = {t: False for t in range(case['n'])}
        n_rel_after_leave = {t: 0 for t in range(case['n'])}

        def role_of(t):
            plan = r['plans'][t]
            k = left[t]
            if closing[t]:
                k -= 1            # still inside the section whose critical part was left
            k = min(k, len(plan) - 1)
            return plan[k][0] == 'W'
        import json
        rel_len = None
        for (t, kind, payload, blocked) in r['trace']:
            b = '[%s]' % '; '.join('(%d%%nat, %s)' % (bt, common.coq_bool(role_of(bt))) for bt in blocked)
            w = role_of(t)
            if kind == 'leave':
                ev = 'EvLeave'
            elif kind == 'acq':
                ev = 'EvAcq %d' % payload
            else:
                ev = 'EvRel %d' % payload
            steps.append('mkStep %d %s (%s) %s' % (t, common.coq_bool(w), ev, b))
            if kind == 'leave':
                left[t] += 1
                closing[t] = True
                n_rel_after_leave[t] = 0
            elif closing[t]:
                # events of the release routine: it ends with the release of the switch mutex
                # (reader: lock 3, writer: lock 4), the last instruction of both routines
                if kind == 'rel' and payload == (4 if w else 3):
                    closing[t] = False
        return 'mkCase %d [%s] [%s] [%s] %s' % (
            case['n'], ';\n '.join(steps), '; '.join(str(x) for x in r['final_locks']),
            '; '.join(str(x) for x in r['final_counters']), common.coq_bool(r['ok']))

    def features(self, case, r, flags):
        f = {'threads:%d' % case['n'], 'sections:%d' % case['k']}
        if any(b for (_, _, _, b) in r['trace']):
            f.add('contention')
        if any(rs for plan in r['plans'] for (_, rs) in plan):
            f.add('raise-in-section')
        for plan in r['plans']:
            for role, _ in plan:
                f.add('role:' + role)
        return f

    def describe(self, case, r):
        return {'case': case, 'impl': {'errors': r['errors'], 'deadlock': r['deadlock'],
                                       'violations': r['violations'], 'steps': len(r['trace']),
                                       'trace_head': [list(map(str, x)) for x in r['trace'][:40]],
                                       'plans': r['plans']}}

    def case_from_json(self, j):
        return j

    def corpus(self):
        # store-level schedule witnesses are replayed by extra_checks, not as lock schedules
        return [c for c in BasePlugin.corpus(self) if 'store_schedule_seed' not in c]

    def extra_checks(self, rng, tier, seed):
        """Store-level schedules: scans, inserts, deletes, expiry passes and TTL index creation
        from several threads on one CollectionStore; yield points at lock operations and between
        the documents of a scan.  Exploration of the implementation (no model side)."""
        n = 150 if tier == 'quick' else 3000
        now = datetime.datetime(2020, 1, 1)
        viol = []
        steps = scans = 0
        # schedules that once exposed a (since repaired) race run first on every run
        pinned = [k['witness'] for k in common.known_findings(self.id)
                  if k.get('status') == 'fixed' and 'store_schedule_seed' in k.get('witness', {})]
        with mock.patch('mongomock.utcnow', return_value=now):
            for i in range(len(pinned) + n):
                if i < len(pinned):
                    s, nt, no = pinned[i]['store_schedule_seed'], pinned[i]['threads'], pinned[i]['ops_per_thread']
                else:
                    s = rng.randrange(1 << 30)
                    nt, no = rng.choice([2, 3, 4]), rng.choice([2, 3, 4])
                r = sched.run_store_schedule(random.Random(s), nt, no, lambda: now)
                steps += r['steps']
                scans += r['scans']
                if r['errors'] or r['deadlock'] or r['bad_snapshots']:
                    viol.append({'case': {'store_schedule_seed': s, 'threads': nt, 'ops_per_thread': no}, 'impl': r,
                                 'failing_clause': 'store-level schedule: internal error, deadlock or '
                                                   'a scan that did not see one instant'})
                    break
        return viol, {'store_schedules': n, 'store_schedule_steps': steps, 'store_scans_checked': scans}
