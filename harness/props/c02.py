"""C02: update operators and replacements transform documents exactly as specified."""
import copy

import common
import gen
import hist
from props.hist_base import HistPlugin


class Plugin(HistPlugin):
    id = 'C02'
    extra_import = 'UpdateLaws'
    check_fn = 'c02_check'
    pre5_rate = 0.4
    weights = {'insert_one': 5, 'insert_many': 1, 'update': 16, 'replace': 3, 'find': 1}
    rule = ('histories of 2-7 operations, mostly updates: 1-3 operators with 1-2 fields each drawn from '
            '$set/$unset/$inc/$min/$max/$pop/$push(+$each/$position/$sort/$slice)/$addToSet(+$each)/$pull/'
            '$pullAll/$rename/$setOnInsert/$currentDate, paths drawn from the actual shape of the stored '
            'documents (existing, missing leaf, missing parent, index in range, index beyond the end, '
            'through a scalar), single and multi, both emulated server versions, chained over earlier '
            'writes; model vs implementation after every step, plus the laws of Spec/UpdateLaws.v (frame, '
            'per-operator result, replacement) on every document that changed. Non-trivial = an update '
            'changed a document; distinct by canonical JSON.')
    FINDING_BITS = 2 | 8 | 16 | 32 | 128
    UNDECIDED_BITS = 1 | 4 | 64

    def gen_case(self, rng, i, tier):
        if rng.random() < 0.3:
            return {'ops': hist.gen_focus_arrays(rng), 'pre5': rng.random() < 0.3}
        gen.TINY[0] = rng.random() < 0.3
        try:
            return HistPlugin.gen_case(self, rng, i, tier)
        finally:
            gen.TINY[0] = False

    def extra_checks(self, rng, tier, seed):
        """update_many is update_one applied to every matched document: the multi update and the
        same update issued once per matched _id (the filter with an added _id equality) on a clone must leave the
        same collection and the same total counts.  Includes the positional `$` operator, which
        the Coq model does not cover."""
        import mongomock
        n = 250 if tier == 'quick' else 5000
        viol, done = [], 0
        for i in range(n):
            docs = []
            for k in range(rng.choice([1, 2, 3, 4])):
                docs.append({'_id': k, 'g': rng.choice([1, 2]),
                             'l': [{'x': rng.choice([1, 2, 3]), 'n': rng.choice([0, 5])}
                                   for _ in range(rng.choice([1, 2, 3]))],
                             't': [rng.choice([1, 2, 2, 'a']) for _ in range(rng.choice([0, 2, 3]))],
                             'v': rng.choice([1, 1.5, 's'])})
            r = rng.random()
            if r < 0.45:
                x = rng.choice([1, 2, 3])
                f = rng.choice([{'l.x': x}, {'l': {'$elemMatch': {'x': x}}}])
                u = rng.choice([{'$inc': {'l.$.n': 1}}, {'$set': {'l.$.n': 9}}, {'$unset': {'l.$.n': ''}},
                                {'$set': {'l.$': {'x': x, 'n': 7}}}])
            else:
                f = rng.choice([{}, {'g': 1}, {'v': {'$gte': 1}}, {'t': 2}])
                u = rng.choice([{'$inc': {'v': 1}}, {'$push': {'t': 5}}, {'$pull': {'t': 2}},
                                {'$addToSet': {'t': 2}}, {'$set': {'m.k': [1]}}, {'$pop': {'t': 1}},
                                {'$rename': {'v': 'w'}}, {'$min': {'g': 1}}, {'$set': {'v': 1}}])

            def fresh():
                c = mongomock.MongoClient().db.c
                c.insert_many(copy.deepcopy(docs))
                return c

            def att(fn):
                try:
                    return ('ok', fn())
                except Exception as e:  # noqa
                    return ('raise', type(e).__name__)
            c1 = fresh()
            r1 = att(lambda: (lambda res: (res.matched_count, res.modified_count))(
                c1.update_many(copy.deepcopy(f), copy.deepcopy(u))))
            c2 = fresh()
            ids = att(lambda: [d['_id'] for d in c2.find(copy.deepcopy(f))])
            if r1[0] != 'ok' or ids[0] != 'ok':
                continue
            tot = [0, 0]
            bad = None
            for did in ids[1]:
                rr = att(lambda: c2.update_one(dict(copy.deepcopy(f), _id=did), copy.deepcopy(u)))
                if rr[0] != 'ok':
                    bad = 'update_one raised %s where update_many did not' % rr[1]
                    break
                tot[0] += rr[1].matched_count
                tot[1] += rr[1].modified_count
            done += 1
            s1 = repr(hist.dump_store(c1))
            s2 = repr(hist.dump_store(c2))
            if bad is None and s1 != s2:
                bad = 'update_many and the same update issued once per matched document leave different collections'
            if bad is None and tuple(tot) != r1[1]:
                bad = 'counts differ: update_many %r, one at a time %r' % (r1[1], tuple(tot))
            if bad:
                viol.append({'case': {'docs': common.to_jsonable(docs), 'filter': common.to_jsonable(f),
                                      'update': common.to_jsonable(u)},
                             'impl': {'update_many': s1[:600], 'one_at_a_time': s2[:600]},
                             'failing_clause': bad})
                if len(viol) >= 3:
                    break
        # a replacement applied to a document matched through an operator condition on _id: the
        # document keeps its _id and takes the replacement's fields
        rp = 0
        for i in range(40 if tier == 'quick' else 400):
            docs = [{'_id': k, 'a': rng.choice([1, 2]), 'b': [k]} for k in range(1, rng.choice([2, 3, 4]))]
            k = rng.choice(docs)['_id']
            cond = rng.choice([{'$in': [k]}, {'$eq': k}, {'$gte': k, '$lte': k}, {'$in': [k, 99]}])
            f = {'_id': cond}
            repl = rng.choice([{'a': 7}, {'c': {'d': 1}}, {}, {'_id': k, 'a': 9}])
            # (find_one_and_replace rejects an empty replacement before looking at anything)
            via = rng.choice(['replace_one', 'find_one_and_replace']) if repl else 'replace_one'
            c = mongomock.MongoClient().db.c
            c.insert_many(copy.deepcopy(docs))
            try:
                getattr(c, via)(copy.deepcopy(f), copy.deepcopy(repl))
                got = c.find_one({'_id': k})
                err = None
            except Exception as e:  # noqa
                got, err = None, e
            rp += 1
            want = dict({'_id': k}, **{x: y for x, y in repl.items() if x != '_id'})
            bad, fid = None, None
            if err is not None:
                bad = 'the replacement raised %s: %s' % (type(err).__name__, str(err)[:120])
                if (type(err).__name__ == 'WriteError' and 'immutable' in str(err)) or \
                        (type(err).__name__ == 'OperationFailure' and 'cannot be changed' in str(err)
                         and str(err).endswith('to %s' % (cond,))):
                    fid = 'F-REPLACE-OPERATOR-ID-RAISES'
            elif got != want:
                bad = 'the replaced document is %r, expected %r' % (got, want)
            others_ok = err is not None or all(c.find_one({'_id': d['_id']}) == d for d in docs if d['_id'] != k)
            if bad is None and not others_ok:
                bad = 'a document other than the matched one changed'
            if bad:
                v = {'case': {'docs': common.to_jsonable(docs), 'filter': common.to_jsonable(f),
                              'replacement': common.to_jsonable(repl), 'via': via},
                     'impl': {'got': common.to_jsonable(got)}, 'failing_clause': bad}
                if fid:
                    v['finding_id'] = fid
                viol.append(v)
                if len([x for x in viol if 'finding_id' not in x]) >= 3:
                    break
        return viol, {'multi_vs_single_probes': done, 'operator_id_replace_probes': rp}
