"""C10 (history property; see DESIGN.md section 5)."""
import copy

import common
import gen
import hist
from props.hist_base import HistPlugin


class Plugin(HistPlugin):
    id = 'C10'
    extra_import = 'HistProps HistPropCheck'
    check_fn = 'c10_check'
    weights = {'insert_one': 6, 'insert_many': 3, 'update': 8, 'replace': 3, 'delete': 5, 'find': 1,
               'count': 1, 'bulk': 1}
    rule = ('histories of writes; after each one the reported counts are compared with the observable change '
            '(HistProps.c10_step: deleted_count = drop in size, inserted ids = new keys, modified_count = '
            'documents that differ); in addition (extra) for random (state, filter) pairs every '
            'filter-taking entry point is run on clones of the same state and must agree. Non-trivial = '
            'a multi-document write touching at least two documents; distinct by canonical JSON.')
    FINDING_BITS = 0
    UNDECIDED_BITS = 1 | 2

    def extra_checks(self, rng, tier, seed):
        """Every filter-taking entry point on clones of one state: count_documents, find (plain,
        sort= keyword, chained .sort(), skip/limit-free), update_many.matched_count,
        delete_many.deleted_count, aggregate $match, distinct('_id'), and whether find_one /
        update_one / delete_one find a target must all agree (or all raise)."""
        import mongomock
        n = 300 if tier == 'quick' else 6000
        viol, agree, raised = [], 0, 0
        for i in range(n):
            gen.DATE_MODE[0] = 'rich' if rng.random() < 0.5 else 'plain'
            try:
                docs = [gen.document(rng, 2, id_value=k) for k in range(rng.choice([0, 1, 2, 3, 4]))]
                base = rng.choice(docs) if docs else {}
                f = gen.filter_(rng, base, depth=1, malformed=rng.random() < 0.05)
                # often: an equality on a stored datetime, written as another representation
                # of the same millisecond
                import datetime as _dt
                dated = [(k, v) for d in docs for k, v in d.items() if isinstance(v, _dt.datetime)]
                if dated and rng.random() < 0.6:
                    k, v = rng.choice(dated)
                    f = {k: gen.same_instant(rng, v)}
                    if rng.random() < 0.3:
                        f = {k: {'$in': [gen.same_instant(rng, v), 5]}}
                # sometimes: an _id list that names a document more than once (1 and 1.0 are one key)
                if docs and rng.random() < 0.15:
                    ks = [rng.randrange(len(docs) + 1) for _ in range(rng.choice([1, 2, 3]))]
                    lst = [rng.choice([k, float(k), k]) for k in ks for _ in range(rng.choice([1, 2]))]
                    f = {'_id': {'$in': lst}}
                    if rng.random() < 0.3:
                        f = dict(gen.filter_(rng, base, depth=1), **f)
            finally:
                gen.DATE_MODE[0] = 'plain'

            def fresh():
                c = mongomock.MongoClient().db.c
                if docs:
                    c.insert_many(copy.deepcopy(docs))
                return c

            def attempt(fn):
                try:
                    return ('ok', fn())
                except Exception as e:  # noqa
                    return ('raise', type(e).__name__)
            probes = {
                'count_documents': lambda: fresh().count_documents(copy.deepcopy(f)),
                'find': lambda: len(list(fresh().find(copy.deepcopy(f)))),
                'find_sort_kw': lambda: len(list(fresh().find(copy.deepcopy(f), sort=[('_id', 1)]))),
                'find_chained_sort': lambda: len(list(fresh().find(copy.deepcopy(f)).sort('_id', 1))),
                'update_many': lambda: fresh().update_many(copy.deepcopy(f), {'$set': {'zz9': 1}}).matched_count,
                'update_many_modified': lambda: fresh().update_many(copy.deepcopy(f), {'$set': {'zz9': 1}}).modified_count,
                'delete_many': lambda: fresh().delete_many(copy.deepcopy(f)).deleted_count,
                'aggregate_match': lambda: len(list(fresh().aggregate([{'$match': copy.deepcopy(f)}]))),
                'distinct_id': lambda: len(fresh().distinct('_id', copy.deepcopy(f))),
            }
            res = {k: attempt(v) for k, v in probes.items()}
            one = {
                'find_one': attempt(lambda: fresh().find_one(copy.deepcopy(f)) is not None),
                'update_one': attempt(lambda: fresh().update_one(copy.deepcopy(f), {'$set': {'zz9': 1}}).matched_count > 0),
                'delete_one': attempt(lambda: fresh().delete_one(copy.deepcopy(f)).deleted_count > 0),
            }
            # single-document writes match at most one document, whatever they do to it: an update
            # that changes nothing (every document already carries the probe field) included
            def fresh_marked():
                c = fresh()
                c.update_many({}, {'$set': {'zz9': 1}})
                return c
            one['update_one_noop_count'] = attempt(
                lambda: fresh_marked().update_one(copy.deepcopy(f), {'$set': {'zz9': 1}}).matched_count <= 1)
            one['update_one_count'] = attempt(
                lambda: fresh().update_one(copy.deepcopy(f), {'$set': {'zz9': 1}}).matched_count <= 1)
            kinds = {v[0] for v in res.values()} | {v[0] for v in one.values()}
            if 'raise' in kinds:
                # a filter the matcher rejects on some document: the entry points evaluate it
                # lazily or eagerly and need not agree on WHEN it raises
                raised += 1
                continue
            vals = {v[1] for v in res.values() if v[0] == 'ok'}
            counts_ok = one.pop('update_one_noop_count')[1] is True and one.pop('update_one_count')[1] is True
            ok = kinds == {'ok'} and len(vals) == 1 and counts_ok and \
                {v[1] for v in one.values()} == {next(iter(vals)) > 0}
            # known: an empty collection validates the filter in find/count but $match does not
            if not ok and not docs and res['aggregate_match'] == ('ok', 0) and \
                    all(v[0] == 'raise' for k, v in res.items() if k != 'aggregate_match'):
                continue
            if ok:
                agree += 1
            else:
                viol.append({'case': {'docs': common.to_jsonable(docs), 'filter': common.to_jsonable(f)},
                             'impl': {k: list(v) for k, v in dict(res, **one).items()},
                             'failing_clause': 'the filter-taking entry points disagree on one state and filter'})
                if len(viol) >= 3:
                    break
        # modified_count is the number of documents whose content differs afterwards (implementation
        # only: also decides when the Coq side does not build) - updates that edit arrays and
        # scalars at the top level and below, no-ops included
        mp = 0
        for i in range(80 if tier == 'quick' else 1600):
            docs = [{'_id': k, 'g': rng.choice([1, 2]), 'tags': [rng.choice(['a', 'b', 'c']) for _ in range(rng.choice([0, 1, 2, 3]))],
                     'n': rng.choice([0, 1, 5]), 'd': {'l': [rng.choice([1, 2]) for _ in range(rng.choice([0, 2]))]}}
                    for k in range(rng.choice([1, 2, 3, 4]))]
            u = rng.choice([{'$pull': {'tags': rng.choice(['a', 'b'])}}, {'$pull': {'d.l': 1}}, {'$pop': {'tags': 1}},
                            {'$addToSet': {'tags': 'a'}}, {'$pullAll': {'tags': ['a', 'c']}}, {'$inc': {'n': rng.choice([0, 1])}},
                            {'$set': {'n': 1}}, {'$max': {'n': 1}}, {'$unset': {'zz': ''}}, {'$push': {'tags': 'z'}},
                            {'$pull': {'tags': 'a'}, '$set': {'n': 5}}, {'$rename': {'zz': 'yy'}}])
            f = rng.choice([{}, {'g': 1}, {'n': {'$gte': 1}}])
            c = mongomock.MongoClient().db.c
            c.insert_many(copy.deepcopy(docs))
            before = {d['_id']: d for d in copy.deepcopy(list(c.find()))}
            multi = rng.random() < 0.7
            try:
                res = (c.update_many if multi else c.update_one)(copy.deepcopy(f), copy.deepcopy(u))
            except Exception:  # noqa
                continue
            mp += 1
            after = {d['_id']: d for d in c.find()}
            differ = sum(1 for k in before if before[k] != after.get(k))
            if res.modified_count != differ or res.matched_count < res.modified_count:
                viol.append({'case': {'docs': common.to_jsonable(docs), 'filter': common.to_jsonable(f),
                                      'update': common.to_jsonable(u), 'multi': multi},
                             'impl': {'matched_count': res.matched_count, 'modified_count': res.modified_count,
                                      'documents_that_differ': differ},
                             'failing_clause': 'modified_count is not the number of documents whose content differs afterwards'})
                if len(viol) >= 3:
                    break
        return viol, {'entry_point_probes': n, 'entry_points_agree': agree, 'some_entry_point_raises': raised,
                      'modified_count_probes': mp}
