"""C10 (history property; see DESIGN.md section 5)."""
from props.hist_base import HistPlugin


class Plugin(HistPlugin):
    id = 'C10'
    extra_import = 'HistProps HistPropCheck'
    check_fn = 'c10_check'
    weights = {'insert_one': 6, 'insert_many': 3, 'update': 8, 'replace': 3, 'delete': 5, 'find': 1,
               'count': 1, 'bulk': 1}
    rule = ('histories of writes; after each one the reported counts are compared with the observable change '
            '(HistProps.c10_step: deleted_count = drop in size, inserted ids = new keys, modified_count = '
            'documents that differ); in addition (extra) for random (state, filter) pairs every '
            'filter-taking entry point is run on clones of the same state and must agree. Non-trivial = '
            'a multi-document write touching at least two documents; distinct by canonical JSON.')
    FINDING_BITS = 0
    UNDECIDED_BITS = 1 | 2
