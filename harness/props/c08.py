"""C08 (history property; see DESIGN.md section 5)."""
from props.hist_base import HistPlugin


class Plugin(HistPlugin):
    id = 'C08'
    extra_import = 'HistProps HistPropCheck'
    check_fn = 'c08_check'
    FINDING_BITS = 1 | 8
    UNDECIDED_BITS = 2 | 4 | 16
