"""C08 (history property; see DESIGN.md section 5)."""
import gen
import hist
from props.hist_base import HistPlugin


class Plugin(HistPlugin):
    id = 'C08'
    extra_import = 'HistProps HistPropCheck'
    check_fn = 'c08_check'
    weights = {'insert_one': 6, 'insert_many': 3, 'update': 10, 'replace': 4, 'delete': 1, 'fam': 4,
               'bulk': 3, 'create_index': 3}
    rule = ('failure injection: histories whose updates carry 1-4 operators, a failing operator ($pop with '
            'a bad argument, $inc of a string, $push with an unknown clause, $rename with dots, _id '
            'changes, unique-key violations, invalid replacement) spliced at every position; '
            'insert_many and bulk_write batches with failing elements, ordered and unordered; the '
            'complete state (documents, order, index information) before and after every failing call is '
            'compared. Non-trivial = at least one single-document write raises; distinct by canonical JSON.')
    FINDING_BITS = 1 | 8
    UNDECIDED_BITS = 2 | 4 | 16

    def gen_case(self, rng, i, tier):
        if rng.random() < 0.3:
            return {'ops': hist.gen_focus_unique(rng), 'pre5': False}
        gen.TINY[0] = rng.random() < 0.6
        try:
            return HistPlugin.gen_case(self, rng, i, tier)
        finally:
            gen.TINY[0] = False
