"""C08 (history property; see DESIGN.md section 5)."""
import gen
import hist
from props.hist_base import HistPlugin


class Plugin(HistPlugin):
    id = 'C08'
    extra_import = 'HistProps HistPropCheck'
    check_fn = 'c08_check'
    weights = {'insert_one': 6, 'insert_many': 3, 'update': 10, 'replace': 4, 'delete': 1, 'fam': 4,
               'bulk': 3, 'create_index': 3}
    rule = ('failure injection: histories whose updates carry 1-4 operators, a failing operator ($pop with '
            'a bad argument, $inc of a string, $push with an unknown clause, $rename with dots, _id '
            'changes, unique-key violations, invalid replacement) spliced at every position; '
            'insert_many and bulk_write batches with failing elements, ordered and unordered; the '
            'complete state (documents, order, index information) before and after every failing call is '
            'compared. Non-trivial = at least one single-document write raises; distinct by canonical JSON.')
    FINDING_BITS = 1 | 8
    UNDECIDED_BITS = 2 | 4 | 16

    def gen_case(self, rng, i, tier):
        if rng.random() < 0.3:
            return {'ops': hist.gen_focus_unique(rng), 'pre5': False}
        gen.TINY[0] = rng.random() < 0.6
        try:
            return HistPlugin.gen_case(self, rng, i, tier)
        finally:
            gen.TINY[0] = False

    def extra_checks(self, rng, tier, seed):
        """Batches on the implementation: an UNORDERED insert_many applies exactly the documents
        that succeed when inserted one at a time (in order, each against the state the earlier
        ones left), an ORDERED one exactly those before the first failure; both report the
        failures as a BulkWriteError.  Unique indexes over strings, numbers, datetimes and
        ObjectIds, duplicate _ids and duplicate unique keys."""
        import copy
        import datetime
        import common
        import mongomock
        n = 150 if tier == 'quick' else 3000
        viol, probes = [], 0
        t0 = datetime.datetime(2020, 1, 1)
        pool = ['a', 'b', 1, 2, t0, t0 + datetime.timedelta(days=1), common.make_oid(1), common.make_oid(2), None]
        for i in range(n):
            uniq = rng.choice(['k', 'k', 'w'])
            pre = [{'_id': 100, 'k': rng.choice(pool), 'w': 'pre'}]
            docs = []
            for j in range(rng.choice([2, 3, 4, 5])):
                d = {'_id': rng.choice([1, 2, 3, 4, 100]), 'k': rng.choice(pool), 'w': rng.choice(['x', 'y', 'pre'])}
                if rng.random() < 0.2:
                    del d['_id']
                docs.append(d)
            ordered = rng.random() < 0.4

            def fresh():
                c = mongomock.MongoClient().db.c
                c.insert_many(copy.deepcopy(pre))
                c.create_index(uniq, unique=True)
                return c
            with __import__('unittest').mock.patch('mongomock.collection.ObjectId', common.CounterOidFactory(1000)):
                ref = fresh()
                failed = False
                for d in copy.deepcopy(docs):
                    if failed and ordered:
                        break
                    try:
                        ref.insert_one(d)
                    except Exception:  # noqa  (whatever the error class: the write must leave no trace)
                        failed = True
                expected = hist.canon(list(ref.find()))
            with __import__('unittest').mock.patch('mongomock.collection.ObjectId', common.CounterOidFactory(1000)):
                c = fresh()
                try:
                    c.insert_many(copy.deepcopy(docs), ordered=ordered)
                    raised = None
                except Exception as e:  # noqa
                    raised = type(e).__name__
                got = hist.canon(list(c.find()))
            probes += 1
            ok = got == expected and raised == ('BulkWriteError' if failed else None)
            if not ok:
                viol.append({'case': {'pre': common.to_jsonable(pre), 'unique_index': uniq, 'ordered': ordered,
                                      'docs': common.to_jsonable(docs)},
                             'impl': {'raised': raised, 'collection': common.to_jsonable(got),
                                      'one_at_a_time': common.to_jsonable(expected)},
                             'failing_clause': 'insert_many does not apply exactly the documents that succeed one '
                                               'at a time (ordered: up to the first failure), or does not report '
                                               'the failures as BulkWriteError'})
                if len(viol) >= 3:
                    break
        # a failing update leaves no trace, whatever mapping classes the stored values are made of:
        # documents holding nested OrderedDict / dict sub-documents; updates that edit below them
        # and then fail (a later operator raises, or a unique index is violated)
        import collections
        fp = 0
        for i in range(60 if tier == 'quick' else 1200):
            mk = rng.choice([collections.OrderedDict, collections.OrderedDict, dict])
            docs = [{'_id': k, 'email': 'e%d' % k, 'name': 'n%d' % k,
                     'profile': mk([('visits', k), ('tags', ['a']), ('in', mk([('deep', [k])]))])} for k in (1, 2, 3)]
            c = mongomock.MongoClient().db.c
            c.insert_many(copy.deepcopy(docs))
            c.create_index('email', unique=True)
            before = hist.canon(list(c.find()))
            edit = rng.choice([{'$inc': {'profile.visits': 1}}, {'$push': {'profile.tags': 'vip'}},
                               {'$set': {'profile.in.deep.0': 99}}, {'$addToSet': {'profile.in.deep': 7}},
                               {'$unset': {'profile.in': ''}}, {'$pop': {'profile.tags': 1}}])
            fail = rng.choice([{'$push': {'name': 'x'}}, {'$set': {'email': 'e2'}}, {'$inc': {'name': 1}},
                               {'$set': {'email': 'e3'}, '$rename': {'name': 'email2'}}])
            u = dict(edit)
            for k2, v2 in fail.items():
                u[k2] = dict(u.get(k2, {}), **v2)
            via = rng.choice(['update_one', 'update_many', 'find_one_and_update'])
            f = {'_id': 1} if via != 'update_many' else rng.choice([{'_id': 1}, {}])
            try:
                getattr(c, via)(copy.deepcopy(f), copy.deepcopy(u))
                raised = None
            except Exception as e:  # noqa
                raised = type(e).__name__
            fp += 1
            after = hist.canon(list(c.find()))
            if raised is not None and via != 'update_many' and after != before:
                viol.append({'case': {'docs': common.to_jsonable(docs), 'mapping_class': mk.__name__, 'via': via,
                                      'filter': common.to_jsonable(f), 'update': common.to_jsonable(u)},
                             'impl': {'raised': raised, 'before': common.to_jsonable(before), 'after': common.to_jsonable(after)},
                             'failing_clause': 'an update that raised changed the collection'})
            elif raised is not None and via == 'update_many':
                # the documents before the failing one are updated in full, the failing one and
                # the ones after it are untouched: every document is its old or its fully new self
                ref = mongomock.MongoClient().db.c
                ref.insert_many(copy.deepcopy(docs))
                ref.create_index('email', unique=True)
                full = {}
                for d in docs:
                    try:
                        ref.update_one({'_id': d['_id']}, copy.deepcopy(u))
                        full[d['_id']] = hist.canon([ref.find_one({'_id': d['_id']})])[0]
                    except Exception:  # noqa
                        break
                old = {d['_id']: d for d in before}
                if any(d != old[d['_id']] and d != full.get(d['_id']) for d in after):
                    viol.append({'case': {'docs': common.to_jsonable(docs), 'mapping_class': mk.__name__, 'via': via,
                                          'filter': common.to_jsonable(f), 'update': common.to_jsonable(u)},
                                 'impl': {'raised': raised, 'after': common.to_jsonable(after)},
                                 'failing_clause': 'update_many that raised left a partially updated document'})
            if len(viol) >= 3:
                break
        return viol, {'batch_probes': probes, 'failing_update_probes': fp}
