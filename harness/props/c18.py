"""C18: datetimes are stored as UTC milliseconds on every path and queried consistently."""
import common
import gen
import hist
from props.hist_base import HistPlugin


class Plugin(HistPlugin):
    id = 'C18'
    extra_import = 'DatetimeSpec'
    case_type = 'c18_case'
    check_fn = 'c18_check'
    explain_fn = 'c18_explain'
    quick_n = 400
    weights = {'insert_one': 6, 'insert_many': 1, 'update': 7, 'replace': 2, 'delete': 2, 'find': 8,
               'fam': 3, 'bulk': 1, 'count': 2, 'distinct': 4, 'clock': 1}
    rule = ('histories of writes and reads whose values carry datetimes at nesting depth <= 3: naive and '
            'aware (offsets 0, +60, -300, +330, +840, -720 minutes), microseconds 0/1/500/999/1000/999999; '
            'every writer (insert, $set/$push/$addToSet/$max/$min/$setOnInsert/$currentDate, replace, '
            'upsert seed) and every filter-taking entry point, the filter operands being OTHER '
            'representations of the same millisecond; half of the histories on a tz_aware=True client. '
            'Non-trivial = some stored or queried value is a datetime that needed normalising.')
    assumptions = ['utc offsets are whole minutes']

    def gen_focus(self, rng):
        """documents carrying datetimes, then every reader / filter-taking writer addressed with
        ANOTHER representation of a stored millisecond: chained Cursor.sort(), cursor indexing,
        distinct, count, update, delete"""
        gen.DATE_MODE[0] = 'rich'
        try:
            dates = [gen.rich_date(rng) for _ in range(rng.choice([2, 3]))]
            ops = [{'op': 'clock', 't': 0}]
            docs = [{'_id': k + 1, 'd': d, 'r': rng.choice([1, 2, 3]), 'n': {'w': [d]}} for k, d in enumerate(dates)]
            ops.append({'op': 'insert_many', 'docs': docs, 'ordered': True})
            for _ in range(rng.choice([2, 3, 4])):
                d = gen.same_instant(rng, rng.choice(dates))
                f = rng.choice([{'d': d}, {'d': {'$gte': d}}, {'d': {'$in': [d]}}, {'n.w': d}, {'d': {'$lte': d}, 'r': {'$gte': 1}}])
                k = rng.choice(['chain', 'chain', 'index', 'distinct', 'count', 'update', 'delete', 'kwargs'])
                if k in ('chain', 'index', 'kwargs'):
                    ops.append({'op': 'find', 'filter': f, 'proj': None, 'sort': [['r', rng.choice([1, -1])]],
                                'skip': 0, 'limit': 0, 'via': k})
                elif k == 'distinct':
                    ops.append({'op': 'distinct', 'key': rng.choice(['d', 'n.w']), 'filter': f})
                elif k == 'count':
                    ops.append({'op': 'count', 'filter': f, 'skip': 0, 'limit': None})
                elif k == 'update':
                    ops.append({'op': 'update', 'filter': f, 'update': {'$set': {'m': gen.rich_date(rng)}},
                                'multi': rng.random() < 0.5, 'upsert': False})
                else:
                    ops.append({'op': 'delete', 'filter': f, 'multi': False})
        finally:
            gen.DATE_MODE[0] = 'plain'
        return {'ops': ops, 'pre5': False, 'aware': rng.random() < 0.5}

    def gen_case(self, rng, i, tier):
        if rng.random() < 0.35:
            return self.gen_focus(rng)
        gen.DATE_MODE[0] = 'rich'
        try:
            pre5 = rng.random() < 0.1
            n = rng.randint(2, 6)
            ops = hist.gen_history(rng, n, self.weights, pre5, first=self.first_ops(rng))
        finally:
            gen.DATE_MODE[0] = 'plain'
        # reads whose filter carries a datetime: often through the chained Cursor.sort()
        import json
        for op in ops:
            if op['op'] == 'find' and '$date' in json.dumps(common.to_jsonable(op['filter'])) \
                    and rng.random() < 0.6:
                op['via'] = 'chain'
                op['limit'] = op['limit'] if op.get('via') != 'index' else 0
                if not op['sort']:
                    op['sort'] = [[rng.choice(['_id', 'a', 'b']), rng.choice([1, -1])]]
        return {'ops': ops, 'pre5': pre5, 'aware': rng.random() < 0.5}

    def extra_checks(self, rng, tier, seed):
        """Query consistency on the implementation: two filters whose datetimes denote the same
        milliseconds must select the same documents through every filter-taking entry point: find
        with sort= and with a chained Cursor.sort(), cursor indexing, count_documents, distinct,
        update_many / update_one (matched), delete_many / delete_one (deleted, and what is left),
        find_one_and_delete.  The datetime sits in a field, in _id itself, or inside a compound _id."""
        import copy
        import datetime as _dt
        import mongomock
        n = 200 if tier == 'quick' else 4000
        viol, probes, where_n = [], 0, {'d': 0, '_id': 0, '_id.t': 0}
        for i in range(n):
            gen.DATE_MODE[0] = 'rich'
            try:
                where = rng.choice(['d', 'd', '_id', '_id.t'])
                dates = [gen.rich_date(rng) for _ in range(rng.choice([2, 3, 4]))]
                if where != 'd':
                    # keys must be distinct milliseconds
                    seen, ds = set(), []
                    for d in dates:
                        nv = d if d.tzinfo is None else (d - d.utcoffset()).replace(tzinfo=None)
                        ms = (nv - common.EPOCH) // _dt.timedelta(milliseconds=1)
                        if ms not in seen:
                            seen.add(ms)
                            ds.append(d)
                    dates = ds
                if where == 'd':
                    docs = [{'_id': k + 1, 'd': d, 'r': rng.choice([1, 2, 3]), 'k': k + 1} for k, d in enumerate(dates)]
                elif where == '_id':
                    docs = [{'_id': d, 'r': rng.choice([1, 2, 3]), 'k': k + 1} for k, d in enumerate(dates)]
                else:
                    docs = [{'_id': {'t': d, 'z': 1}, 'r': rng.choice([1, 2, 3]), 'k': k + 1} for k, d in enumerate(dates)]
                base = rng.choice(dates)
                d1, d2 = gen.same_instant(rng, base), gen.same_instant(rng, base)
                shape = rng.choice(['eq', 'gte', 'in', 'lte'])
            finally:
                gen.DATE_MODE[0] = 'plain'

            def flt(d):
                return {'eq': {where: d}, 'gte': {where: {'$gte': d}}, 'in': {where: {'$in': [d]}},
                        'lte': {where: {'$lte': d}}}[shape]

            def run(d, aware):
                def fresh():
                    c = mongomock.MongoClient(tz_aware=aware).db.c
                    c.insert_many(copy.deepcopy(docs))
                    return c
                c = fresh()
                out = {}
                out['find_kw'] = [x['k'] for x in c.find(flt(d), sort=[('r', 1), ('k', 1)])]
                out['find_chain'] = [x['k'] for x in c.find(flt(d)).sort([('r', 1), ('k', 1)])]
                cur = c.find(flt(d)).sort([('r', 1), ('k', 1)])
                try:
                    out['index0'] = [cur[0]['k']]
                except IndexError:
                    out['index0'] = []
                out['count'] = c.count_documents(flt(d))
                out['distinct'] = sorted(c.distinct('k', flt(d)))
                out['update_many'] = c.update_many(flt(d), {'$set': {'m': 1}}).matched_count
                out['update_one'] = c.update_one(flt(d), {'$set': {'m': 2}}).matched_count
                c = fresh()
                out['delete_many'] = c.delete_many(flt(d)).deleted_count
                out['left_after_delete_many'] = c.count_documents({})
                c = fresh()
                out['delete_one'] = c.delete_one(flt(d)).deleted_count
                out['left_after_delete_one'] = c.count_documents({})
                c = fresh()
                got = c.find_one_and_delete(flt(d))
                out['fam_delete'] = 0 if got is None else 1
                out['left_after_fam_delete'] = c.count_documents({})
                return out
            aware = rng.random() < 0.5
            try:
                a, b = run(d1, aware), run(d2, aware)
            except Exception as e:  # noqa
                viol.append({'case': {'docs': common.to_jsonable(docs), 'd1': common.to_jsonable(d1), 'shape': shape,
                                      'where': where, 'tz_aware': aware},
                             'impl': {'raised': type(e).__name__},
                             'failing_clause': 'a filter-taking entry point raised on a datetime filter'})
                continue
            probes += 1
            where_n[where] += 1
            m = len(a['find_kw'])
            one = min(1, m)
            ok = a == b and a['find_kw'] == a['find_chain'] and a['index0'] == a['find_kw'][:1] \
                and a['count'] == m and a['distinct'] == sorted(a['find_kw']) \
                and a['update_many'] == m and a['update_one'] == one \
                and a['delete_many'] == m and a['left_after_delete_many'] == len(docs) - m \
                and a['delete_one'] == one and a['left_after_delete_one'] == len(docs) - one \
                and a['fam_delete'] == one and a['left_after_fam_delete'] == len(docs) - one
            if not ok:
                viol.append({'case': {'docs': common.to_jsonable(docs), 'd1': common.to_jsonable(d1),
                                      'd2': common.to_jsonable(d2), 'shape': shape, 'where': where, 'tz_aware': aware},
                             'impl': {'first': a, 'second': b},
                             'failing_clause': 'two filters denoting the same millisecond (or two filter-taking '
                                               'entry points) select different documents'})
                if len(viol) >= 3:
                    break
        return viol, {'query_consistency_probes': probes, 'datetime_position': where_n}

    def first_ops(self, rng):
        return [{'op': 'clock', 't': rng.choice([0, 1234567, 999, 1000])}]

    def run_impl(self, case):
        obs, notes = hist.run_history(case['ops'], case['pre5'], tz_aware=case.get('aware', False))
        return {'obs': obs, 'notes': notes}

    def case_term(self, case, outcome):
        return 'mkC18 %s (%s)' % (common.coq_bool(case.get('aware', False)),
                                  hist.case_to_coq(case['ops'], outcome['obs'], case['pre5']))

    def features(self, case, outcome, flags):
        f = HistPlugin.features(self, case, outcome, flags)
        f.add('aware' if case.get('aware') else 'naive')
        import json
        txt = json.dumps(common.to_jsonable(case['ops']))
        if '$date' in txt:
            f.add('has-date')
        if '+0' in txt or '-0' in txt:
            f.add('has-offset')
        return f

    def shrink(self, case):
        for c in HistPlugin.shrink(self, case):
            yield c
        if case.get('aware'):
            yield dict(case, aware=False)
