"""C18: datetimes are stored as UTC milliseconds on every path and queried consistently."""
import common
import gen
import hist
from props.hist_base import HistPlugin


class Plugin(HistPlugin):
    id = 'C18'
    extra_import = 'DatetimeSpec'
    case_type = 'c18_case'
    check_fn = 'c18_check'
    explain_fn = 'c18_explain'
    quick_n = 400
    weights = {'insert_one': 6, 'insert_many': 1, 'update': 7, 'replace': 2, 'delete': 2, 'find': 8,
               'fam': 3, 'bulk': 1, 'count': 2, 'distinct': 4, 'clock': 1}
    rule = ('histories of writes and reads whose values carry datetimes at nesting depth <= 3: naive and '
            'aware (offsets 0, +60, -300, +330, +840, -720 minutes), microseconds 0/1/500/999/1000/999999; '
            'every writer (insert, $set/$push/$addToSet/$max/$min/$setOnInsert/$currentDate, replace, '
            'upsert seed) and every filter-taking entry point, the filter operands being OTHER '
            'representations of the same millisecond; half of the histories on a tz_aware=True client. '
            'Non-trivial = some stored or queried value is a datetime that needed normalising.')
    assumptions = ['utc offsets are whole minutes']

    def gen_case(self, rng, i, tier):
        gen.DATE_MODE[0] = 'rich'
        try:
            pre5 = rng.random() < 0.1
            n = rng.randint(2, 6)
            ops = hist.gen_history(rng, n, self.weights, pre5, first=self.first_ops(rng))
        finally:
            gen.DATE_MODE[0] = 'plain'
        # reads whose filter carries a datetime: often through the chained Cursor.sort()
        import json
        for op in ops:
            if op['op'] == 'find' and '$date' in json.dumps(common.to_jsonable(op['filter'])) \
                    and rng.random() < 0.6:
                op['via'] = 'chain'
                op['limit'] = op['limit'] if op.get('via') != 'index' else 0
                if not op['sort']:
                    op['sort'] = [[rng.choice(['_id', 'a', 'b']), rng.choice([1, -1])]]
        return {'ops': ops, 'pre5': pre5, 'aware': rng.random() < 0.5}

    def first_ops(self, rng):
        return [{'op': 'clock', 't': rng.choice([0, 1234567, 999, 1000])}]

    def run_impl(self, case):
        obs, notes = hist.run_history(case['ops'], case['pre5'], tz_aware=case.get('aware', False))
        return {'obs': obs, 'notes': notes}

    def case_term(self, case, outcome):
        return 'mkC18 %s (%s)' % (common.coq_bool(case.get('aware', False)),
                                  hist.case_to_coq(case['ops'], outcome['obs'], case['pre5']))

    def features(self, case, outcome, flags):
        f = HistPlugin.features(self, case, outcome, flags)
        f.add('aware' if case.get('aware') else 'naive')
        import json
        txt = json.dumps(common.to_jsonable(case['ops']))
        if '$date' in txt:
            f.add('has-date')
        if '+0' in txt or '-0' in txt:
            f.add('has-offset')
        return f

    def shrink(self, case):
        for c in HistPlugin.shrink(self, case):
            yield c
        if case.get('aware'):
            yield dict(case, aware=False)
