"""C01: query filters select exactly what MongoDB's matching rules select."""
import common
import gen
from props.base import BasePlugin, shrink_value, from_jsonable

from mongomock import filtering


class Plugin(BasePlugin):
    id = 'C01'
    imports = ('From Coq Require Import ZArith List String.\n'
               'From Verif Require Import Value C01Check.\n'
               'Import ListNotations. Open Scope Z_scope. Open Scope string_scope.')
    case_type = 'c01_case'
    check_fn = 'c01_check'
    explain_fn = 'c01_explain'
    quick_n = 3000
    thorough_n = 60000
    # reason codes that are findings (FilterGuard.reason_code): EQ MULTI SIZE ARR EXISTS NULLDE
    FINDING_BITS = 1 | 2 | 4 | 8 | 16 | 32 | 256 | 512
    rule = ('(filter, document) pairs from harness/gen.py: documents of depth<=3 over keys '
            '{_id,a,b,c,x} with all type classes, filters of depth<=3 over all modelled operators, '
            'operands drawn from the document half of the time; 80% call filtering.filter_applies, '
            '20% go through Collection.find/count_documents on a 1-3 document collection. '
            'Non-trivial = inside the guard, inside the model, and exercising >= 2 features '
            '(operators, path kinds, outcome); distinct by canonical JSON of the case.')
    assumptions = [
        'regular expressions, $where/$text, $expr (see C04) and Python int() oddities on path '
        'components are outside the model (cases reaching them are skipped and counted)',
        'doubles are the dyadic rationals k/8; NaN/inf are not generated',
    ]

    def gen_focus_array_operand(self, rng):
        """an ARRAY as the operand of an equality (plain, $eq, $in, $ne, $nin, below $not / $nor)
        against a field that equals it, holds it as one of its elements, or holds its elements -
        at the top level and below an array of sub-documents"""
        arr = rng.choice([[1, 2], ['y'], [], [1], [[1]], [None]])
        other = rng.choice([[3], ['x'], [2, 1], [1, 2, 3]])
        val = rng.choice([arr, [arr, other], [other, arr], [other], list(arr) + [9], [[arr]], other])
        where = rng.choice(['a', 'a', 'p.q'])
        doc = {'a': val} if where == 'a' else {'p': rng.choice([{'q': val}, [{'q': val}, {'q': other}], [{'q': other}, {'z': 1}]])}
        cond = rng.choice([arr, arr, {'$eq': arr}, {'$in': [arr, 5]}, {'$ne': arr}, {'$nin': [arr]},
                           {'$not': {'$eq': arr}}, {'$all': [arr]}])
        f = {where: cond}
        if rng.random() < 0.2:
            f = {rng.choice(['$nor', '$or', '$and']): [f]}
        return {'filter': f, 'doc': dict(doc, _id=0), 'via': 'find' if rng.random() < 0.3 else 'direct', 'others': []}

    def gen_case(self, rng, i, tier):
        if rng.random() < 0.04:
            return self.gen_focus_array_operand(rng)
        depth = 2 if rng.random() < 0.8 else 3
        doc = gen.document(rng, depth)
        malformed = rng.random() < 0.12
        f = gen.filter_(rng, doc, depth=2, malformed=malformed)
        via = 'find' if rng.random() < 0.2 else 'direct'
        others = []
        if via == 'find':
            others = [gen.document(rng, 2, id_value=100 + k) for k in range(rng.choice([0, 1, 2]))]
        return {'filter': f, 'doc': doc, 'via': via, 'others': others}

    def run_impl(self, case):
        f, doc = case['filter'], case['doc']
        try:
            if case.get('via') == 'find':
                coll = common.mongomock.MongoClient().db.c
                docs = [dict(doc, _id=0)]
                for o in case.get('others', []):
                    try:     # only the target document may decide the outcome
                        filtering.filter_applies(f, o)
                        docs.append(dict(o))
                    except Exception:  # noqa
                        pass
                for d in docs:
                    coll._store[d['_id']] = d     # place documents without going through insert
                found = [d['_id'] for d in coll.find(f)]
                n = coll.count_documents(f)
                if n != len(found):
                    return {'err': 'ECrash', 'note': 'count_documents != len(find)'}
                return {'ok': 0 in found}
            return {'ok': bool(filtering.filter_applies(f, doc))}
        except Exception as e:  # noqa
            return {'err': common.err_class(e), 'exc': type(e).__name__}

    def the_doc(self, case):
        return dict(case['doc'], _id=0) if case.get('via') == 'find' else case['doc']

    def case_term(self, case, outcome):
        if case.get('via') == 'find' and has_date_tz(case['filter']):
            raise common.Unserialisable('find() normalises datetimes (C18)')
        impl = 'Ok %s' % common.coq_bool(outcome['ok']) if 'ok' in outcome else 'Err %s' % outcome['err']
        return 'C01Case (%s) (%s) (%s)' % (common.to_coq(case['filter']),
                                           common.to_coq(self.the_doc(case)), impl)

    def features(self, case, outcome, flags):
        feats = set()
        collect_ops(case['filter'], feats)
        feats.add('via:' + case.get('via', 'direct'))
        feats.add('outcome:' + ('match' if outcome.get('ok') else
                                'nomatch' if 'ok' in outcome else 'raise:' + outcome['err']))
        if flags is not None:
            feats.add('guard:' + ('in' if not flags & 4 else 'out'))
        return feats

    def neighbours(self, case, rng):
        out = list(self.shrink(case))
        subs = [None, 0, 1, 'a', True, [], {}] + [
            v for v in gen.sub_values(case['doc']) if not isinstance(v, dict) or '_id' not in v][:12]
        for f in swap_operands(case['filter'], subs):
            if isinstance(f, dict):
                out.append(dict(case, filter=f))
        rng.shuffle(out)
        return out

    def shrink(self, case):
        for f in shrink_value(case['filter']):
            if isinstance(f, dict):
                yield dict(case, filter=f)
        for d in shrink_value(case['doc']):
            if isinstance(d, dict):
                yield dict(case, doc=d)
        if case.get('others'):
            yield dict(case, others=[])
        if case.get('via') == 'find':
            yield dict(case, via='direct', others=[])


def swap_operands(f, subs):
    """Filters obtained by replacing one operand/literal of f by one of subs."""
    if isinstance(f, dict):
        for k, v in f.items():
            if not isinstance(v, (dict, list)) or k in ('$eq', '$ne', '$in', '$nin', '$all'):
                for s in subs:
                    w = dict(f)
                    w[k] = [s] if k in ('$in', '$nin', '$all') else s
                    yield w
            if isinstance(v, (dict, list)):
                for y in swap_operands(v, subs):
                    w = dict(f)
                    w[k] = y
                    yield w
    elif isinstance(f, list):
        for i, x in enumerate(f):
            for y in swap_operands(x, subs):
                yield f[:i] + [y] + f[i + 1:]


def has_date_tz(v):
    import datetime
    if isinstance(v, datetime.datetime):
        return v.tzinfo is not None or v.microsecond % 1000 != 0
    if isinstance(v, dict):
        return any(has_date_tz(x) for x in v.values())
    if isinstance(v, list):
        return any(has_date_tz(x) for x in v)
    return False


def collect_ops(f, feats):
    if isinstance(f, dict):
        for k, v in f.items():
            if k.startswith('$'):
                feats.add('op:' + k)
            else:
                feats.add('path:%d' % (k.count('.') + 1))
                if any(p.isdigit() for p in k.split('.')):
                    feats.add('path:index')
                if not isinstance(v, dict):
                    feats.add('implicit-eq')
            collect_ops(v, feats)
    elif isinstance(f, list):
        for x in f:
            collect_ops(x, feats)
