"""C16: aggregation is read-only, leaves its arguments alone, and is repeatable."""
import copy
import warnings

import common
import genpipe
import hist
from props.base import BasePlugin, shrink_value
from common import to_coq, coq_list

import mongomock

warnings.simplefilter('ignore')
NAMES = ['c', 'o', 't']


def dump(db):
    return {n: [hist.canon(d) for _, d in hist.dump_store(db[n])] for n in NAMES}


def meta(db, skip=None):
    out = {}
    for n in NAMES:
        if n == skip:
            continue
        out[n] = sorted(db[n].index_information())
    out['names'] = sorted(x for x in db.list_collection_names() if x != skip)
    return out


class Plugin(BasePlugin):
    id = 'C16'
    imports = ('From Coq Require Import ZArith List String.\n'
               'From Verif Require Import Value AggStateSpec.\n'
               'Import ListNotations. Open Scope Z_scope. Open Scope string_scope.')
    case_type = 'c16_case'
    check_fn = 'c16_check'
    explain_fn = 'c16_explain'
    quick_n = 1500
    thorough_n = 30000
    FINDING_BITS = 0
    UNDECIDED_BITS = 0
    rule = ('a database with three collections (c aggregated, with an index; o for $lookup; t the $out target, '
            'sometimes pre-filled) x a pipeline of 1-4 stages weighted towards the stages that edit documents '
            '($addFields/$set on nested paths, $lookup, $unwind, $project, $facet over them), 20% ending in '
            '{$out: t} (or $out to c itself), 8% a lone $sample; the SAME pipeline object is run twice; '
            'observed: both answers, every collection before / after each run, index information and catalog '
            'listing, whether the pipeline object still equals its deep copy. Non-trivial = two or more stages '
            'or $facet/$out/$sample; distinct by canonical JSON.')
    assumptions = ['collections without TTL indexes (expiry on read is C09)']

    def gen_case(self, rng, i, tier):
        docs = genpipe.gen_docs(rng)
        other = genpipe.gen_other(rng)
        target = [{'_id': 90 + k, 'v': k} for k in range(rng.choice([0, 0, 1, 2]))]
        r = rng.random()
        if r < 0.08:
            p = [{'$sample': {'size': rng.choice([0, 1, 2, 3, 10])}}]
        else:
            p = [self.stage(rng) for _ in range(rng.choice([1, 2, 2, 3, 4]))]
            if r < 0.30:
                p.append({'$out': rng.choice(['t', 't', 't', 'c'])})
        return {'docs': docs, 'other': other, 'target': target, 'pipeline': p}

    def stage(self, rng):
        if rng.random() < 0.55:
            k = rng.choice(['$addFields', '$set', '$lookup', '$unwind', '$project', '$facet', '$facet', '$replaceRoot'])
            if k in ('$addFields', '$set'):
                return {k: {rng.choice(['d.z', 'd.x', 'e.f', 'x', 'h.i.j', 'h.i.z', 'h.i.j']): genpipe.genexpr_pipe(rng)}}
            if k == '$lookup':
                return {k: {'from': rng.choice(['o', 'o', 'c']), 'localField': rng.choice(['k', 'n']),
                            'foreignField': rng.choice(['k', '_id']), 'as': rng.choice(['j', 'n', 'd'])}}
            if k == '$unwind':
                return {k: rng.choice(['$a', '$ad', {'path': '$a', 'includeArrayIndex': 'd.i'}])}
            if k == '$project':
                return {k: rng.choice([{'d.x': 1, 'n': 1}, {'d.y': 0}, {'n': 1, 'w': '$d'}])}
            if k == '$replaceRoot':
                return {k: {'newRoot': rng.choice(['$d', '$$ROOT'])}}
            return {'$facet': {t: [self.stage(rng) for _ in range(rng.choice([1, 2]))]
                               for t in rng.sample(['f1', 'f2', 'f3'], 2)}} if rng.random() < 0.7 else genpipe.stage(rng)
        return genpipe.stage(rng)

    def run_impl(self, case):
        db = mongomock.MongoClient().db
        for n, docs in (('c', case['docs']), ('o', case['other']), ('t', case['target'])):
            for d in copy.deepcopy(docs):
                db[n]._store[d['_id']] = d
        db.c.create_index('n')
        p = copy.deepcopy(case['pipeline'])
        before = copy.deepcopy(p)
        out_target = None
        if p and isinstance(p[-1], dict) and list(p[-1]) == ['$out'] and isinstance(p[-1]['$out'], str):
            out_target = p[-1]['$out']
        o = {'w0': dump(db)}
        m0 = meta(db, out_target)

        def run():
            try:
                return {'ok': hist.canon(list(db.c.aggregate(p)))}
            except Exception as e:  # noqa
                return {'err': common.err_class(e), 'exc': type(e).__name__}
        o['r1'] = run()
        o['w1'] = dump(db)
        same = p == before
        m1 = meta(db, out_target)
        o['r2'] = run()
        o['w2'] = dump(db)
        o['pipe_same'] = same and p == before
        # $facet isolation: each branch must answer what it answers when run alone
        o['facet_iso'] = True
        last = case['pipeline'][-1] if case['pipeline'] else None
        # ($sample is random: a standalone run legitimately differs)
        if isinstance(last, dict) and list(last) == ['$facet'] and isinstance(last['$facet'], dict) \
                and 'ok' in o['r1'] and len(o['r1']['ok']) == 1 \
                and '$sample' not in genpipe.stage_names(case['pipeline']):
            for title, sub in last['$facet'].items():
                if not isinstance(sub, list):
                    continue
                try:
                    alone = hist.canon(list(db.c.aggregate(copy.deepcopy(case['pipeline'][:-1]) + copy.deepcopy(sub))))
                except Exception:  # noqa
                    continue
                if alone != o['r1']['ok'][0].get(title):
                    o['facet_iso'] = False
        o['meta_same'] = (m0 == m1 == meta(db, out_target))
        return o

    def extra_checks(self, rng, tier, seed):
        """The stages OUTSIDE the Coq model ($graphLookup with and without restrictSearchWithMatch,
        $bucket, $sortByCount, $count, $redact-free ones the library implements), alone or next to
        modelled stages, observed on the implementation only: the same pipeline object run twice -
        the pipeline still equals its deep copy, no collection / index / catalog entry moved, both
        runs answer the same."""
        n = 150 if tier == 'quick' else 3000
        viol, done, kinds = [], 0, {}
        for i in range(n):
            docs = genpipe.gen_docs(rng)
            other = genpipe.gen_other(rng)
            for k, d in enumerate(other):
                d['boss'] = rng.choice([None, 1, 2, 3, 'a'])
            kind = rng.choice(['graph', 'graph', 'graph-restrict', 'graph-restrict', 'bucket', 'sortByCount', 'count'])
            if kind.startswith('graph'):
                spec = {'from': rng.choice(['o', 'o', 'c']), 'startWith': rng.choice(['$k', '$n', '$d.x']),
                        'connectFromField': rng.choice(['boss', 'k']), 'connectToField': rng.choice(['k', '_id']),
                        'as': rng.choice(['chain', 'd', 'n'])}
                if rng.random() < 0.4:
                    spec['maxDepth'] = rng.choice([0, 1, 2])
                if rng.random() < 0.3:
                    spec['depthField'] = 'depth'
                if kind == 'graph-restrict':
                    spec['restrictSearchWithMatch'] = rng.choice([{'v': 'u'}, {'v': {'$in': ['u', 'w']}}, {}, {'k': {'$ne': None}}])
                st = {'$graphLookup': spec}
            elif kind == 'bucket':
                st = {'$bucket': {'groupBy': '$n', 'boundaries': [-5, 1, 3, 10], 'default': 'rest',
                                  'output': {'c': {'$sum': 1}, 'ids': {'$push': '$_id'}}}}
            elif kind == 'sortByCount':
                st = {'$sortByCount': rng.choice(['$g', '$s'])}
            else:
                st = {'$count': 'total'}
            pre = [self.stage(rng) for _ in range(rng.choice([0, 0, 1]))]
            post = [self.stage(rng) for _ in range(rng.choice([0, 0, 1]))] if kind.startswith('graph') else []
            case = {'docs': docs, 'other': other, 'target': [], 'pipeline': pre + [st] + post}
            if '$sample' in genpipe.stage_names(case['pipeline']):
                continue
            try:
                o = self.run_impl(case)
            except Exception as e:  # noqa
                viol.append({'case': common.to_jsonable(case), 'impl': {'harness': repr(e)[:200]},
                             'failing_clause': 'the observation of an aggregation raised'})
                continue
            done += 1
            kinds[kind] = kinds.get(kind, 0) + 1
            if 'err' in o['r1'] and o['r1'].get('exc') == 'NotImplementedError':
                continue
            bad = None
            if not o['pipe_same']:
                bad = 'aggregate() changed the pipeline object of its caller'
            elif not (o['w0'] == o['w1'] == o['w2']):
                bad = 'an aggregation without $out changed a collection'
            elif not o['meta_same']:
                bad = 'an aggregation changed index information or the catalog'
            elif o['r1'] != o['r2']:
                bad = 'the same pipeline answered differently the second time'
            if bad:
                viol.append({'case': common.to_jsonable(case),
                             'impl': {'r1': common.to_jsonable(o['r1']), 'r2': common.to_jsonable(o['r2'])},
                             'failing_clause': bad})
                if len(viol) >= 3:
                    break
        return viol, {'unmodelled_stage_probes': done, 'unmodelled_stage_kinds': kinds}

    def case_term(self, case, o):
        def w(x):
            return coq_list('("%s", %s)' % (n, coq_list(to_coq(d) for d in x[n])) for n in NAMES)

        def r(x):
            if 'ok' in x:
                try:
                    return 'Ok %s' % coq_list(to_coq(d) for d in x['ok'])
                except common.Unserialisable:
                    return 'Err EUnmodelled'
            return 'Err %s' % x['err']
        try:
            return 'mkC16 %s (%s) (%s) %s (%s) %s %s %s %s' % (
                w(o['w0']), to_coq(case['pipeline']), r(o['r1']), w(o['w1']), r(o['r2']), w(o['w2']),
                common.coq_bool(o['pipe_same']), common.coq_bool(o['meta_same']), common.coq_bool(o['facet_iso']))
        except common.Unserialisable:
            raise common.Unserialisable('world')

    def features(self, case, o, flags):
        f = set(genpipe.stage_names(case['pipeline']))
        f.add('stages:%d' % len(case['pipeline']))
        f.add('r1:' + ('ok' if 'ok' in o['r1'] else o['r1']['err']))
        if not o['pipe_same']:
            f.add('PIPELINE-EDITED')
        return f

    def signature(self, case, o):
        return ' '.join(sorted(genpipe.stage_names(case['pipeline']))) + ' -> ' + \
            ('ok' if 'ok' in o['r1'] else o['r1']['err']) + ('' if o['pipe_same'] else ' EDITED')

    def shrink(self, case):
        p = case['pipeline']
        for i in range(len(p)):
            yield dict(case, pipeline=p[:i] + p[i + 1:])
        for key in ('docs', 'other', 'target'):
            for i in range(len(case[key])):
                yield dict(case, **{key: case[key][:i] + case[key][i + 1:]})
        for i, st in enumerate(p):
            for w in shrink_value(st):
                if isinstance(w, dict):
                    yield dict(case, pipeline=p[:i] + [w] + p[i + 1:])
