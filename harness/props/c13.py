"""C13 (history property; see DESIGN.md section 5)."""
from props.hist_base import HistPlugin


import common
import hist


class Plugin(HistPlugin):
    id = 'C13'
    extra_import = 'HistProps HistPropCheck'
    check_fn = 'c13_check'
    weights = {'insert_one': 4, 'update': 12, 'replace': 6, 'fam': 3, 'bulk': 2, 'delete': 1,
               'create_index': 1}
    rule = ('(state, filter, update|replacement) triples with upsert=True in most update/replace calls, '
            'filters mixing equalities, $eq, dotted paths and operator conditions, _id given in the '
            'filter, in the update or nowhere. Non-trivial = an upsert that inserts; distinct by '
            'canonical JSON.')
    FINDING_BITS = 32 | 64
    UNDECIDED_BITS = 1 | 2 | 4 | 16

    def gen_case(self, rng, i, tier):
        hist.UPSERT_RATE[0] = 0.8
        try:
            return HistPlugin.gen_case(self, rng, i, tier)
        finally:
            hist.UPSERT_RATE[0] = 0.25

    def extra_checks(self, rng, tier, seed):
        """The upserted document carries every equality field of the filter (implementation
        probes): for an upsert that matches nothing, with a filter made of literal equalities
        (plain, {$eq: v}, dotted paths, null and array literals included) and an update that
        writes other fields, each filter path must read back exactly its literal."""
        import copy
        import mongomock
        n = 150 if tier == 'quick' else 3000
        viol, probes = [], 0
        lits = [1, 'a', None, 0, '', False, [1, 2], 2.5, {'k': 1}]
        for i in range(n):
            f = {'uniq': 'no-document-has-this'}       # nothing matches: the upsert inserts
            for key in rng.sample(['a', 'b', 'c.d', 'c.e', 'g'], rng.choice([1, 2, 3])):
                v = rng.choice(lits)
                f[key] = v if rng.random() < 0.7 or isinstance(v, dict) else {'$eq': v}
            u = rng.choice([{'$set': {'z': 1}}, {'$inc': {'z': 2}}, {'$push': {'zl': 1}}, {'$setOnInsert': {'z': 0}},
                            {'$set': {'z': 1}, '$currentDate': {'t': True}}])
            via = rng.choice(['update_one', 'update_many', 'find_one_and_update'])
            c = mongomock.MongoClient().db.c
            c.insert_one({'_id': 'other', 'a': 'unrelated-value'})
            try:
                if via == 'find_one_and_update':
                    c.find_one_and_update(copy.deepcopy(f), copy.deepcopy(u), upsert=True)
                else:
                    getattr(c, via)(copy.deepcopy(f), copy.deepcopy(u), upsert=True)
            except Exception:  # noqa  (e.g. conflicting paths): not this probe's business
                continue
            docs = [d for d in c.find() if d['_id'] != 'other']
            probes += 1
            ok = len(docs) == 1
            if ok:
                d = docs[0]
                for key, cond in f.items():
                    want = cond['$eq'] if isinstance(cond, dict) and set(cond) == {'$eq'} else cond
                    cur = d
                    for part in key.split('.'):
                        if not isinstance(cur, dict) or part not in cur:
                            cur = KeyError
                            break
                        cur = cur[part]
                    if cur is KeyError or cur != want or type(cur) is not type(want):
                        ok = False
            if not ok:
                viol.append({'case': {'filter': common.to_jsonable(f), 'update': common.to_jsonable(u), 'via': via},
                             'impl': {'inserted': common.to_jsonable(docs)},
                             'failing_clause': 'the upserted document does not carry an equality field of the filter'})
                if len(viol) >= 3:
                    break
        # an operator condition on _id is not a value: the upserted document's _id is the operand of
        # {$eq: v}, else fresh - never the condition itself; upserted_id is the new _id
        idp = 0
        for i in range(40 if tier == 'quick' else 400):
            cond = rng.choice([{'$in': [7, 8]}, {'$gt': 100}, {'$eq': 5}, {'$gte': 3, '$lt': 1}, {'$in': []},
                               {'$eq': 'k'}, {'$gt': 100, '$lt': 200}])
            f = {'_id': copy.deepcopy(cond)}
            if rng.random() < 0.5:
                f['kind'] = rng.choice(['x', 1])
            via = rng.choice(['update_one', 'update_many', 'find_one_and_update', 'replace_one', 'find_one_and_replace'])
            arg = {'v': 1} if 'replace' in via else rng.choice([{'$set': {'v': 1}}, {'$inc': {'v': 1}}, {'$setOnInsert': {'v': 1}}])
            c = mongomock.MongoClient().db.c
            c.insert_one({'_id': 'other', 'v': 0})
            try:
                res = getattr(c, via)(copy.deepcopy(f), copy.deepcopy(arg), upsert=True)
            except Exception as e:  # noqa
                res = e
            docs = [d for d in c.find() if d['_id'] != 'other']
            idp += 1
            bad, fid = None, None
            if isinstance(res, Exception):
                bad = 'the upsert raised %s' % type(res).__name__
            elif len(docs) != 1:
                bad = 'the upsert inserted %d documents' % len(docs)
            else:
                nid = docs[0].get('_id')
                if isinstance(nid, dict) and any(str(k).startswith('$') for k in nid):
                    bad = 'the condition on _id was stored as the _id of the upserted document'
                    if 'replace' in via and nid == cond:
                        fid = 'F-REPLACE-OPERATOR-ID'
                elif set(cond) == {'$eq'} and nid != cond['$eq']:
                    bad = 'the _id of the upserted document is not the operand of $eq'
                elif hasattr(res, 'upserted_id') and res.upserted_id != nid:
                    bad = 'upserted_id is not the _id of the upserted document'
            if bad:
                v = {'case': {'filter': common.to_jsonable(f), 'arg': common.to_jsonable(arg), 'via': via},
                     'impl': {'inserted': common.to_jsonable(docs)}, 'failing_clause': bad}
                if fid:
                    v['finding_id'] = fid
                viol.append(v)
                if len([x for x in viol if 'finding_id' not in x]) >= 3:
                    break
        return viol, {'upsert_seed_probes': probes, 'operator_id_upsert_probes': idp}
