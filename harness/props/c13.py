"""C13 (history property; see DESIGN.md section 5)."""
from props.hist_base import HistPlugin


import hist


class Plugin(HistPlugin):
    id = 'C13'
    extra_import = 'HistProps HistPropCheck'
    check_fn = 'c13_check'
    weights = {'insert_one': 4, 'update': 12, 'replace': 6, 'fam': 3, 'bulk': 2, 'delete': 1,
               'create_index': 1}
    rule = ('(state, filter, update|replacement) triples with upsert=True in most update/replace calls, '
            'filters mixing equalities, $eq, dotted paths and operator conditions, _id given in the '
            'filter, in the update or nowhere. Non-trivial = an upsert that inserts; distinct by '
            'canonical JSON.')
    FINDING_BITS = 32 | 64
    UNDECIDED_BITS = 1 | 2 | 4 | 16

    def gen_case(self, rng, i, tier):
        hist.UPSERT_RATE[0] = 0.8
        try:
            return HistPlugin.gen_case(self, rng, i, tier)
        finally:
            hist.UPSERT_RATE[0] = 0.25
