"""C07: the database stores values, not references: no aliasing in, out, or inside."""
import copy
import datetime
import warnings
from unittest import mock

import common
import gen
import genpipe
import hist
from props.base import BasePlugin, shrink_value
from common import to_coq, coq_list, coq_bool

import mongomock

warnings.simplefilter('ignore')

WEIGHTS = {'insert_one': 5, 'insert_many': 2, 'update': 8, 'replace': 3, 'delete': 1, 'find': 7, 'fam': 4,
           'distinct': 2, 'count': 0, 'bulk': 0, 'create_index': 0, 'create_ttl': 0, 'insert_dated': 0,
           'drop_index': 0, 'drop_indexes': 0, 'index_info': 0, 'drop': 0, 'clock': 0}

ARG_FIELDS = {'insert_one': ['doc'], 'insert_many': ['docs'], 'update': ['filter', 'update'],
              'replace': ['filter', 'repl'], 'delete': ['filter'], 'find': ['filter', 'proj'],
              'fam': ['filter', 'arg', 'proj'], 'distinct': ['filter'], 'count': ['filter'],
              'aggregate': ['pipeline']}


def containers(v, acc):
    if isinstance(v, (dict, list)):
        if id(v) in acc:
            return acc
        acc[id(v)] = v
        for x in (v.values() if isinstance(v, dict) else v):
            containers(x, acc)
    elif isinstance(v, tuple):
        for x in v:
            containers(x, acc)
    return acc


class Ids(object):
    """canonical small integers for Python object identities (objects are kept alive)"""

    def __init__(self):
        self.n = {}
        self.alive = []

    def of(self, v):
        out = []
        for i, obj in containers(v, {}).items():
            if i not in self.n:
                self.n[i] = len(self.n) + 1
                self.alive.append(obj)
            out.append(self.n[i])
        return sorted(out)


def scribble(v):
    for obj in list(containers(v, {}).values()):
        if isinstance(obj, dict):
            obj['__scribble__'] = ['x']
            for k in list(obj):
                if k not in ('__scribble__',) and not isinstance(obj[k], (dict, list)):
                    obj[k] = 'scribbled'
        else:
            obj.append('__scribble__')


def gen_nested_update(rng, docs):
    """updates carrying nested mutable values through every value-bearing operator"""
    val = lambda: rng.choice([{'p': [1, {'q': 2}]}, [1, [2]], [{'r': 1}], {'s': {'t': [0]}}, 5])  # noqa
    k = rng.choice(['$set', '$set', '$push', '$push', '$addToSet', '$pushEach', '$addEach', '$setOnInsert', '$mix'])
    f = rng.choice(['a', 'b', 'c', 'x'])
    if k == '$set':
        return {'$set': {f: val(), rng.choice(['b.z', 'y']): val()}}
    if k == '$push':
        return {'$push': {f: val()}}
    if k == '$addToSet':
        return {'$addToSet': {f: val()}}
    if k == '$pushEach':
        return {'$push': {f: {'$each': [val(), val()]}}}
    if k == '$addEach':
        return {'$addToSet': {f: {'$each': [val(), val()]}}}
    if k == '$setOnInsert':
        return {'$setOnInsert': {f: val()}, '$set': {'y': val()}}
    return {'$set': {f: val()}, '$push': {'l': val()}}


class Plugin(BasePlugin):
    id = 'C07'
    imports = ('From Coq Require Import ZArith List String.\n'
               'From Verif Require Import Value Coll Heap HeapCheck.\n'
               'Import ListNotations. Open Scope Z_scope. Open Scope string_scope.')
    case_type = 'c07_case'
    check_fn = 'c07_check'
    explain_fn = 'c07_explain'
    quick_n = 400
    thorough_n = 8000
    FINDING_BITS = 0
    UNDECIDED_BITS = 0
    rule = ('histories of 4-10 operations (insert_one/many, update_one/many with $set/$push/$addToSet/'
            '$setOnInsert/$each carrying nested sub-documents and arrays, replace, upsert, delete, find with and '
            'without projection incl. $slice/$elemMatch, find_one_and_*, distinct, aggregate) run on the real '
            'library WITHOUT copying any argument or result; after every call: object identities (id()) '
            'reachable from every stored document, from the argument objects and from the returned object; '
            'arguments compared with deep copies taken before the call; then every argument and returned '
            'object is scribbled on and the store is dumped again. Non-trivial = at least one write carrying '
            'a nested container and one read; distinct by canonical JSON.')
    assumptions = ['identities are CPython id()s of dict and list objects; tuples and immutable values carry none']

    def gen_focus_proj_ops(self, rng):
        """arrays whose ELEMENTS are containers (sub-documents, nested arrays) read through $slice /
        $elemMatch projections, alone and next to plain inclusions / exclusions"""
        docs = [{'_id': k, 't': 'x', 'a': [{'r': 1, 'w': [k]}, {'r': 2, 'w': []}, {'r': 1}][:rng.choice([1, 2, 3])],
                 'm': [[1], [2, 3]], 'b': {'z': [{'q': 1}]}} for k in (1, 2)]
        ops = [{'op': 'clock', 't': 0}, {'op': 'insert_many', 'docs': docs, 'ordered': True}]
        for _ in range(rng.choice([1, 2, 3])):
            field = rng.choice(['a', 'a', 'm'])
            po = rng.choice([{'$slice': 1}, {'$slice': -1}, {'$slice': [1, 1]}, {'$slice': 5}]
                            + ([{'$elemMatch': {'r': 1}}, {'$elemMatch': {'r': 2}}] if field == 'a' else []))
            proj = {field: po}
            r = rng.random()
            if r < 0.3:
                proj['t'] = 1
            elif r < 0.45:
                proj['b'] = 0
            elif r < 0.55:
                proj['_id'] = 0
            k = rng.random()
            if k < 0.7:
                ops.append({'op': 'find', 'filter': rng.choice([{}, {'_id': 1}]), 'proj': proj, 'sort': [],
                            'skip': 0, 'limit': 0})
            else:
                ops.append({'op': 'fam', 'kind': 'update', 'filter': {'_id': rng.choice([1, 2])}, 'sort': [],
                            'proj': proj, 'upsert': False, 'after': rng.random() < 0.5,
                            'arg': {'$set': {'t': 'y'}}})
            if rng.random() < 0.4:
                ops.append({'op': 'find', 'filter': {}, 'proj': None, 'sort': [], 'skip': 0, 'limit': 0})
        return {'ops': ops, 'pre5': False}

    def gen_case(self, rng, i, tier):
        if rng.random() < 0.1:
            return self.gen_focus_proj_ops(rng)
        n = rng.randint(4, 10)
        ops = hist.gen_history(rng, n, weights=WEIGHTS)
        docs = [{'_id': k, 'a': [1], 'b': {'z': 1}} for k in (1, 2, 3)]
        out = []
        for op in ops:
            if op['op'] == 'update' and rng.random() < 0.7:
                op = dict(op, update=gen_nested_update(rng, docs), filter=rng.choice([{}, {'_id': rng.choice([1, 2, 3, 4])}, op['filter']]))
            if op['op'] == 'find' and rng.random() < 0.3:
                op = dict(op, proj=rng.choice([{'a': {'$slice': 1}}, {'a': {'$elemMatch': {'r': 1}}}, {'a': 1, '_id': 1},
                                               {'b.z': 1}, {'a': 0}]))
            out.append(op)
            if rng.random() < 0.15:
                out.append({'op': 'aggregate', 'pipeline': rng.choice([
                    [], [{'$match': {}}], [{'$addFields': {'k': '$b'}}], [{'$unwind': '$a'}],
                    [{'$lookup': {'from': 'c', 'localField': '_id', 'foreignField': '_id', 'as': 'j'}}],
                    [{'$group': {'_id': None, 'all': {'$push': '$$ROOT'}}}], [{'$project': {'b': 1, 'k': '$a'}}],
                    [{'$replaceRoot': {'newRoot': '$$ROOT'}}], [{'$sort': {'_id': -1}}, {'$limit': 2}]])})
        return {'ops': [{'op': 'clock', 't': 0}] + out, 'pre5': False}

    def run_impl(self, case):
        ids = Ids()
        obs = []
        clock = [hist.T0]
        with mock.patch('mongomock.collection.ObjectId', common.CounterOidFactory(1000)), \
                mock.patch('mongomock.utcnow', side_effect=lambda: clock[0]):
            coll = mongomock.MongoClient().db.c
            for op in case['ops']:
                a = copy.deepcopy(op)
                before = copy.deepcopy(a)
                keep = []
                try:
                    if op['op'] == 'aggregate':
                        r = list(coll.aggregate(a['pipeline']))
                        keep.append(r)
                        out = {'ok': hist.canon(r)}
                    else:
                        out = {'ok': hist.run_op(coll, op, clock, a=a, keep=keep)}
                        if isinstance(out['ok'], dict):
                            out['ok'].pop('$caller_id', None)
                except Exception as e:  # noqa
                    out = {'err': common.err_class(e), 'exc': type(e).__name__}
                out = copy.deepcopy(out)          # the outcome must not alias what gets scribbled on
                fields = ARG_FIELDS.get(op['op'], [])
                args = [a[f] for f in fields if a.get(f) is not None]
                # arguments unchanged (an insert may add _id)
                args_ok = True
                for f in fields:
                    now, was = a.get(f), before.get(f)
                    if op['op'] == 'insert_one' and isinstance(now, dict) and '_id' not in was:
                        now = {k: v for k, v in now.items() if k != '_id'}
                    if op['op'] == 'insert_many' and isinstance(now, list):
                        now = [({k: v for k, v in d.items() if k != '_id'} if isinstance(d, dict) and isinstance(w, dict) and '_id' not in w else d)
                               for d, w in zip(now, was)] if len(now) == len(was) else now
                    if now != was:
                        args_ok = False
                store = hist.dump_store(coll)
                raw_docs = list(coll._store._documents.values())
                o = {'out': out, 'store': store,
                     'store_ids': [ids.of(d) for d in raw_docs],
                     'args_ids': sorted(set(x for v in args for x in ids.of(v))),
                     'result_ids': sorted(set(x for v in keep for x in ids.of(v))),
                     'args_ok': args_ok}
                # scribble on everything the caller holds, then look at the store again
                for v in args + keep:
                    scribble(v)
                o['scribble_ok'] = hist.dump_store(coll) == store
                obs.append(o)
        return obs

    def case_term(self, case, obs):
        ops_t = []
        for op, o in zip(case['ops'], obs):
            if op['op'] == 'aggregate':
                h = 'HAggregate (%s)' % to_coq(op['pipeline'])
            else:
                h = 'HColl (%s)' % hist.op_to_coq(op)
            # the model allocates positive identities: the caller's objects get negative ones
            ops_t.append('(%s, %s)' % (h, coq_list('(-%d)' % x for x in o['args_ids'])))
        try:
            obs_t = []
            for o in obs:
                r = 'Ok (%s)' % to_coq(o['out']['ok']) if 'ok' in o['out'] else 'Err %s' % o['out']['err']
                obs_t.append('mkHObs (%s) %s %s %s %s %s %s' % (
                    r, coq_list('(%s, %s)' % (to_coq(k), to_coq(d)) for k, d in o['store']),
                    coq_list(coq_list(str(x) for x in s) for s in o['store_ids']),
                    coq_list(str(x) for x in o['args_ids']), coq_list(str(x) for x in o['result_ids']),
                    coq_bool(o['args_ok']), coq_bool(o['scribble_ok'])))
        except common.Unserialisable as e:
            raise common.OutcomeUnserialisable(str(e))
        return 'mkC07 %s %s %s' % (coq_bool(case['pre5']), coq_list(ops_t), coq_list(obs_t))

    def describe(self, case, obs):
        return {'case': common.to_jsonable(case), 'impl': common.to_jsonable(
            [{k: v for k, v in o.items() if k != 'store'} for o in obs])}

    def features(self, case, obs, flags):
        f = set('op:' + o['op'] for o in case['ops'])
        for op in case['ops']:
            if op['op'] == 'update':
                f.update(op['update'])
            if op['op'] == 'find' and op.get('proj'):
                f.add('projection')
        if any(not o['scribble_ok'] for o in obs):
            f.add('SCRIBBLE-VISIBLE')
        if any(not o['args_ok'] for o in obs):
            f.add('ARGS-EDITED')
        return f

    def signature(self, case, obs):
        bad = []
        for op, o in zip(case['ops'], obs):
            why = []
            if not o['scribble_ok']:
                why.append('SCRIBBLE')
            if not o['args_ok']:
                why.append('ARGS')
            st = o['store_ids']
            if any(set(st[i]) & set(st[j]) for i in range(len(st)) for j in range(i + 1, len(st))):
                why.append('STORE-STORE')
            if any(set(s) & set(o['args_ids']) for s in st):
                why.append('STORE-ARGS')
            if any(set(s) & set(o['result_ids']) for s in st):
                why.append('STORE-RESULT')
            if why:
                bad.append(op['op'] + (':' + str(op.get('proj')) if op.get('proj') else '') + '=' + '+'.join(why))
        return ' '.join(bad[:3])

    @staticmethod
    def step_ok(o):
        """the statement on one observed step (the Python twin of c07_step_ok)"""
        st = [set(x) for x in o['store_ids']]
        for i in range(len(st)):
            for j in range(i + 1, len(st)):
                if st[i] & st[j]:
                    return False
        held = set(o['args_ids']) | set(o['result_ids'])
        return not any(x & held for x in st) and o['args_ok'] and o['scribble_ok']

    def extra_checks(self, rng, tier, seed):
        """Implementation-only search: the observed-step predicate evaluated in Python on
        lookup-heavy histories (also runs when the Coq side does not build)."""
        n = 150 if tier == 'quick' else 3000
        viol, steps = [], 0
        for i in range(n):
            case = self.gen_case(rng, i, tier)
            if rng.random() < 0.5:
                case['ops'].append({'op': 'aggregate', 'pipeline': [
                    {'$lookup': {'from': 'c', 'localField': rng.choice(['_id', 'a']), 'foreignField': '_id', 'as': 'j'}}]})
            obs = self.run_impl(case)
            steps += len(obs)
            bad = [k for k, o in enumerate(obs) if not self.step_ok(o)]
            if bad:
                small = {'ops': case['ops'][:bad[0] + 1], 'pre5': False}
                viol.append(dict(self.describe(small, self.run_impl(small)),
                                 failing_clause='a stored document shares objects with another stored document, '
                                                'an argument or a returned object, or an argument was edited, '
                                                'or scribbling on caller-held objects changed the store (step %d)' % bad[0]))
                if len(viol) >= 3:
                    break
        return viol, {'implementation_only_histories': n, 'implementation_only_steps': steps}

    def shrink(self, case):
        ops = case['ops']
        for i in range(len(ops)):
            if i == 0 and ops[0].get('op') == 'clock':
                continue
            yield dict(case, ops=ops[:i] + ops[i + 1:])
        for i, op in enumerate(ops):
            for key in ('doc', 'update', 'filter', 'repl', 'arg', 'proj'):
                if isinstance(op.get(key), dict):
                    for w in shrink_value(op[key]):
                        if isinstance(w, dict):
                            yield dict(case, ops=ops[:i] + [dict(op, **{key: w})] + ops[i + 1:])
