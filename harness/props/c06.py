"""C06 (history property; see DESIGN.md section 5)."""
import gen
import hist
from props.hist_base import HistPlugin


class Plugin(HistPlugin):
    id = 'C06'
    extra_import = 'HistProps HistPropCheck'
    check_fn = 'c06_check'
    weights = {'insert_one': 8, 'insert_many': 2, 'update': 6, 'replace': 3, 'delete': 1, 'fam': 2,
               'bulk': 2, 'create_index': 6, 'drop_index': 1, 'drop_indexes': 1, 'index_info': 1}
    gen_kw = {}
    rule = ('histories mixing unique index creation (single-field, nested-field and compound keys; plain, '
            'sparse, partial; before and after the data) with every write path over a small value domain, '
            'so that duplicates are frequent; the unique-index invariant (HistProps.inv_unique) is '
            'evaluated on every observed state. Non-trivial = a unique index exists while at least two '
            'documents are stored; distinct by canonical JSON.')
    FINDING_BITS = 1 | 2 | 8 | 16 | 64
    UNDECIDED_BITS = 4 | 32 | 128 | 256

    def gen_case(self, rng, i, tier):
        if rng.random() < 0.5:
            return {'ops': hist.gen_focus_unique(rng), 'pre5': False}
        gen.TINY[0] = rng.random() < 0.6
        try:
            return HistPlugin.gen_case(self, rng, i, tier)
        finally:
            gen.TINY[0] = False
