"""C06 (history property; see DESIGN.md section 5)."""
import common
import gen
import hist
from props.hist_base import HistPlugin


class Plugin(HistPlugin):
    id = 'C06'
    extra_import = 'HistProps HistPropCheck'
    check_fn = 'c06_check'
    weights = {'insert_one': 8, 'insert_many': 2, 'update': 6, 'replace': 3, 'delete': 1, 'fam': 2,
               'bulk': 2, 'create_index': 6, 'drop_index': 1, 'drop_indexes': 1, 'index_info': 1}
    gen_kw = {}
    rule = ('histories mixing unique index creation (single-field, nested-field and compound keys; plain, '
            'sparse, partial; before and after the data) with every write path over a small value domain, '
            'so that duplicates are frequent; the unique-index invariant (HistProps.inv_unique) is '
            'evaluated on every observed state. Non-trivial = a unique index exists while at least two '
            'documents are stored; distinct by canonical JSON.')
    FINDING_BITS = 1 | 2 | 8 | 16 | 64
    UNDECIDED_BITS = 4 | 32 | 128 | 256

    def gen_case(self, rng, i, tier):
        if rng.random() < 0.5:
            return {'ops': hist.gen_focus_unique(rng), 'pre5': False}
        gen.TINY[0] = rng.random() < 0.6
        try:
            return HistPlugin.gen_case(self, rng, i, tier)
        finally:
            gen.TINY[0] = False

    def extra_checks(self, rng, tier, seed):
        """A unique index belongs to the collection, not to the handle that created it
        (implementation probes against a reference dictionary): writes, index creation / removal
        and a rebuilt collection renamed over the live one, issued through several handles of the
        SAME collection (attribute access, with_options, a second client on the same store).
        After every call: accepted / rejected as the reference says, same documents, and the
        unique index listed iff the reference has it."""
        import mongomock
        from mongomock.write_concern import WriteConcern
        n = 60 if tier == 'quick' else 1500
        viol, done, steps = [], 0, 0
        for i in range(n):
            client = mongomock.MongoClient()
            db = client.db
            other_client = mongomock.MongoClient(_store=client._store)
            handles = [db.c, db.c.with_options(write_concern=WriteConcern(w=1)), other_client.db.c,
                       db.get_collection('c')]
            ref_docs, ref_index, next_id = {}, False, [1]
            trace = []

            def uniq_listed():
                return any(v.get('unique') and [k for k, _ in v['key']] == ['k']
                           for v in handles[0].index_information().values())

            bad = None
            for _ in range(rng.randint(4, 9)):
                h = rng.randrange(len(handles))
                coll = handles[h]
                kind = rng.choice(['insert', 'insert', 'insert', 'update', 'create', 'drop', 'swap', 'upsert'])
                k = rng.choice([1, 2, 3])
                op = {'handle': h, 'op': kind, 'k': k}
                want = 'ok'
                try:
                    if kind == 'insert':
                        did = next_id[0]
                        next_id[0] += 1
                        op['_id'] = did
                        if ref_index and k in ref_docs.values():
                            want = 'dup'
                        coll.insert_one({'_id': did, 'k': k})
                        ref_docs[did] = k
                    elif kind == 'update':
                        if not ref_docs:
                            continue
                        did = rng.choice(sorted(ref_docs))
                        op['_id'] = did
                        if ref_index and any(v == k for d, v in ref_docs.items() if d != did):
                            want = 'dup'
                        via = rng.choice(['update_one', 'replace_one', 'find_one_and_update'])
                        op['via'] = via
                        if via == 'replace_one':
                            coll.replace_one({'_id': did}, {'k': k})
                        else:
                            getattr(coll, via)({'_id': did}, {'$set': {'k': k}})
                        ref_docs[did] = k
                    elif kind == 'upsert':
                        did = next_id[0]
                        next_id[0] += 1
                        op['_id'] = did
                        if ref_index and k in ref_docs.values():
                            want = 'dup'
                        coll.update_one({'_id': did}, {'$set': {'k': k}}, upsert=True)
                        ref_docs[did] = k
                    elif kind == 'create':
                        vals = list(ref_docs.values())
                        if len(set(vals)) != len(vals):
                            want = 'dup'
                        coll.create_index('k', unique=True)
                        ref_index = True
                    elif kind == 'drop':
                        coll.drop_indexes()
                        ref_index = False
                    else:
                        # rebuild under another name, with or without the index, and swap it in
                        st = db.staging
                        st.drop()
                        with_index = rng.random() < 0.7
                        op['with_index'] = with_index
                        if with_index:
                            st.create_index('k', unique=True)
                        new = {}
                        for kk in rng.sample([1, 2, 3], rng.choice([0, 1, 2])):
                            new[next_id[0]] = kk
                            next_id[0] += 1
                        if new:
                            st.insert_many([{'_id': d, 'k': v} for d, v in new.items()])
                        elif not with_index:
                            st.insert_one({'_id': next_id[0], 'k': 3})
                            new[next_id[0]] = 3
                            next_id[0] += 1
                        op['docs'] = dict(new)
                        st.rename('c', dropTarget=True)
                        ref_docs, ref_index = new, with_index
                    got = 'ok'
                except mongomock.DuplicateKeyError:
                    got = 'dup'
                except Exception as e:  # noqa
                    got = 'raise:' + type(e).__name__
                op['outcome'] = got
                trace.append(op)
                steps += 1
                if got != want:
                    bad = 'the call was %s, the reference says %s' % (got, want)
                else:
                    stored = {d['_id']: d.get('k') for d in handles[rng.randrange(len(handles))].find()}
                    if stored != ref_docs:
                        bad = 'the collection holds %r, the reference %r' % (stored, ref_docs)
                    elif uniq_listed() != ref_index:
                        bad = 'unique index listed: %r, reference: %r' % (uniq_listed(), ref_index)
                if bad:
                    break
            done += 1
            if bad:
                viol.append({'case': {'ops': common.to_jsonable(trace)}, 'impl': {'last': trace[-1]['outcome']},
                             'failing_clause': 'several handles of one collection: ' + bad})
                if len(viol) >= 3:
                    break
        return viol, {'multi_handle_histories': done, 'multi_handle_steps': steps}
