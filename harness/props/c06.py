"""C06 (history property; see DESIGN.md section 5)."""
from props.hist_base import HistPlugin


class Plugin(HistPlugin):
    id = 'C06'
    extra_import = 'HistProps HistPropCheck'
    check_fn = 'c06_check'
    FINDING_BITS = 1 | 2 | 8
    UNDECIDED_BITS = 4
