"""C14 (history property; see DESIGN.md section 5)."""
from props.hist_base import HistPlugin


class Plugin(HistPlugin):
    id = 'C14'
    extra_import = 'HistProps HistPropCheck'
    check_fn = 'c14_check'
    FINDING_BITS = 2 | 8
    UNDECIDED_BITS = 1 | 4
