"""C14 (history property; see DESIGN.md section 5)."""
import gen
from props.hist_base import HistPlugin


class Plugin(HistPlugin):
    id = 'C14'
    extra_import = 'HistProps HistPropCheck'
    check_fn = 'c14_check'
    weights = {'insert_one': 5, 'insert_many': 3, 'update': 6, 'replace': 3, 'delete': 5, 'fam': 10}
    rule = ('states with several matching documents x sort specifications x projections (including ones '
            'dropping _id) x return-document mode x upsert, through update_one, replace_one, delete_one and '
            'find_one_and_*. Non-trivial = at least two documents match the filter of a single-document '
            'operation; distinct by canonical JSON.')
    FINDING_BITS = 2 | 8
    UNDECIDED_BITS = 1 | 4

    def gen_focus_noop(self, rng):
        """several documents match; the single-document write leaves the FIRST match as it is
        (its target state is the state it is already in) and would change a later one"""
        n = rng.choice([2, 3, 4])
        vals = [rng.choice([1, 2]) for _ in range(n)]
        docs = [{'_id': k + 1, 'g': 1, 'v': vals[k], 't': [vals[k]]} for k in range(n)]
        if rng.random() < 0.3:
            docs.insert(0, {'_id': 0, 'g': 2, 'v': 9, 't': []})
        ops = [{'op': 'clock', 't': 0}, {'op': 'insert_many', 'docs': docs, 'ordered': True}]
        first = vals[0]
        for _ in range(rng.choice([1, 2])):
            k = rng.choice(['set', 'addToSet', 'replace', 'fam', 'max'])
            up = rng.random() < 0.3
            if k == 'set':
                ops.append({'op': 'update', 'filter': {'g': 1}, 'update': {'$set': {'v': first}}, 'multi': False, 'upsert': up})
            elif k == 'addToSet':
                ops.append({'op': 'update', 'filter': {'g': 1}, 'update': {'$addToSet': {'t': first}}, 'multi': False, 'upsert': up})
            elif k == 'max':
                ops.append({'op': 'update', 'filter': {'g': 1}, 'update': {'$max': {'v': 0}, '$set': {'t': [first]}}, 'multi': False, 'upsert': up})
            elif k == 'replace':
                ops.append({'op': 'replace', 'filter': {'g': 1}, 'repl': {'g': 1, 'v': first, 't': [first]}, 'upsert': up})
            else:
                ops.append({'op': 'fam', 'kind': 'update', 'filter': {'g': 1}, 'sort': [], 'proj': None, 'upsert': up,
                            'after': rng.random() < 0.5, 'arg': {'$set': {'v': first}}})
        return {'ops': ops, 'pre5': False}

    def gen_focus_claim(self, rng):
        """"claim a job": find_one_and_update / find_one_and_replace whose change makes the target
        stop matching the filter, BEFORE and AFTER images, with sort and projection"""
        n = rng.choice([2, 3, 4])
        docs = [{'_id': k + 1, 'state': rng.choice(['q', 'q', 'r']), 'prio': rng.choice([1, 2, 2, 3]), 'runs': 0}
                for k in range(n)]
        ops = [{'op': 'clock', 't': 0}, {'op': 'insert_many', 'docs': docs, 'ordered': True}]
        for _ in range(rng.choice([1, 2, 3])):
            kind = rng.choice(['update', 'update', 'replace'])
            arg = {'$set': {'state': 'r'}, '$inc': {'runs': 1}} if kind == 'update' else {'state': 'r', 'runs': 9}
            ops.append({'op': 'fam', 'kind': kind, 'filter': rng.choice([{'state': 'q'}, {'state': 'q', 'prio': {'$gte': 2}}]),
                        'sort': rng.choice([[], [['prio', -1]], [['prio', 1], ['_id', -1]]]),
                        'proj': rng.choice([None, None, {'state': 1}, {'_id': 0, 'runs': 1}]),
                        'upsert': False, 'after': rng.random() < 0.7, 'arg': arg})
        return {'ops': ops, 'pre5': False}

    def gen_case(self, rng, i, tier):
        r = rng.random()
        if r < 0.15:
            return self.gen_focus_noop(rng)
        if r < 0.27:
            return self.gen_focus_claim(rng)
        gen.TINY[0] = rng.random() < 0.7
        try:
            return HistPlugin.gen_case(self, rng, i, tier)
        finally:
            gen.TINY[0] = False
