"""C14 (history property; see DESIGN.md section 5)."""
import gen
from props.hist_base import HistPlugin


class Plugin(HistPlugin):
    id = 'C14'
    extra_import = 'HistProps HistPropCheck'
    check_fn = 'c14_check'
    weights = {'insert_one': 5, 'insert_many': 3, 'update': 6, 'replace': 3, 'delete': 5, 'fam': 10}
    rule = ('states with several matching documents x sort specifications x projections (including ones '
            'dropping _id) x return-document mode x upsert, through update_one, replace_one, delete_one and '
            'find_one_and_*. Non-trivial = at least two documents match the filter of a single-document '
            'operation; distinct by canonical JSON.')
    FINDING_BITS = 2 | 8
    UNDECIDED_BITS = 1 | 4

    def gen_case(self, rng, i, tier):
        gen.TINY[0] = rng.random() < 0.7
        try:
            return HistPlugin.gen_case(self, rng, i, tier)
        finally:
            gen.TINY[0] = False
