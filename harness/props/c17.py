"""C17: databases, collections and indexes appear, persist, move and vanish as in MongoDB."""
import common
from props.base import BasePlugin, shrink_value
from common import coq_string, coq_bool, coq_list, to_coq

import mongomock

DBS = ['d1', 'd2']
COLLS = ['a', 'b', 'c', 'system.x']


def op_to_coq(o):
    k = o['op']
    s = coq_string
    if k == 'read':
        t = 'KRead %s %s' % (s(o['db']), s(o['c']))
    elif k == 'insert':
        t = 'KInsert %s %s %d' % (s(o['db']), s(o['c']), o['id'])
    elif k == 'delete_all':
        t = 'KDeleteAll %s %s' % (s(o['db']), s(o['c']))
    elif k == 'create_collection':
        t = 'KCreateCollection %s %s' % (s(o['db']), s(o['c']))
    elif k == 'create_index':
        t = 'KCreateIndex %s %s %s' % (s(o['db']), s(o['c']), s(o['field']))
    elif k == 'drop_index':
        t = 'KDropIndex %s %s %s' % (s(o['db']), s(o['c']), s(o['name']))
    elif k == 'drop_indexes':
        t = 'KDropIndexes %s %s' % (s(o['db']), s(o['c']))
    elif k == 'rename':
        t = 'KRename %s %s %s %s' % (s(o['db']), s(o['c']), s(o['new']), coq_bool(o['drop_target']))
    elif k == 'drop_collection':
        t = 'KDropCollection %s %s' % (s(o['db']), s(o['c']))
    elif k == 'drop_database':
        t = 'KDropDatabase %s' % s(o['db'])
    elif k == 'list_collections':
        t = 'KListCollections %s' % s(o['db'])
    elif k == 'list_databases':
        t = 'KListDatabases'
    else:
        t = 'KIndexInfo %s %s' % (s(o['db']), s(o['c']))
    return '(%d%%nat, %s)' % (0 if o['client'] in ('A', 'B') else 1, t)


class Plugin(BasePlugin):
    id = 'C17'
    imports = ('From Coq Require Import ZArith List String.\n'
               'From Verif Require Import Value Catalog.\n'
               'Import ListNotations. Open Scope Z_scope. Open Scope string_scope.')
    case_type = 'c17_case'
    check_fn = 'c17_check'
    explain_fn = 'c17_explain'
    quick_n = 1500
    FINDING_BITS = 1
    thorough_n = 40000
    rule = ('histories of 1-10 catalog and data operations (read, insert, delete all, create_collection, '
            'create_index, drop_index(es), rename with/without dropTarget, drop_collection - by name and '
            'through a collection handle -, drop_database, listings, index_information) over two clients '
            'sharing one server store plus one independent client, 2 databases, 4 collection names (one '
            'system.*), old database/collection handles being kept and reused after drop and rename; every '
            'outcome (listings as sets) is compared with the model and with the abstract catalog. '
            'Non-trivial = at least one collection was created and later dropped, renamed or emptied, '
            'or two clients were involved; distinct by canonical JSON.')
    assumptions = ['documents are reduced to their ids; listings are compared as sets']

    def gen_focus_rename_target(self, rng):
        """a handle of the TARGET name is used (a read is enough) before another collection is
        renamed onto that name; then reads and writes through the old handle, through the other
        client on the same store, listings and index information; also the round trip a->b->a"""
        d = rng.choice(DBS)
        src, dst = rng.sample(COLLS[:3], 2)
        x, y = rng.choice([('A', 'B'), ('B', 'A'), ('A', 'A')])
        ops = []
        first = rng.choice(['read', 'insert', 'index_info', 'create_index'])
        o = {'op': first, 'client': x, 'db': d, 'c': dst}
        if first == 'insert':
            o['id'] = 3
        if first == 'create_index':
            o['field'] = 'y'
        ops.append(o)
        ops.append({'op': 'insert', 'client': rng.choice([x, y]), 'db': d, 'c': src, 'id': 1})
        if rng.random() < 0.5:
            ops.append({'op': 'create_index', 'client': y, 'db': d, 'c': src, 'field': 'x'})
        ops.append({'op': 'rename', 'client': rng.choice([x, y]), 'db': d, 'c': src, 'new': dst,
                    'drop_target': first in ('insert', 'create_index') or rng.random() < 0.5})
        tail = [{'op': 'read', 'client': x, 'db': d, 'c': dst}, {'op': 'index_info', 'client': x, 'db': d, 'c': dst},
                {'op': 'insert', 'client': x, 'db': d, 'c': dst, 'id': 2}, {'op': 'read', 'client': y, 'db': d, 'c': dst},
                {'op': 'list_collections', 'client': y, 'db': d, 'c': dst}, {'op': 'read', 'client': x, 'db': d, 'c': src}]
        ops += tail[:rng.choice([2, 4, 6])]
        if rng.random() < 0.4:
            ops.append({'op': 'rename', 'client': x, 'db': d, 'c': dst, 'new': src, 'drop_target': rng.random() < 0.5})
            ops.append({'op': 'read', 'client': rng.choice([x, y]), 'db': d, 'c': src})
            ops.append({'op': 'read', 'client': x, 'db': d, 'c': dst})
        return {'ops': ops}

    def gen_case(self, rng, i, tier):
        if rng.random() < 0.1:
            return self.gen_focus_rename_target(rng)
        ops = []
        for _ in range(rng.randint(1, 10)):
            k = rng.choice(['read', 'insert', 'insert', 'insert', 'delete_all', 'create_collection',
                            'create_index', 'drop_index', 'drop_indexes', 'rename', 'rename',
                            'drop_collection', 'drop_database', 'list_collections', 'list_collections',
                            'list_databases', 'index_info'])
            o = {'op': k, 'client': rng.choice(['A', 'A', 'B', 'C']), 'db': rng.choice(DBS),
                 'c': rng.choice(COLLS[:3] if rng.random() < 0.9 else COLLS)}
            if k == 'insert':
                o['id'] = rng.choice([1, 2, 3])
            if k == 'create_index':
                o['field'] = rng.choice(['x', 'y'])
            if k == 'drop_index':
                o['name'] = rng.choice(['x_1', 'y_1'])
            if k == 'rename':
                o['new'] = rng.choice(COLLS[:3] + [n for n in COLLS[:3] if n != o['c']]
                                      + (['bad..name'] if rng.random() < 0.05 else []))
                o['drop_target'] = rng.random() < 0.4
            if k == 'drop_collection':
                o['via'] = rng.choice(['name', 'handle', 'coll.drop'])
            if k == 'drop_database':
                o['via'] = rng.choice(['name', 'handle'])
            ops.append(o)
        return {'ops': ops}

    def run_impl(self, case):
        a = mongomock.MongoClient()
        clients = {'A': a, 'B': mongomock.MongoClient(_store=a._store), 'C': mongomock.MongoClient()}
        dbh, ch = {}, {}
        outs = []

        def db(cl, name):
            if (cl, name) not in dbh:
                dbh[(cl, name)] = clients[cl][name]
            return dbh[(cl, name)]

        def coll(cl, d, c):
            if (cl, d, c) not in ch:
                ch[(cl, d, c)] = db(cl, d)[c]
            return ch[(cl, d, c)]
        for o in case['ops']:
            k, cl = o['op'], o['client']
            try:
                if k == 'read':
                    r = [x['_id'] for x in coll(cl, o['db'], o['c']).find()]
                elif k == 'insert':
                    coll(cl, o['db'], o['c']).insert_one({'_id': o['id']})
                    r = None
                elif k == 'delete_all':
                    coll(cl, o['db'], o['c']).delete_many({})
                    r = None
                elif k == 'create_collection':
                    db(cl, o['db']).create_collection(o['c'])
                    r = None
                elif k == 'create_index':
                    r = coll(cl, o['db'], o['c']).create_index(o['field'])
                elif k == 'drop_index':
                    coll(cl, o['db'], o['c']).drop_index(o['name'])
                    r = None
                elif k == 'drop_indexes':
                    coll(cl, o['db'], o['c']).drop_indexes()
                    r = None
                elif k == 'rename':
                    coll(cl, o['db'], o['c']).rename(o['new'], dropTarget=o['drop_target'])
                    r = None
                elif k == 'drop_collection':
                    if o.get('via') == 'handle':
                        db(cl, o['db']).drop_collection(coll(cl, o['db'], o['c']))
                    elif o.get('via') == 'coll.drop':
                        coll(cl, o['db'], o['c']).drop()
                    else:
                        db(cl, o['db']).drop_collection(o['c'])
                    r = None
                elif k == 'drop_database':
                    if o.get('via') == 'handle':
                        clients[cl].drop_database(db(cl, o['db']))
                    else:
                        clients[cl].drop_database(o['db'])
                    r = None
                elif k == 'list_collections':
                    r = {'$set': list(db(cl, o['db']).list_collection_names())}
                elif k == 'list_databases':
                    r = {'$set': list(clients[cl].list_database_names())}
                else:
                    r = {'$set': list(coll(cl, o['db'], o['c']).index_information().keys())}
                outs.append({'ok': r})
            except Exception as e:  # noqa
                outs.append({'err': common.err_class(e), 'exc': type(e).__name__})
        return {'outs': outs}

    def case_term(self, case, o):
        impl = coq_list(('Ok (%s)' % to_coq(x['ok'])) if 'ok' in x else 'Err %s' % x['err'] for x in o['outs'])
        return 'mkC17 2 %s %s' % (coq_list(op_to_coq(x) for x in case['ops']), impl)

    def features(self, case, o, flags):
        f = set('op:' + x['op'] for x in case['ops'])
        f.update('client:' + x['client'] for x in case['ops'])
        f.update('out:' + ('ok' if 'ok' in x else x['err']) for x in o['outs'])
        return f

    def describe(self, case, o):
        return {'case': case, 'impl': common.to_jsonable(o['outs'])}

    def case_from_json(self, j):
        return j

    def shrink(self, case):
        ops = case['ops']
        for i in range(len(ops)):
            yield {'ops': ops[:i] + ops[i + 1:]}
