"""C04: aggregation expressions evaluate to the value MongoDB defines."""
import copy

import common
import genexpr
import hist
from props.base import BasePlugin, shrink_value
from common import to_coq

import mongomock
import warnings
warnings.simplefilter("ignore")


def res_term(o, ok):
    if 'ok' in o:
        try:
            return 'Ok (%s)' % ok(o['ok'])
        except common.Unserialisable:
            return 'Err EUnmodelled'
    return 'Err %s' % o['err']


class Plugin(BasePlugin):
    id = 'C04'
    imports = ('From Coq Require Import ZArith List String.\n'
               'From Verif Require Import Value ExprCheck.\n'
               'Import ListNotations. Open Scope Z_scope. Open Scope string_scope.')
    case_type = 'c04_case'
    check_fn = 'c04_check'
    explain_fn = 'c04_explain'
    quick_n = 3000
    thorough_n = 60000
    FINDING_BITS = 1 | 2 | 4 | 8 | 16 | 32 | 64 | 128 | 256 | 512 | 1024 | 2048 | 4096
    UNDECIDED_BITS = 8192
    rule = ('one document (numbers, strings, booleans, nulls, arrays of scalars, arrays of sub-documents, '
            'a sub-document, a datetime; each field missing in 12% of the documents) x one type-directed '
            'expression tree of depth <= 3 over the modelled operators (4% of the sub-expressions of a '
            'deliberately wrong type, some malformed operand shapes); observed through '
            'aggregate([{$addFields: {x: e}}]) and through find({$expr: e}). Non-trivial = the '
            'specification decides at least one of the two observations and the expression uses at '
            'least two operators or paths; distinct by canonical JSON.')
    assumptions = ['numbers are compared across int/double by value (bson_eq): Python int 3 and float 3.0 '
                   'are the same answer']

    def gen_case(self, rng, i, tier):
        doc = genexpr.gen_doc(rng)
        depth = rng.choice([1, 2, 2, 3])
        return {'doc': doc, 'expr': genexpr.gen(rng, depth, 'any')}

    def gen_tiny(self, rng):
        return {'doc': genexpr.gen_doc(rng), 'expr': genexpr.gen(rng, 1, 'any')}

    def signature(self, case, o):
        e = case['expr']
        top = list(e)[0] if isinstance(e, dict) and e else type(e).__name__
        return '%s -> add:%s match:%s' % (top, o['add'].get('err', 'ok'), o['match'].get('err', 'ok'))

    def run_impl(self, case):
        coll = mongomock.MongoClient().db.c
        d = copy.deepcopy(case['doc'])
        coll._store[d['_id']] = d
        out = {}
        try:
            r = list(coll.aggregate([{'$addFields': {'x': copy.deepcopy(case['expr'])}}]))
            out['add'] = {'ok': hist.canon(r[0])} if len(r) == 1 else {'err': 'ECrash', 'exc': 'len %d' % len(r)}
        except Exception as e:  # noqa
            out['add'] = {'err': common.err_class(e), 'exc': type(e).__name__}
        try:
            r = list(coll.find({'$expr': copy.deepcopy(case['expr'])}))
            out['match'] = {'ok': len(r) == 1}
        except Exception as e:  # noqa
            out['match'] = {'err': common.err_class(e), 'exc': type(e).__name__}
        return out

    def case_term(self, case, o):
        return 'mkC04 (%s) (%s) (%s) (%s)' % (
            to_coq(case['doc']), to_coq(case['expr']),
            res_term(o['add'], to_coq), res_term(o['match'], common.coq_bool))

    def features(self, case, o, flags):
        f = set(genexpr.ops_of(case['expr']))
        f.add('add:' + ('ok' if 'ok' in o['add'] else o['add']['err']))
        f.add('match:' + ('ok' if 'ok' in o['match'] else o['match']['err']))
        if flags is not None and not flags & 16:
            f.add('decided')
        return f

    def shrink(self, case):
        for w in shrink_value(case['expr']):
            yield dict(case, expr=w)
        # replace the expression by one of its sub-expressions
        def subs(e):
            if isinstance(e, dict):
                for v in e.values():
                    yield v
                    for s in subs(v):
                        yield s
            elif isinstance(e, list):
                for v in e:
                    yield v
                    for s in subs(v):
                        yield s
        for s in subs(case['expr']):
            yield dict(case, expr=s)
        for k in list(case['doc']):
            if k != '_id':
                w = dict(case['doc'])
                del w[k]
                yield dict(case, doc=w)
