"""C05 (history property; see DESIGN.md section 5)."""
import gen
from props.hist_base import HistPlugin


class Plugin(HistPlugin):
    id = 'C05'
    extra_import = 'HistProps HistPropCheck'
    check_fn = 'c05_check'
    weights = {'insert_one': 8, 'insert_many': 3, 'update': 6, 'replace': 4, 'delete': 2, 'find': 2,
               'fam': 3, 'bulk': 2, 'create_index': 1}
    rule = ('histories of 2-8 operations over 4 scalar and 4 embedded-document _ids, with deliberately '
            'failing operations (duplicate inserts, _id changes through $set/$unset/$rename/$inc, '
            'replacements carrying another _id), inserts without _id, upserts, find-and-modify, bulk '
            'writes and lookups by _id; after every operation the complete store (keys and documents), '
            'the outcome and the index information are compared with the model, and the C05 predicate '
            '(HistProps.c05_step) is evaluated on the observed trace. Non-trivial = at least two '
            'writes of which one fails or generates an _id; distinct by canonical JSON.')
    FINDING_BITS = 4 | 8
    UNDECIDED_BITS = 1 | 2 | 16

    def gen_focus_id_moves(self, rng):
        """every route by which an update could land a value on _id: $set / $inc / $rename TO _id,
        $rename FROM _id, replacements with another _id - then inserts and lookups on both ids"""
        ops = [{'op': 'clock', 't': 0}]
        for i in (1, 5):
            ops.append({'op': 'insert_one', 'doc': {'_id': i, 'legacy': rng.choice([2, 5, 6]), 'n': i}})
        u = rng.choice([{'$rename': {'legacy': '_id'}}, {'$rename': {'legacy': '_id'}}, {'$rename': {'_id': 'old'}},
                        {'$set': {'_id': 2}}, {'$inc': {'_id': 1}}, {'$rename': {'n': '_id.x'}},
                        {'$set': {'n': 3}, '$rename': {'legacy': '_id'}}])
        k = rng.random()
        if k < 0.6:
            ops.append({'op': 'update', 'filter': {'_id': rng.choice([1, 5])}, 'update': u,
                        'multi': rng.random() < 0.3, 'upsert': False})
        elif k < 0.8:
            ops.append({'op': 'fam', 'kind': 'update', 'filter': {'_id': 1}, 'arg': u, 'proj': None, 'sort': [],
                        'upsert': False, 'after': True})
        else:
            ops.append({'op': 'replace', 'filter': {'_id': 1}, 'repl': {'_id': 2, 'n': 9}, 'upsert': False})
        for _ in range(rng.choice([2, 3])):
            j = rng.choice([1, 2, 5, 6])
            ops.append(rng.choice([
                {'op': 'insert_one', 'doc': {'_id': j, 'n': 0}},
                {'op': 'find', 'filter': {'_id': j}, 'proj': None, 'sort': [], 'skip': 0, 'limit': 0, 'via': 'kwargs'},
                {'op': 'delete', 'filter': {'_id': j}, 'multi': True}]))
        return {'ops': ops, 'pre5': False}

    def gen_case(self, rng, i, tier):
        if rng.random() < 0.15:
            return self.gen_focus_id_moves(rng)
        gen.TINY[0] = rng.random() < 0.6
        try:
            return HistPlugin.gen_case(self, rng, i, tier)
        finally:
            gen.TINY[0] = False
