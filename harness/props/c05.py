"""C05 (history property; see DESIGN.md section 5)."""
import gen
from props.hist_base import HistPlugin


class Plugin(HistPlugin):
    id = 'C05'
    extra_import = 'HistProps HistPropCheck'
    check_fn = 'c05_check'
    weights = {'insert_one': 8, 'insert_many': 3, 'update': 6, 'replace': 4, 'delete': 2, 'find': 2,
               'fam': 3, 'bulk': 2, 'create_index': 1}
    rule = ('histories of 2-8 operations over 4 scalar and 4 embedded-document _ids, with deliberately '
            'failing operations (duplicate inserts, _id changes through $set/$unset/$rename/$inc, '
            'replacements carrying another _id), inserts without _id, upserts, find-and-modify, bulk '
            'writes and lookups by _id; after every operation the complete store (keys and documents), '
            'the outcome and the index information are compared with the model, and the C05 predicate '
            '(HistProps.c05_step) is evaluated on the observed trace. Non-trivial = at least two '
            'writes of which one fails or generates an _id; distinct by canonical JSON.')
    FINDING_BITS = 4 | 8
    UNDECIDED_BITS = 1 | 2 | 16

    def gen_case(self, rng, i, tier):
        gen.TINY[0] = rng.random() < 0.6
        try:
            return HistPlugin.gen_case(self, rng, i, tier)
        finally:
            gen.TINY[0] = False
