"""C05 (history property; see DESIGN.md section 5)."""
from props.hist_base import HistPlugin


class Plugin(HistPlugin):
    id = 'C05'
    extra_import = 'HistProps HistPropCheck'
    check_fn = 'c05_check'
    FINDING_BITS = 1 | 4 | 8
    UNDECIDED_BITS = 2 | 16 | 32
