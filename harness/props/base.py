"""Generic plug-in logic: generate -> run the implementation -> evaluate model, property
predicate and guard inside Coq -> classify -> shrink -> coverage."""
import collections
import datetime
import json
import os

import common
from common import VERIF, ObjectId


def from_jsonable(v):
    if isinstance(v, dict):
        if set(v) == {'$date'}:
            return datetime.datetime.fromisoformat(v['$date'])
        if set(v) == {'$oid'}:
            return common.make_oid(v['$oid'])
        if set(v) == {'$dbl8'}:
            return v['$dbl8'] / 8.0
        return {k: from_jsonable(x) for k, x in v.items()}
    if isinstance(v, list):
        return [from_jsonable(x) for x in v]
    return v


def shrink_value(v):
    """One-step reductions of a nested Python value."""
    if isinstance(v, dict):
        for k in list(v):
            w = dict(v)
            del w[k]
            yield w
        for k, x in v.items():
            if isinstance(x, (dict, list)) and not k.startswith('$'):
                pass
            for y in shrink_value(x):
                w = dict(v)
                w[k] = y
                yield w
    elif isinstance(v, list):
        for i in range(len(v)):
            yield v[:i] + v[i + 1:]
        for i, x in enumerate(v):
            for y in shrink_value(x):
                yield v[:i] + [y] + v[i + 1:]
    elif isinstance(v, bool) or v is None:
        return
    elif isinstance(v, int):
        if v not in (0, 1):
            yield 0
            yield 1
    elif isinstance(v, float):
        if v != 0.0:
            yield 0.0
    elif isinstance(v, str):
        if len(v) > 1 and not v.startswith('$'):
            yield v[:1]


class BasePlugin(object):
    id = None
    imports = ''
    case_type = ''
    check_fn = ''
    quick_n = 1500
    thorough_n = 30000
    assumptions = []
    trusted = []
    rule = ''

    # ---- to be provided by the property
    def gen_case(self, rng, i, tier):
        raise NotImplementedError

    def run_impl(self, case):
        raise NotImplementedError

    def case_term(self, case, outcome):
        raise NotImplementedError

    def features(self, case, outcome, flags):
        return set()

    def shrink(self, case):
        return []

    def describe(self, case, outcome):
        return {'case': common.to_jsonable(case), 'impl': common.to_jsonable(outcome)}

    def case_from_json(self, j):
        return from_jsonable(j)

    def neighbours(self, case, rng):
        """Variants of a disagreeing case, searched for a failing input when the tie is broken."""
        return list(self.shrink(case))

    def extra_checks(self, rng, tier, seed):
        """Property-specific checks beyond the case stream; returns (violations, coverage)."""
        return [], {}

    # ---- generic machinery
    def known(self):
        ks = common.known_findings(self.id)
        mask = 0
        for k in ks:
            if k.get('status') == 'known':
                mask |= int(k.get('reason_code', 0))
        return ks, mask

    def corpus(self):
        out = []
        path = os.path.join(VERIF, 'corpus', self.id + '.json')
        if os.path.exists(path):
            out += [self.case_from_json(j) for j in json.load(open(path))]
        # witnesses of repaired defects run first on every run: a fixed entry suppresses nothing
        for k in common.known_findings(self.id):
            if k.get('status') == 'fixed' and 'witness' in k:
                out.append(self.case_from_json(k['witness']))
        return out

    def evaluate(self, cases, tag='run'):
        """-> list of (case, outcome, flags or None if unserialisable)"""
        outcomes = [self.run_impl(c) for c in cases]
        terms, idx = [], []
        flags = [None] * len(cases)
        for k, (c, o) in enumerate(zip(cases, outcomes)):
            try:
                terms.append(self.case_term(c, o))
                idx.append(k)
            except common.OutcomeUnserialisable:
                flags[k] = 1          # counts as a disagreement with the model
            except common.Unserialisable:
                pass
        wd = common.workdir('%s-%s' % (self.id, tag))
        try:
            if terms:
                vals = common.run_case_files(wd, self.imports, self.case_type, self.check_fn, terms)
                for k, v in zip(idx, vals):
                    flags[k] = v
        finally:
            import shutil
            shutil.rmtree(wd, ignore_errors=True)
        return list(zip(cases, outcomes, flags))

    def fails(self, flags, known_mask, want):
        """want: 'p' (property predicate fails, not attributable to a known finding) or
        'm' (model mismatch)."""
        if flags is None:
            return False
        if want == 'm':
            return bool(flags & 1)
        return self.is_violation(flags, known_mask)

    FINDING_BITS = 0       # guard reasons that are known findings (statement decides, code deviates)
    UNDECIDED_BITS = 0     # guard reasons where the statement / the model does not decide

    def is_violation(self, flags, known_mask):
        if not flags & 2:
            return False
        reasons = flags >> 8
        finding_reasons = reasons & self.FINDING_BITS
        if flags & 1:
            return True            # deviates from the recorded (modelled) behaviour too
        if reasons & self.UNDECIDED_BITS:
            return False           # the predicate does not constrain this input
        if finding_reasons and not (finding_reasons & ~known_mask):
            return False           # exactly a listed finding, behaviour as recorded
        return True

    def minimise(self, case, known_mask, want, rounds=12, like=None):
        """like: the flags of the case being shrunk - a predicate failure that agrees with the
        model is only replaced by candidates that also agree with the model (and vice versa), so
        that shrinking does not drift to a different kind of failure"""
        cur = case
        for _ in range(rounds):
            cands = []
            for c in self.shrink(cur):
                cands.append(c)
                if len(cands) >= 250:
                    break
            if not cands:
                break
            try:
                ev = self.evaluate(cands, tag='shrink')
            except common.CoqRunError:
                break
            nxt = None
            for c, o, fl in ev:
                if self.fails(fl, known_mask, want) and \
                        (like is None or want != 'p' or (fl & 1) == (like & 1)):
                    nxt = c
                    break
            if nxt is None:
                break
            cur = nxt
        return cur

    def explain(self, case, outcome):
        fn = getattr(self, 'explain_fn', None)
        if not fn:
            return None
        wd = common.workdir(self.id + '-explain')
        try:
            rc, out = common.coq_eval(wd, self.imports, '%s (%s)' % (fn, self.case_term(case, outcome)))
            return out[-4000:]
        except Exception as e:  # pragma: no cover
            return 'explain failed: %r' % (e,)
        finally:
            import shutil
            shutil.rmtree(wd, ignore_errors=True)

    @staticmethod
    def _add_extra(result, xv, known_entries):
        """Findings of the implementation probes: one that carries the id of a listed known
        finding (a probe entry of KNOWN_FINDINGS.json: that id is only attached to the exact
        failure shape the entry describes) is reported as KNOWN-FINDING, once; every other one is
        a violation."""
        probe_known = {k['id']: k for k in known_entries if k.get('status') == 'known' and k.get('probe')}
        for v in xv:
            k = probe_known.get(v.get('finding_id'))
            if k is None:
                result['violations'].append(v)
            elif k not in result['known_findings']:
                result['known_findings'].append(k)

    def run(self, rng, tier, seed, model_ok=True):
        n = self.quick_n if tier == 'quick' else self.thorough_n
        known_entries, known_mask = self.known()
        cases = list(self.corpus())
        n_corpus = len(cases)
        for i in range(n):
            cases.append(self.gen_case(rng, i, tier))
        result = {'violations': [], 'mismatches': [], 'known_findings': [], 'coverage': {}}
        if not model_ok:
            # the Coq side is unavailable: only the implementation runs; nothing can be decided
            outs = [self.run_impl(c) for c in cases[:200]]
            result['coverage'] = {'evaluations': len(outs), 'distinct_nontrivial': 0,
                                  'rule': self.rule, 'samples': [self.describe(cases[0], outs[0])]}
            # the implementation-only part of the search for a failing input still runs
            xv, xcov = self.extra_checks(rng, tier, seed)
            self._add_extra(result, xv, known_entries)
            result['coverage'].update(xcov)
            return result
        ev = self.evaluate(cases)
        hist = collections.Counter()
        distinct = set()
        unser = unmod = inguard = pfail_known = 0
        samples = []
        viol_cases, mism_cases = [], []
        for c, o, fl in ev:
            if fl is None:
                unser += 1
                continue
            feats = self.features(c, o, fl)
            for f in feats:
                hist[f] += 1
            if fl & 8:
                unmod += 1
            if not fl & 4:
                inguard += 1
            if self.is_violation(fl, known_mask):
                viol_cases.append((c, o, fl))
            elif fl & 2:
                pfail_known += 1
            if fl & 1:
                mism_cases.append((c, o, fl))
            if not fl & 4 and not fl & 8 and len(feats) >= 2:
                distinct.add(json.dumps(common.to_jsonable(c), sort_keys=True, default=repr))
                if len(samples) < 3:
                    samples.append(self.describe(c, o))
        # violations: shrink, explain
        for c, o, fl in viol_cases[:3]:
            small = self.minimise(c, known_mask, 'p', like=fl)
            so = self.run_impl(small)
            result['violations'].append(dict(
                self.describe(small, so), failing_clause='property predicate false on the '
                'implementation\'s outcome', flags=fl, reason_mask=fl >> 8,
                model=self.explain(small, so), original=self.describe(c, o)))
        for c, o, fl in mism_cases[:3]:
            small = self.minimise(c, known_mask, 'm')
            so = self.run_impl(small)
            result['mismatches'].append(dict(self.describe(small, so), flags=fl,
                                             model=self.explain(small, so)))
        if len(mism_cases) > 3:
            result['mismatches'].append({'more': len(mism_cases) - 3})
        if mism_cases and not viol_cases:
            # the tie is broken but no generated case violates the property predicate:
            # widen the search around the disagreeing cases (DESIGN.md 3.4)
            near = []
            for c, o, fl in mism_cases[:6]:
                near += self.neighbours(c, rng)[:400]
            for r in result['mismatches']:
                if 'case' in r:
                    try:
                        near += self.neighbours(self.case_from_json(r['case']), rng)[:400]
                    except Exception:  # noqa
                        pass
            near += [self.gen_case(rng, i, 'thorough') for i in range(n)]
            try:
                for c, o, fl in self.evaluate(near, tag='widen'):
                    if fl is not None and self.is_violation(fl, known_mask):
                        small = self.minimise(c, known_mask, 'p')
                        so = self.run_impl(small)
                        result['violations'].append(dict(
                            self.describe(small, so), failing_clause='property predicate false on '
                            'the implementation\'s outcome (found by the widened search)',
                            flags=fl, model=self.explain(small, so)))
                        break
            except common.CoqRunError:
                pass
        # known findings: replay each listed witness
        for k in known_entries:
            if k.get('status') != 'known' or 'witness' not in k:
                continue
            try:
                wc = self.case_from_json(k['witness'])
                (_, _, fl), = self.evaluate([wc], tag='known')
                if fl is not None and fl & 2:
                    result['known_findings'].append(k)
            except Exception as e:  # a witness that no longer runs is not a finding any more
                print('note: known-finding witness %s did not run: %r' % (k.get('id'), e))
        xv, xcov = self.extra_checks(rng, tier, seed)
        self._add_extra(result, xv, known_entries)
        if not samples and ev:
            samples.append(self.describe(ev[0][0], ev[0][1]))
        cov = {
            'evaluations': len(ev),
            'distinct_nontrivial': len(distinct),
            'rule': self.rule,
            'samples': samples,
            'traces_validated_against_impl': len(ev) - unser - unmod,
            'disagreements_checked': len(mism_cases),
            'corpus_cases': n_corpus,
            'in_guard': inguard,
            'outside_model': unmod,
            'unserialisable': unser,
            'property_failures_attributed_to_known_findings': pfail_known,
            'input_distribution': dict(hist.most_common(60)),
        }
        cov.update(xcov)
        result['coverage'] = cov
        return result

    def replay(self, path):
        j = json.load(open(path))
        if 'case' not in j:
            print(json.dumps(j, indent=1)[:4000])
            return 0
        c = self.case_from_json(j['case'])
        o = self.run_impl(c)
        print('case:', json.dumps(common.to_jsonable(c), default=repr))
        print('implementation now:', json.dumps(common.to_jsonable(o), default=repr))
        print('model:', self.explain(c, o))
        (_, _, fl), = self.evaluate([c], tag='replay')
        print('flags:', fl)
        return 1 if fl is not None and (fl & 3) else 0
