"""Developer tool: classify disagreements of a plug-in's case stream by a signature function."""
import sys, random, json, os, collections
sys.path.insert(0, os.path.dirname(os.path.abspath(__file__)))
import common, importlib
prop = sys.argv[1]; n = int(sys.argv[2]) if len(sys.argv) > 2 else 2000
seed = int(sys.argv[3]) if len(sys.argv) > 3 else 0
p = importlib.import_module('props.' + prop.lower()).Plugin()
_, kmask = p.known()
rng = random.Random(seed * 1000003 + sum(ord(c) for c in prop))
tiny = os.environ.get('TINYGEN')
cases = [p.gen_tiny(rng) if tiny and hasattr(p, 'gen_tiny') else p.gen_case(rng, i, 'quick') for i in range(n)]
ev = p.evaluate(cases)
groups = collections.OrderedDict()
cnt = collections.Counter()
for c, o, fl in ev:
    if fl is None:
        cnt['unser'] += 1; continue
    if fl & 8: cnt['unmodelled'] += 1
    if fl & 16: cnt['undecided'] += 1
    kind = 'M' if fl & 1 else ('P' if p.is_violation(fl, kmask) else ('k' if fl & 2 else None))
    if kind:
        cnt[kind] += 1
        sig = (kind, fl >> 8, p.signature(c, o))
        groups.setdefault(sig, []).append((c, o, fl))
for sig, items in groups.items():
    items.sort(key=lambda x: len(json.dumps(common.to_jsonable(x[0]), default=repr)))
    c, o, fl = items[0]
    print(sig[0], 'reasons=%d' % sig[1], sig[2], 'x%d' % len(items))
    print('    ', json.dumps(common.to_jsonable(c), default=repr)[:700])
    print('     ->', json.dumps(common.to_jsonable(o), default=repr)[:300])
    if os.environ.get('EXPLAIN'):
        print('    ', (p.explain(c, o) or '')[-900:].strip())
print(dict(cnt), 'of', len(ev))
