"""Deterministic cooperative scheduler for C19: real threads run the unmodified RWLock /
CollectionStore code, but every lock operation (and every document-iteration step) is a
yield point at which the scheduler decides who runs next.  The RWLock's five lock objects
are swapped for fake locks with the semantics of threading.Lock / threading.RLock."""
import collections
import threading

import common  # noqa: F401  (sys.path)
from mongomock import thread as mthread
from mongomock import store as mstore


class Boom(Exception):
    pass


class Deadlock(Exception):
    pass


class Scheduler(object):
    def __init__(self, rng):
        self.rng = rng
        self.cv = threading.Condition()
        self.pending = {}        # tid -> (kind, payload) the thread wants to do next
        self.go = None           # tid allowed to proceed
        self.done = set()
        self.tids = []
        self.trace = []          # (tid, kind, payload, blocked tids)
        self.errors = []         # (tid, exception repr)
        self.local = threading.local()
        self.enabled_fn = None

    def me(self):
        return self.local.tid

    def point(self, kind, payload=None):
        """Called by a worker before a visible step; returns when the scheduler picked it."""
        tid = self.me()
        with self.cv:
            self.pending[tid] = (kind, payload)
            self.cv.notify_all()
            while self.go != tid:
                self.cv.wait()
            self.go = None
            del self.pending[tid]

    def worker(self, tid, fn):
        self.local.tid = tid
        try:
            self.point('start')
            fn()
        except BaseException as e:  # noqa
            import traceback as _tb
            self.last_traceback = _tb.format_exc()
            self.errors.append((tid, type(e).__name__ + ': ' + str(e)))
        finally:
            with self.cv:
                self.done.add(tid)
                self.cv.notify_all()

    def run(self, fns, enabled, max_steps=4000):
        """fns: list of callables (one per thread); enabled(tid, kind, payload) -> bool."""
        self.tids = list(range(len(fns)))
        threads = [threading.Thread(target=self.worker, args=(t, f), daemon=True)
                   for t, f in zip(self.tids, fns)]
        for t in threads:
            t.start()
        steps = 0
        deadlock = False
        while True:
            with self.cv:
                while len(self.pending) + len(self.done) < len(fns) or self.go is not None:
                    self.cv.wait(timeout=5)
                if len(self.done) == len(fns):
                    break
                ready = [t for t in sorted(self.pending) if enabled(t, *self.pending[t])]
                blocked = [t for t in sorted(self.pending) if t not in ready]
                if not ready:
                    deadlock = True
                    break
                t = self.rng.choice(ready)
                kind, payload = self.pending[t]
                if kind != 'start':
                    self.trace.append((t, kind, payload, blocked))
                self.go = t
                self.cv.notify_all()
            steps += 1
            if steps > max_steps:
                deadlock = True
                break
        return deadlock


class FakeLock(object):
    """threading.Lock / threading.RLock semantics, with the scheduler deciding the order."""

    def __init__(self, sched, lid, reentrant):
        self.sched, self.lid, self.reentrant = sched, lid, reentrant
        self.owner, self.depth = None, 0

    def can_acquire(self, tid):
        if self.depth == 0:
            return True
        return self.reentrant and self.owner == tid

    def acquire(self, blocking=True, timeout=-1):
        self.sched.point('acq', self.lid)
        tid = self.sched.me()
        assert self.can_acquire(tid)
        self.owner = tid
        self.depth += 1
        return True

    def release(self):
        self.sched.point('rel', self.lid)
        tid = self.sched.me()
        if self.depth == 0:
            raise RuntimeError('release unlocked lock')
        if self.reentrant and self.owner != tid:
            raise RuntimeError('cannot release un-acquired lock')
        self.depth -= 1
        if self.depth == 0:
            self.owner = None

    __enter__ = acquire

    def __exit__(self, *a):
        self.release()


LOCK_ATTRS = [('_no_readers', None), ('_no_writers', None), ('_readers_queue', None),
              ('_read_switch', '_mutex'), ('_write_switch', '_mutex')]


def instrument(rw, sched):
    """Swap the lock objects of an RWLock for fake ones; numbering as in Gen/LockProg.v
    (plain locks in __init__ order, then the switches' mutexes)."""
    fakes = []
    plain = [a for a, sub in LOCK_ATTRS if sub is None]
    switches = [a for a, sub in LOCK_ATTRS if sub is not None]
    lid = 0
    for a in plain:
        real = getattr(rw, a)
        f = FakeLock(sched, lid, reentrant=type(real).__name__ == 'RLock' or 'RLock' in repr(real))
        setattr(rw, a, f)
        fakes.append(f)
        lid += 1
    for a in switches:
        sw = getattr(rw, a)
        real = sw._mutex
        f = FakeLock(sched, lid, reentrant='RLock' in repr(real))
        sw._mutex = f
        fakes.append(f)
        lid += 1
    return fakes


def lock_enabled(fakes):
    def enabled(tid, kind, payload):
        if kind == 'acq':
            return fakes[payload].can_acquire(tid)
        return True
    return enabled


def run_lock_schedule(rng, n_threads, sections_per_thread, raise_rate=0.2):
    """Random schedule of reader/writer sections on a real RWLock.
    Returns dict(trace, inside_log, errors, deadlock, final_locks, final_counters, roles)."""
    sched = Scheduler(rng)
    rw = mthread.RWLock()
    fakes = instrument(rw, sched)
    inside = {}              # tid -> role while inside
    violations = []
    plans = [[(rng.choice('RW'), rng.random() < raise_rate) for _ in range(sections_per_thread)]
             for _ in range(n_threads)]
    roles = []

    def body(tid, plan):
        def fn():
            for role, raises in plan:
                try:
                    cm = rw.reader() if role == 'R' else rw.writer()
                    with cm:
                        inside[tid] = role
                        ws = [t for t, r in inside.items() if r == 'W']
                        rs = [t for t, r in inside.items() if r == 'R']
                        if len(ws) > 1 or (ws and rs):
                            violations.append(dict(inside))
                        sched.point('leave', role)
                        del inside[tid]
                        if raises:
                            raise Boom()
                except Boom:
                    pass
        return fn

    deadlock = sched.run([body(t, p) for t, p in enumerate(plans)], lock_enabled(fakes))
    # which role a thread was in at each of its steps is recoverable from the plan order
    return {
        'trace': sched.trace, 'errors': sched.errors, 'deadlock': deadlock,
        'violations': violations, 'plans': plans,
        'final_locks': [(0 if f.depth == 0 else (1 if not f.reentrant else
                                                  1 + 4 * f.owner + (f.depth - 1))) for f in fakes],
        'final_counters': [rw._read_switch._counter, rw._write_switch._counter],
    }


# ------------------------------------------------------------------ store level
class YieldingDict(collections.OrderedDict):
    """_documents replacement: iteration over values()/items() yields to the scheduler
    between elements, so that a writer could be scheduled in the middle of a scan."""
    sched = None

    def values(self):
        return self._walk(collections.OrderedDict.values(self))

    def items(self):
        return self._walk(collections.OrderedDict.items(self))

    def _walk(self, it):
        for x in it:
            yield x
            if self.sched is not None and getattr(self.sched.local, 'tid', None) is not None:
                self.sched.point('iter')


def run_store_schedule(rng, n_threads, ops_per_thread, now_fn):
    """Random schedule of collection-level operations (scans, counts, inserts, deletes, lazy
    TTL expiry, TTL and unique index creation -- the latter failing on duplicates and followed
    by a write while the exception is still being handled) from several threads on one
    collection, through the public API, with the store's lock and dictionary instrumented."""
    import datetime
    import mongomock
    sched = Scheduler(rng)
    coll = mongomock.MongoClient().db.c
    st = coll._store
    fakes = instrument(st._rwlock, sched)
    docs = YieldingDict()
    docs.sched = sched
    st._documents = docs
    t0 = now_fn()
    for i in range(4):
        collections.OrderedDict.__setitem__(
            docs, i, {'_id': i, 'k': i % 2, 'd': t0 - datetime.timedelta(seconds=100 * (i % 2))})
    snapshots = []     # (tid, ids seen by a scan, ids present when the scan took the lock)

    def body(tid):
        def fn():
            for _ in range(ops_per_thread):
                k = rng.random()
                if k < 0.25:
                    seen = []
                    first = True
                    start = None
                    for d in st.documents:
                        if first:
                            start = list(collections.OrderedDict.keys(docs))
                            first = False
                        seen.append(d['_id'])
                    if start is not None:
                        snapshots.append((tid, seen, start))
                elif k < 0.35:
                    coll.count_documents({'k': 1})
                elif k < 0.55:
                    key = 100 + tid * 10 + rng.randrange(5)
                    try:
                        coll.insert_one({'_id': key, 'k': rng.choice([1, 2, 3]), 'd': t0})
                    except mongomock.DuplicateKeyError:
                        pass
                elif k < 0.68:
                    coll.delete_one({'_id': rng.choice([0, 1, 2, 3, 100 + tid * 10])})
                elif k < 0.78:
                    st._remove_expired_documents()
                elif k < 0.88:
                    try:
                        coll.create_index('d', name='d_%d' % rng.randrange(3),
                                          expireAfterSeconds=rng.choice([50, 1000]))
                    except mongomock.OperationFailure:
                        pass     # same name, different options: a legitimate refusal
                else:
                    try:
                        coll.create_index('k', unique=True, name='k_u_%d' % tid)
                    except mongomock.DuplicateKeyError as err:
                        # a write issued while the error is still being handled
                        try:
                            coll.insert_one({'_id': 200 + tid, 'k': 9, 'd': t0})
                        except mongomock.DuplicateKeyError:
                            pass
                        del err
        return fn

    deadlock = sched.run([body(t) for t in range(n_threads)], lock_enabled(fakes))
    bad_snap = [s for s in snapshots if s[1] != s[2]]
    return {'errors': sched.errors, 'deadlock': deadlock, 'bad_snapshots': bad_snap,
            'steps': len(sched.trace), 'scans': len(snapshots)}
