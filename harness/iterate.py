"""Developer loop: run a plug-in's case stream and print minimised disagreements."""
import sys, random, json, os
sys.path.insert(0, os.path.dirname(os.path.abspath(__file__)))
import common, importlib
prop = sys.argv[1]; n = int(sys.argv[2]) if len(sys.argv) > 2 else 2000
seed = int(sys.argv[3]) if len(sys.argv) > 3 else 0
p = importlib.import_module('props.' + prop.lower()).Plugin()
_, kmask = p.known()
rng = random.Random(seed * 1000003 + sum(ord(c) for c in prop))
cases = [p.gen_case(rng, i, 'quick') for i in range(n)]
ev = p.evaluate(cases)
shown = 0
from collections import Counter
cnt = Counter()
for c, o, fl in ev:
    if fl is None: cnt['unser'] += 1; continue
    if fl & 8: cnt['unmodelled'] += 1
    if not fl & 4: cnt['inguard'] += 1
    if fl & 1: cnt['mismatch'] += 1
    if p.is_violation(fl, kmask): cnt['violation'] += 1
    elif fl & 2: cnt['known'] += 1
    if (fl & 1 or p.is_violation(fl, kmask)) and shown < int(os.environ.get('SHOW', '4')):
        shown += 1
        want = 'm' if fl & 1 else 'p'
        small = p.minimise(c, kmask, want)
        so = p.run_impl(small)
        print(want, json.dumps(common.to_jsonable(small), default=repr)[:1500], so)
        print('   ', (p.explain(small, so) or '')[-500:].strip())
print(dict(cnt), 'of', len(ev))
