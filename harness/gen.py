"""Seeded generators of values, documents, paths and filters (shared by the properties).
Every random choice derives from the one random.Random passed in."""
import datetime

from common import make_oid

KEYS = ['a', 'b', 'c', 'x']
STRS = ['', 'a', 'b', 'ab', 'x', 'A', '1']
BASE_DATE = datetime.datetime(2020, 1, 1, 12, 0, 0)
DATE_MODE = ['plain']      # 'rich': microseconds and utc offsets (C18)


class _Off(datetime.tzinfo):
    def __init__(self, minutes):
        self.m = minutes

    def utcoffset(self, dt):
        return datetime.timedelta(minutes=self.m)

    def dst(self, dt):
        return datetime.timedelta(0)

    def tzname(self, dt):
        return 'off%d' % self.m

    def __deepcopy__(self, memo):
        return self


def rich_date(rng, base=None):
    d = base if base is not None else BASE_DATE + datetime.timedelta(seconds=rng.choice([0, 1, 60, -5]))
    d = d.replace(tzinfo=None)
    d = d.replace(microsecond=(d.microsecond // 1000) * 1000 + rng.choice([0, 0, 1, 999, 500]))
    if rng.random() < 0.25:
        d = d.replace(microsecond=rng.choice([0, 999, 1000, 999999, 123456]))
    if rng.random() < 0.5:
        off = rng.choice([0, 60, -300, 330, 840, -720])
        d = (d + datetime.timedelta(minutes=off)).replace(tzinfo=_Off(off))
    return d


def same_instant(rng, d):
    """another datetime denoting the same millisecond as d"""
    naive = d if d.tzinfo is None else (d - d.utcoffset()).replace(tzinfo=None)
    naive = naive.replace(microsecond=(naive.microsecond // 1000) * 1000 + rng.choice([0, 1, 999]))
    if rng.random() < 0.6:
        off = rng.choice([0, 60, -300, 330])
        return (naive + datetime.timedelta(minutes=off)).replace(tzinfo=_Off(off))
    return naive


TINY = [False]      # small value domain: many equal values (unique-index conflicts)


def scalar(rng, bools=True, oids=True, dates=True):
    if TINY[0]:
        return rng.choice([1, 2, 1, 2, None, 'a', BASE_DATE, make_oid(1), 1.0])
    k = rng.random()
    if k < 0.12:
        return None
    if k < 0.22 and bools:
        return rng.choice([True, False])
    if k < 0.50:
        return rng.choice([0, 1, 2, 3, 5, -1, 7])
    if k < 0.62:
        return rng.choice([0.0, 1.0, 1.5, 2.5, -0.5, 3.0, 0.125])
    if k < 0.80:
        return rng.choice(STRS)
    if DATE_MODE[0] == 'rich' and k >= 0.62 and k < 0.88 and dates:
        return rich_date(rng)
    if k < 0.88 and dates:
        return BASE_DATE + datetime.timedelta(seconds=rng.choice([0, 1, 60, -5]))
    if k < 0.94 and oids:
        return make_oid(rng.choice([1, 2, 3]))
    return rng.choice([0, 1, 'a'])


def value(rng, depth=2, **kw):
    k = rng.random()
    if depth <= 0 or k < 0.50:
        return scalar(rng, **kw)
    if k < 0.68:
        return [value(rng, depth - 1, **kw) for _ in range(rng.choice([0, 1, 2, 2, 3]))]
    if k < 0.82:
        return document(rng, depth - 1, with_id=False, **kw)
    # array of sub-documents
    return [document(rng, depth - 1, with_id=False, **kw) if rng.random() < 0.8
            else scalar(rng, **kw) for _ in range(rng.choice([1, 2, 3]))]


def document(rng, depth=2, with_id=True, id_value=None, **kw):
    d = {}
    if with_id:
        d['_id'] = id_value if id_value is not None else rng.choice([1, 2, 3, 4, 5, 6])
    for k in KEYS:
        if rng.random() < 0.55:
            d[k] = value(rng, depth, **kw)
    return d


def sub_values(v, acc=None):
    """All values occurring inside v (for drawing operands that actually match)."""
    if acc is None:
        acc = []
    acc.append(v)
    if isinstance(v, dict):
        for x in v.values():
            sub_values(x, acc)
    elif isinstance(v, list):
        for x in v:
            sub_values(x, acc)
    return acc


def paths_of(v, prefix=(), acc=None):
    """Paths that exist in v (dict keys and array indexes, plus traversal paths)."""
    if acc is None:
        acc = []
    if isinstance(v, dict):
        for k, x in v.items():
            acc.append(prefix + (k,))
            paths_of(x, prefix + (k,), acc)
    elif isinstance(v, list):
        for i, x in enumerate(v):
            acc.append(prefix + (str(i),))
            paths_of(x, prefix + (str(i),), acc)
            if isinstance(x, dict):
                for k, y in x.items():
                    acc.append(prefix + (k,))
                    paths_of(y, prefix + (k,), acc)
    return acc


def path(rng, doc, allow_id=False):
    """A dotted path: mostly one that resolves in doc, sometimes a missing/odd one."""
    k = rng.random()
    cands = [p for p in paths_of(doc) if allow_id or p[0] != '_id']
    if cands and k < 0.7:
        p = list(rng.choice(cands))
    else:
        p = [rng.choice(KEYS) for _ in range(rng.choice([1, 1, 2, 3]))]
    if rng.random() < 0.12:
        p.append(rng.choice(KEYS + ['0', '1', '5']))
    if rng.random() < 0.05 and len(p) > 1:
        p[rng.randrange(len(p))] = rng.choice(['0', '1', '2'])
    return '.'.join(p[:4])


def perturb(rng, v, **kw):
    """A near miss of v: same shape with one element changed, added or dropped."""
    if isinstance(v, list):
        w = list(v)
        k = rng.random()
        if w and k < 0.45:
            w[rng.randrange(len(w))] = scalar(rng, **kw)
        elif w and k < 0.65:
            del w[rng.randrange(len(w))]
        else:
            w.insert(rng.randrange(len(w) + 1), scalar(rng, **kw))
        return w
    if isinstance(v, dict) and v:
        w = dict(v)
        key = rng.choice(list(w))
        if rng.random() < 0.5:
            w[key] = scalar(rng, **kw)
        else:
            del w[key]
        return w
    if isinstance(v, bool) or v is None:
        return rng.choice([None, 0, 1, False, True])
    if isinstance(v, int):
        return rng.choice([v + 1, v - 1, float(v), v == 1])
    if isinstance(v, float):
        return rng.choice([v + 0.5, int(v)])
    if isinstance(v, str):
        return rng.choice([v + 'a', v[:-1], v.upper()])
    return scalar(rng, **kw)


def operand(rng, doc, **kw):
    """An operand: often a value taken from the document itself, or a near miss of one."""
    k = rng.random()
    if k < 0.62:
        vals = sub_values(doc)
        v = rng.choice(vals)
        if isinstance(v, datetime.datetime) and DATE_MODE[0] == 'rich':
            return same_instant(rng, v)
        if not (isinstance(v, dict) and '_id' in v):
            return v if k < 0.45 else perturb(rng, v, **kw)
    if k < 0.70:
        return None
    return value(rng, 1, **kw)


CMP_OPS = ['$gt', '$gte', '$lt', '$lte']
TYPE_NAMES = ['double', 'string', 'object', 'array', 'objectId', 'bool', 'date', 'int', 'long',
              'number', 'null', 'binData', 'bogus']


def op_dict(rng, doc, depth, malformed, **kw):
    n = rng.choice([1, 1, 1, 1, 2, 2, 3])
    d = {}
    for _ in range(n):
        k = rng.random()
        if k < 0.14:
            d['$eq'] = operand(rng, doc, **kw)
        elif k < 0.24:
            d['$ne'] = operand(rng, doc, **kw)
        elif k < 0.44:
            d[rng.choice(CMP_OPS)] = operand(rng, doc, **kw)
        elif k < 0.54:
            d[rng.choice(['$in', '$nin'])] = [operand(rng, doc, **kw)
                                             for _ in range(rng.choice([0, 1, 2, 3]))]
        elif k < 0.62:
            d['$exists'] = rng.choice([True, False, 1, 0])
        elif k < 0.68:
            d['$type'] = rng.choice(TYPE_NAMES)
        elif k < 0.74:
            d['$size'] = rng.choice([0, 1, 2, 3])
        elif k < 0.80:
            items = [operand(rng, doc, **kw) for _ in range(rng.choice([1, 1, 2]))]
            if rng.random() < 0.2 and depth > 0:
                items.append({'$elemMatch': elem_query(rng, doc, depth - 1, malformed, **kw)})
            d['$all'] = items
        elif k < 0.88 and depth > 0:
            d['$elemMatch'] = elem_query(rng, doc, depth - 1, malformed, **kw)
        elif k < 0.96 and depth > 0:
            d['$not'] = op_dict(rng, doc, depth - 1, malformed, **kw)
        elif malformed:
            d[rng.choice(['$bogus', '$near', '$geoWithin', '$foo'])] = 1
        else:
            d['$eq'] = operand(rng, doc, **kw)
    if malformed and rng.random() < 0.1:
        d['$in'] = 5
    return d


def elem_query(rng, doc, depth, malformed, **kw):
    if rng.random() < 0.5:
        return op_dict(rng, doc, depth, malformed, **kw)
    # document form: sub-filter over the element's own keys
    return filter_(rng, doc, depth, malformed, nested=True, **kw)


def filter_(rng, doc, depth=2, malformed=False, nested=False, **kw):
    f = {}
    n = rng.choice([1, 1, 1, 2, 2, 3]) if not nested else rng.choice([1, 1, 2])
    for _ in range(n):
        k = rng.random()
        if k < 0.18 and depth > 0:
            name = rng.choice(['$and', '$or', '$nor'])
            subs = [filter_(rng, doc, depth - 1, malformed, nested=nested, **kw)
                    for _ in range(rng.choice([1, 2, 2, 3]))]
            if malformed and rng.random() < 0.1:
                subs = []
            f[name] = subs
        elif malformed and k < 0.22:
            f[rng.choice(['$where', '$text', '$bogus', '$comment'])] = 'x'
        else:
            if nested:
                key = rng.choice(KEYS + ['a.b', 'b.c'])
            else:
                key = path(rng, doc)
            if rng.random() < 0.45:
                f[key] = operand(rng, doc, **kw)
            else:
                f[key] = op_dict(rng, doc, depth, malformed, **kw)
    return f
