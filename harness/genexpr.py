"""Seeded, type-directed generator of aggregation expressions over a family of documents
(C04), with a share of ill-typed and malformed ones."""
import datetime

BASE = datetime.datetime(2020, 1, 1, 12, 30, 45, 250000)

NUM_FIELDS = ['n', 'm', 'z', 'd.x']
STR_FIELDS = ['s', 't', 'd.y']
BOOL_FIELDS = ['b']
ARR_FIELDS = ['a', 'e', 'mix']
ARRD_FIELDS = ['ad']
DATE_FIELDS = ['dt']
NULL_FIELDS = ['nul', 'd.nn']
MISSING = ['q', 'd.q', 'q.r', 'n.x']


def gen_doc(rng):
    doc = {
        '_id': 1,
        'n': rng.choice([0, 1, 2, 3, -2, 7]),
        'm': rng.choice([1, 2, 1.5, 2.5, -0.5, 0.0, 4]),
        'z': rng.choice([0, 0, 0.0]),
        's': rng.choice(['', 'a', 'ab', 'Ab', 'abc', 'B']),
        't': rng.choice(['a', 'b', 'AB', 'x', '']),
        'b': rng.choice([True, False]),
        'nul': None,
        'a': rng.choice([[1, 2, 3], [3, 1], [2], [1, 1.0, 2], [0, -1, 5, 2]]),
        'e': [],
        'mix': rng.choice([[1, 'a', None, True, 1.5], [None, 0, ''], ['b', 'a'], [[1], [2, 3]], [True, 1]]),
        'd': {'x': rng.choice([1, 2, 0]), 'y': rng.choice(['p', 'q', '']), 'nn': None},
        'ad': rng.choice([[{'x': 1, 'y': 'p'}, {'x': 2}], [{'x': 3}], [{'y': 'q'}, {'x': 1}], []]),
        'dt': BASE + datetime.timedelta(seconds=rng.choice([0, 3600, 86400 * 3 + 61, -86400 * 400])),
    }
    for k in list(doc):
        if k != '_id' and rng.random() < 0.12:
            del doc[k]
    if rng.random() < 0.1:
        doc[rng.choice(['n', 's', 'a', 'dt', 'd'])] = None
    return doc


def field(rng, names, p_missing=0.12, p_null=0.08):
    k = rng.random()
    if k < p_missing:
        return '$' + rng.choice(MISSING)
    if k < p_missing + p_null:
        return '$' + rng.choice(NULL_FIELDS)
    return '$' + rng.choice(names)


def lit_num(rng):
    return rng.choice([0, 1, 2, 3, -1, 5, 1.5, 0.5, -2.5, 2.0, -7, 7])


def lit_str(rng):
    return rng.choice(['', 'a', 'b', 'ab', 'AB', 'x', 'abc'])


class Scope(object):
    def __init__(self):
        self.vars = []     # (name, type)


def gen(rng, depth, ty='any', sc=None, wild=0.04):
    """an expression expected to evaluate to type ty: num, str, bool, arr, date, any"""
    sc = sc or Scope()
    if rng.random() < wild:
        ty2 = rng.choice(['num', 'str', 'bool', 'arr', 'date', 'any'])
        return gen(rng, depth, ty2, sc, wild=0)
    if ty == 'any':
        ty = rng.choice(['num', 'num', 'str', 'bool', 'bool', 'arr', 'date', 'null', 'doc'])
    vars_of = [n for n, t in sc.vars if t == ty or t == 'any']
    if vars_of and rng.random() < 0.35:
        v = '$$' + rng.choice(vars_of)
        if ty == 'doc' or (ty == 'any' and rng.random() < 0.3):
            v += '.' + rng.choice(['x', 'y', 'q'])
        return v
    leaf = depth <= 0 or rng.random() < 0.3
    if ty == 'null':
        return rng.choice([None, '$nul', '$q', {'$literal': None}, '$$REMOVE' if rng.random() < 0.2 else None])
    if ty == 'doc':
        if leaf:
            return rng.choice(['$d', '$$ROOT', '$$CURRENT.d', {'$literal': {'x': 1}}, '$q'])
        return {rng.choice(['u', 'v', 'w']): gen(rng, depth - 1, 'any', sc),
                rng.choice(['p', 'r']): gen(rng, depth - 1, 'any', sc)}
    if ty == 'num':
        if leaf:
            return rng.choice([field(rng, NUM_FIELDS), lit_num(rng), lit_num(rng), '$$ROOT.n', '$$CURRENT.d.x',
                               {'$literal': rng.choice([1, 0, 2.5])}])
        k = rng.choice(['$add', '$add', '$subtract', '$multiply', '$abs', '$size', '$cond', '$ifNull', '$sum',
                        '$sum1', '$avg', '$min', '$max', '$arrayElemAt', '$let', '$switch', '$strcasecmp',
                        '$hour', '$first', '$subtract_dates', '$mod', '$divide', '$floor'])
        if k in ('$mod', '$divide'):
            return {k: [gen(rng, depth - 1, 'num', sc), rng.choice([gen(rng, depth - 1, 'num', sc), 2, -3, 4, 0.5, 0])]}
        if k == '$floor':
            return {rng.choice(['$floor', '$ceil', '$trunc']): gen(rng, depth - 1, 'num', sc)}
        if k in ('$add', '$multiply'):
            return {k: [gen(rng, depth - 1, 'num', sc) for _ in range(rng.choice([1, 2, 2, 3]))]}
        if k == '$subtract':
            return {k: [gen(rng, depth - 1, 'num', sc), gen(rng, depth - 1, 'num', sc)]}
        if k == '$subtract_dates':
            return {'$subtract': [gen(rng, depth - 1, 'date', sc), rng.choice([gen(rng, 0, 'date', sc), 1000, 60000])]}
        if k == '$abs':
            x = gen(rng, depth - 1, 'num', sc)
            return {k: rng.choice([x, x, [x]])}
        if k == '$size':
            x = gen(rng, depth - 1, 'arr', sc)
            return {k: rng.choice([x, [x]])}
        if k == '$sum1':
            return {rng.choice(['$sum', '$avg', '$min', '$max']): field(rng, ARR_FIELDS + ['ad.x'])}
        if k in ('$sum', '$avg', '$min', '$max'):
            return {k: [gen(rng, depth - 1, 'num', sc) for _ in range(rng.choice([1, 2, 3]))]}
        if k == '$arrayElemAt':
            return {k: [gen(rng, depth - 1, 'arr', sc), rng.choice([0, 1, -1, 2, 5, -4])]}
        if k == '$first':
            return {rng.choice(['$first', '$last']): field(rng, ARR_FIELDS)}
        if k == '$strcasecmp':
            return {k: [gen(rng, depth - 1, 'str', sc), gen(rng, depth - 1, 'str', sc)]}
        if k == '$hour':
            return {rng.choice(['$hour', '$minute', '$second', '$millisecond', '$dayOfWeek']): gen(rng, depth - 1, 'date', sc)}
        return control(rng, k, depth, 'num', sc)
    if ty == 'str':
        if leaf:
            return rng.choice([field(rng, STR_FIELDS), lit_str(rng), {'$literal': '$s'}])
        k = rng.choice(['$concat', '$concat', '$toLower', '$toUpper', '$substr', '$cond', '$ifNull', '$let',
                        '$switch', '$arrayElemAt'])
        if k == '$concat':
            return {k: [gen(rng, depth - 1, 'str', sc) for _ in range(rng.choice([1, 2, 3]))]}
        if k in ('$toLower', '$toUpper'):
            return {k: gen(rng, depth - 1, 'str', sc)}
        if k == '$substr':
            return {k: [gen(rng, depth - 1, 'str', sc), rng.choice([0, 1, 2, -1, 5]), rng.choice([1, 2, -1, 0, 9])]}
        if k == '$arrayElemAt':
            return {k: [rng.choice([['a', 'b', 'c'], '$mix', {'$literal': ['x']}]), rng.choice([0, 1, -1, 3])]}
        return control(rng, k, depth, 'str', sc)
    if ty == 'bool':
        if leaf:
            return rng.choice([field(rng, BOOL_FIELDS), True, False])
        k = rng.choice(['$eq', '$ne', '$gt', '$gte', '$lt', '$lte', '$and', '$or', '$not', '$in', '$isArray',
                        '$isNumber', '$setEquals', '$cond', '$eq', '$gt'])
        if k in ('$eq', '$ne', '$gt', '$gte', '$lt', '$lte'):
            t = rng.choice(['num', 'num', 'str', 'any', 'bool', 'date', 'arr'])
            a = gen(rng, depth - 1, t, sc)
            b = gen(rng, depth - 1, t if rng.random() < 0.85 else 'any', sc)
            return {k: [a, b]}
        if k in ('$and', '$or'):
            return {k: [gen(rng, depth - 1, rng.choice(['bool', 'bool', 'any']), sc)
                        for _ in range(rng.choice([0, 1, 2, 2, 3]))]}
        if k == '$not':
            x = gen(rng, depth - 1, rng.choice(['bool', 'any']), sc)
            return {k: rng.choice([[x], [x], x])}
        if k == '$in':
            return {k: [gen(rng, depth - 1, rng.choice(['num', 'str', 'any']), sc), gen(rng, depth - 1, 'arr', sc)]}
        if k in ('$isArray', '$isNumber'):
            x = gen(rng, depth - 1, 'any', sc)
            return {k: rng.choice([x, x, [x]])}
        if k == '$setEquals':
            return {k: [gen(rng, depth - 1, 'arr', sc), gen(rng, depth - 1, 'arr', sc)]}
        return control(rng, k, depth, 'bool', sc)
    if ty == 'arr':
        if leaf:
            return rng.choice([field(rng, ARR_FIELDS + ARRD_FIELDS), '$ad.x', '$ad.y', {'$literal': [1, 2]},
                               [1, 2], ['a', 'b'], [], [gen(rng, 0, 'num', sc), gen(rng, 0, 'num', sc)]])
        k = rng.choice(['$concatArrays', '$map', '$filter', '$slice', '$setUnion', '$cond', '$ifNull', '$let',
                        '$map', '$filter', 'literal'])
        if k == 'literal':
            return [gen(rng, depth - 1, 'any', sc) for _ in range(rng.choice([1, 2, 3]))]
        if k in ('$concatArrays', '$setUnion'):
            return {k: [gen(rng, depth - 1, 'arr', sc) for _ in range(rng.choice([1, 2, 2, 3]))]}
        if k in ('$map', '$filter'):
            inp = gen(rng, depth - 1, 'arr', sc)
            name = rng.choice(['this', 'v', 'it'])
            sc2 = Scope()
            sc2.vars = sc.vars + [(name, 'any')]
            body = gen(rng, depth - 1, 'any' if k == '$map' else rng.choice(['bool', 'bool', 'any']), sc2)
            if k == '$map' and rng.random() < 0.3:
                # an inner binder that shadows the variable, read again afterwards
                inner = {'$map': {'input': rng.choice([[1, 2], '$a', ['p']]), 'in': rng.choice(['$$' + name, 7])}}
                if name != 'this':
                    inner['$map']['as'] = name
                body = rng.choice([{'u': inner, 'p': '$$' + name}, {'$concatArrays': [inner, ['$$' + name]]},
                                   [inner, '$$' + name]])
            spec = {'input': inp, ('in' if k == '$map' else 'cond'): body}
            if name != 'this' or rng.random() < 0.3:
                spec['as'] = name
            if rng.random() < 0.03:
                spec['bogus'] = 1
            return {k: spec}
        if k == '$slice':
            args = [gen(rng, depth - 1, 'arr', sc), rng.choice([0, 1, 2, -1, -2, 5, -5])]
            if rng.random() < 0.45:
                args.append(rng.choice([1, 2, 3, 0, -1]))
            return {k: args}
        return control(rng, k, depth, 'arr', sc)
    if ty == 'date':
        return rng.choice([field(rng, DATE_FIELDS), field(rng, DATE_FIELDS),
                           BASE + datetime.timedelta(hours=rng.choice([0, 5, -30]))])
    return None


def control(rng, k, depth, ty, sc):
    if k == '$cond':
        c = gen(rng, depth - 1, rng.choice(['bool', 'bool', 'any']), sc)
        t, f = gen(rng, depth - 1, ty, sc), gen(rng, depth - 1, ty, sc)
        r = rng.random()
        if r < 0.5:
            return {k: [c, t, f]}
        if r < 0.95:
            return {k: {'if': c, 'then': t, 'else': f}}
        return {k: {'if': c, 'then': t}}
    if k == '$ifNull':
        return {k: [gen(rng, depth - 1, rng.choice([ty, ty, 'null']), sc), gen(rng, depth - 1, ty, sc)]}
    if k == '$let':
        name = rng.choice(['v', 'w', 'it'])
        vt = rng.choice(['num', 'str', 'arr', 'doc', ty])
        sc2 = Scope()
        sc2.vars = sc.vars + [(name, vt)]
        body = gen(rng, depth - 1, ty, sc2)
        if rng.random() < 0.2:
            # an inner $let whose vars mention names it rebinds itself: bindings are parallel
            a, b = rng.choice([('$n', '$m'), ('$n', '$d.x'), (1, 5), ('$s', '$t')])
            return {k: {'vars': {'x': a, 'y': b},
                        'in': {'$let': {'vars': {'x': '$$y', 'y': '$$x'},
                                        'in': rng.choice([['$$x', '$$y'], {'u': '$$x', 'p': '$$y'},
                                                          {'$eq': ['$$x', a]}])}}}}
        if rng.random() < 0.25:
            inner = {'$map': {'input': rng.choice([[1, 2], '$a']), 'as': name, 'in': '$$' + name}}
            body = rng.choice([[inner, '$$' + name], {'u': inner, 'p': '$$' + name}])
        return {k: {'vars': {name: gen(rng, depth - 1, vt, sc)}, 'in': body}}
    if k == '$switch':
        spec = {'branches': [{'case': gen(rng, depth - 1, 'bool', sc), 'then': gen(rng, depth - 1, ty, sc)}
                             for _ in range(rng.choice([1, 2]))]}
        if rng.random() < 0.8:
            spec['default'] = gen(rng, depth - 1, ty, sc)
        return {k: spec}
    return gen(rng, 0, ty, sc)


def ops_of(e, acc=None):
    acc = set() if acc is None else acc
    if isinstance(e, dict):
        for k, v in e.items():
            if k.startswith('$'):
                acc.add(k)
            if k != '$literal':
                ops_of(v, acc)
    elif isinstance(e, list):
        for x in e:
            ops_of(x, acc)
    elif isinstance(e, str) and e.startswith('$$'):
        acc.add('var')
    elif isinstance(e, str) and e.startswith('$'):
        acc.add('path')
    return acc
