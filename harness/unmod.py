"""Developer helper: which operation makes histories leave the model."""
import sys, random, os, re, collections
sys.path.insert(0, os.path.dirname(os.path.abspath(__file__)))
import common, importlib
prop = sys.argv[1]; n = int(sys.argv[2])
p = importlib.import_module('props.' + prop.lower()).Plugin()
rng = random.Random(5)
cases = [p.gen_case(rng, i, 'quick') for i in range(n)]
outs = [p.run_impl(c) for c in cases]
terms = [p.case_term(c, o) for c, o in zip(cases, outs)]
wd = common.workdir('unmod')
imports = p.imports + '\nDefinition um (h : hist_case) : Z := match snd (compare_run (h_pre5 h) empty_coll (h_ops h) (h_obs h) 0) with Some k => k | None => -1 end.'
vals = common.run_case_files(wd, imports, 'hist_case', 'um', terms)
cnt = collections.Counter()
ex = {}
for c, v in zip(cases, vals):
    if v >= 0:
        op = c['ops'][v]
        key = op['op'] + (':' + ','.join(sorted(op['update'])) if op['op'] == 'update' else '')
        cnt[key] += 1
        ex.setdefault(key, op)
for k, v in cnt.most_common(25):
    print(v, k, str(ex[k])[:300])
