"""Seeded generator of collections and aggregation pipelines (C03, C16)."""
import genexpr


def gen_docs(rng, n=None):
    n = rng.choice([0, 1, 2, 3, 3, 4, 5]) if n is None else n
    docs = []
    for i in range(n):
        d = {'_id': i + 1,
             'g': rng.choice(['a', 'b', 'a', 1, 2, 1, None, 1.0, True]),
             'n': rng.choice([0, 1, 2, 3, 5, -1, 2.5, 1.5]),
             's': rng.choice(['x', 'y', 'ab', '', 'B']),
             'a': rng.choice([[1, 2], [2], [], [3, 1, 2], ['p', 'q'], [1, 1]]),
             'ad': rng.choice([[{'x': 1}, {'x': 2, 'y': 'p'}], [{'x': 3}], [], [{'y': 'q'}]]),
             'd': {'x': rng.choice([1, 2, 3]), 'y': rng.choice(['p', 'q'])},
             'k': rng.choice([1, 2, 3, 'a', None, [1, 2]]),
             'h': {'i': {'j': rng.choice([1, 2]), 'k': rng.choice(['a', 'b'])}, 'm': 0}}
        for f in ('g', 'n', 's', 'a', 'ad', 'd', 'k', 'h'):
            if rng.random() < 0.12:
                del d[f]
        if rng.random() < 0.08:
            d[rng.choice(['a', 'n', 'd', 'g'])] = None
        if rng.random() < 0.05:
            d['a'] = rng.choice([5, 'str', {'x': 1}])
        docs.append(d)
    return docs


def gen_other(rng):
    out = []
    for i in range(rng.choice([0, 1, 2, 3, 4])):
        d = {'_id': 10 + i, 'k': rng.choice([1, 2, 3, 'a', None, [2, 3], 1.0]), 'v': rng.choice(['u', 'w', 7])}
        if rng.random() < 0.15:
            del d['k']
        out.append(d)
    return out


def simple_filter(rng):
    return rng.choice([
        {}, {'n': {'$gt': rng.choice([0, 1, 2])}}, {'g': rng.choice(['a', 1, None])}, {'d.x': rng.choice([1, 2])},
        {'a': rng.choice([1, 2, 'p'])}, {'n': {'$lte': 2}, 's': {'$ne': 'x'}}, {'s': {'$in': ['x', 'ab']}},
        {'$or': [{'n': 1}, {'g': 'b'}]}, {'ad.x': 1}, {'q': {'$exists': False}}, {'n': {'$exists': True}},
        {'k': {'$type': 'string'}} if rng.random() < 0.1 else {'_id': {'$gte': 2}},
    ])


def accumulator(rng):
    op = rng.choice(['$sum', '$sum', '$avg', '$min', '$max', '$first', '$last', '$push', '$addToSet', '$sum1'])
    if op == '$sum1':
        return {'$sum': 1}
    e = rng.choice(['$n', '$n', '$d.x', '$s', '$g', '$q', '$a', {'$add': ['$n', 1]}, '$$ROOT' if op == '$push' else '$n'])
    return {op: e}


def stage(rng, depth=1):
    k = rng.choice(['$match', '$match', '$sort', '$sort', '$skip', '$limit', '$count', '$project', '$project',
                    '$addFields', '$set', '$replaceRoot', '$unwind', '$unwind', '$group', '$group', '$group',
                    '$lookup', '$facet', 'odd'])
    if k == '$match':
        return {k: simple_filter(rng)}
    if k == '$sort':
        keys = rng.sample(['n', 'g', 's', '_id', 'd.x', 'k'], rng.choice([1, 1, 2]))
        return {k: {f: rng.choice([1, -1]) for f in keys}}
    if k == '$skip':
        return {k: rng.choice([0, 1, 2, 5, -1] if rng.random() < 0.15 else [0, 1, 2])}
    if k == '$limit':
        return {k: rng.choice([1, 2, 3, 10, 0, -1] if rng.random() < 0.15 else [1, 2, 3, 10])}
    if k == '$count':
        return {k: rng.choice(['c', 'total', 'c', '', '$c', 'a.b'] if rng.random() < 0.15 else ['c', 'total'])}
    if k == '$project':
        r = rng.random()
        if r < 0.3:
            p = {f: 1 for f in rng.sample(['n', 's', 'g', 'd.x', 'a', 'ad.x', 'd'], rng.choice([1, 2]))}
        elif r < 0.5:
            p = {f: 0 for f in rng.sample(['n', 's', 'g', 'd.x', 'a', 'ad.x', 'd'], rng.choice([1, 2]))}
        else:
            p = {f: 1 for f in rng.sample(['n', 's', 'g'], rng.choice([0, 1]))}
            p[rng.choice(['x', 'y', 'n'])] = genexpr_pipe(rng)
            if rng.random() < 0.3:
                p['z'] = genexpr_pipe(rng)
        if rng.random() < 0.35:
            p['_id'] = rng.choice([0, 1, False, True])
        return {k: p}
    if k in ('$addFields', '$set'):
        f = {rng.choice(['x', 'y', 'n', 'd.z', 'e.f', 'h.i.j', 'h.i.z']): genexpr_pipe(rng)}
        if rng.random() < 0.35:
            f[rng.choice(['w', 's', 'x2'])] = genexpr_pipe(rng)
        return {k: f}
    if k == '$replaceRoot':
        return {k: {'newRoot': rng.choice(['$d', {'x': '$n', 'y': '$s'}, '$$ROOT', '$q', {'$arrayElemAt': ['$ad', 0]},
                                           {'u': {'$add': ['$n', 1]}}])}}
    if k == '$unwind':
        p = rng.choice(['$a', '$a', '$ad', '$d.x', '$q', '$k', '$d'])
        r = rng.random()
        if r < 0.5:
            return {k: p}
        o = {'path': p}
        if rng.random() < 0.6:
            o['preserveNullAndEmptyArrays'] = rng.choice([True, True, False])
        if rng.random() < 0.4:
            o['includeArrayIndex'] = rng.choice(['i', 'idx', 'd.i', 'd.i'])
        return {k: o}
    if k == '$group':
        gid = rng.choice(['$g', '$g', '$s', None, '$d.x', {'g': '$g', 's': '$s'}, '$q', '$k', 0, 'const',
                          {'$gt': ['$n', 1]}])
        o = {'_id': gid}
        for name in rng.sample(['t', 'c', 'm', 'l'], rng.choice([0, 1, 2])):
            o[name] = accumulator(rng)
        return {k: o}
    if k == '$lookup':
        o = {'from': 'o', 'localField': rng.choice(['k', 'k', 'n', 'd.x', 'q', 'a']),
             'foreignField': rng.choice(['k', 'k', '_id', 'v']), 'as': rng.choice(['j', 'j', 'n'])}
        if rng.random() < 0.05:
            del o[rng.choice(list(o))]
        return {k: o}
    if k == '$facet' and depth > 0:
        return {k: {t: [stage(rng, 0) for _ in range(rng.choice([0, 1, 2]))]
                    for t in rng.sample(['f1', 'f2', 'f3'], rng.choice([1, 2]))}}
    return rng.choice([{'$sample': {'size': 1}}, {'$unset': 'n'}, {'$bogus': 1}, {'$sortByCount': '$g'},
                       {'$limit': 2, '$skip': 1}, {}, {'$match': {'n': 1}}])


def genexpr_pipe(rng):
    """a small expression over the pipeline documents' fields"""
    return rng.choice([
        '$n', '$d.x', '$s', '$q', {'$add': ['$n', 1]}, {'$multiply': ['$n', 2]}, {'$concat': ['$s', '-']},
        {'$cond': [{'$gt': ['$n', 1]}, 'big', 'small']}, {'$ifNull': ['$g', 'none']}, {'$size': '$a'},
        {'$literal': 1}, 'const', {'$eq': ['$g', 'a']}, {'$arrayElemAt': ['$a', 0]}, '$ad.x', {'u': '$n', 'v': '$q'},
        {'$sum': '$a'}, {'$toUpper': '$s'}, ['$n', '$s'], '$$ROOT.d', {'$isArray': '$a'}, 5, True, None,
    ])


def gen_pipeline(rng):
    return [stage(rng) for _ in range(rng.choice([1, 1, 2, 2, 3, 4]))]


def stage_names(p, acc=None):
    acc = set() if acc is None else acc
    for st in p:
        if isinstance(st, dict):
            for k, v in st.items():
                acc.add(k)
                if k == '$facet' and isinstance(v, dict):
                    for sub in v.values():
                        if isinstance(sub, list):
                            stage_names(sub, acc)
                if k == '$group' and isinstance(v, dict):
                    for f, a in v.items():
                        if isinstance(a, dict):
                            acc.update('acc:' + x for x in a)
    return acc
