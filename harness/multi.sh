#!/bin/sh
# harness/multi.sh <n> <seed> props... : developer loop over several plug-ins
n=$1; seed=$2; shift 2
for p in "$@"; do echo "== $p"; SHOW=${SHOW:-2} PYTHONPATH=/repo /venv/bin/python harness/iterate.py $p $n $seed 2>&1 | grep -v conda | cut -c1-${CUT:-1400}; done
