"""The MongoDB 5.0 operator vocabulary (fixed; written from the server manual)."""
QUERY_TOP = ['$and', '$or', '$nor', '$expr', '$text', '$where', '$jsonSchema', '$comment']
QUERY_FIELD = ['$eq', '$gt', '$gte', '$in', '$lt', '$lte', '$ne', '$nin', '$not', '$exists', '$type',
               '$mod', '$regex', '$all', '$elemMatch', '$size', '$bitsAllClear', '$bitsAllSet',
               '$bitsAnyClear', '$bitsAnySet', '$geoIntersects', '$geoWithin', '$near', '$nearSphere',
               '$maxDistance', '$minDistance']
TYPE_ALIASES = ['double', 'string', 'object', 'array', 'binData', 'undefined', 'objectId', 'bool', 'date',
                'null', 'regex', 'dbPointer', 'javascript', 'symbol', 'javascriptWithScope', 'int',
                'timestamp', 'long', 'decimal', 'minKey', 'maxKey', 'number']
UPDATE_OPS = ['$currentDate', '$inc', '$min', '$max', '$mul', '$rename', '$set', '$setOnInsert', '$unset',
              '$addToSet', '$pop', '$pull', '$push', '$pullAll', '$bit']
PUSH_MODIFIERS = ['$each', '$position', '$slice', '$sort']
PROJECTION_OPS = ['$elemMatch', '$slice', '$meta']
STAGES = ['$addFields', '$bucket', '$bucketAuto', '$collStats', '$count', '$currentOp', '$facet',
          '$geoNear', '$graphLookup', '$group', '$indexStats', '$limit', '$listLocalSessions',
          '$listSessions', '$lookup', '$match', '$merge', '$out', '$planCacheStats', '$project',
          '$redact', '$replaceRoot', '$replaceWith', '$sample', '$search', '$set', '$setWindowFields',
          '$skip', '$sort', '$sortByCount', '$unionWith', '$unset', '$unwind']
EXPR_OPS = ['$abs', '$add', '$ceil', '$divide', '$exp', '$floor', '$ln', '$log', '$log10', '$mod',
            '$multiply', '$pow', '$round', '$sqrt', '$subtract', '$trunc',
            '$arrayElemAt', '$arrayToObject', '$concatArrays', '$filter', '$first', '$in',
            '$indexOfArray', '$isArray', '$last', '$map', '$objectToArray', '$range', '$reduce',
            '$reverseArray', '$size', '$slice', '$zip', '$and', '$not', '$or', '$cmp', '$eq', '$gt',
            '$gte', '$lt', '$lte', '$ne', '$cond', '$ifNull', '$switch', '$dateAdd', '$dateDiff',
            '$dateFromParts', '$dateFromString', '$dateSubtract', '$dateToParts', '$dateToString',
            '$dateTrunc', '$dayOfMonth', '$dayOfWeek', '$dayOfYear', '$hour', '$isoDayOfWeek',
            '$isoWeek', '$isoWeekYear', '$millisecond', '$minute', '$month', '$second', '$toDate',
            '$week', '$year', '$literal', '$getField', '$rand', '$sampleRate', '$mergeObjects',
            '$setField', '$allElementsTrue', '$anyElementTrue', '$setDifference', '$setEquals',
            '$setIntersection', '$setIsSubset', '$setUnion', '$concat', '$indexOfBytes', '$indexOfCP',
            '$ltrim', '$regexFind', '$regexFindAll', '$regexMatch', '$replaceOne', '$replaceAll',
            '$rtrim', '$split', '$strLenBytes', '$strLenCP', '$strcasecmp', '$substr', '$substrBytes',
            '$substrCP', '$toLower', '$toString', '$trim', '$toUpper', '$meta', '$sin', '$cos', '$tan',
            '$asin', '$acos', '$atan', '$atan2', '$asinh', '$acosh', '$atanh', '$sinh', '$cosh', '$tanh',
            '$degreesToRadians', '$radiansToDegrees', '$convert', '$isNumber', '$toBool', '$toDecimal',
            '$toDouble', '$toInt', '$toLong', '$toObjectId', '$type', '$let', '$binarySize',
            '$bsonSize', '$function', '$accumulator', '$max', '$min', '$avg', '$sum', '$stdDevPop',
            '$stdDevSamp']
ACCUMULATORS = ['$accumulator', '$addToSet', '$avg', '$count', '$first', '$last', '$max', '$mergeObjects',
                '$min', '$push', '$stdDevPop', '$stdDevSamp', '$sum']
