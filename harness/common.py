"""Shared harness pieces: Python<->Coq term printing, running case files through coqc,
canonical outcomes, evidence and replay files.  Imports mongomock from /repo's working tree."""
import datetime
import fcntl
import json
import os
import re
import shutil
import subprocess
import sys
import time
import uuid

VERIF = os.path.dirname(os.path.dirname(os.path.abspath(__file__)))
REPO = os.environ.get('VERIF_REPO', '/repo')
COQ_DIR = os.path.join(VERIF, 'coq')
WORK = os.path.join(VERIF, '.work')
if REPO not in sys.path:
    sys.path.insert(0, REPO)

import mongomock  # noqa: E402
from mongomock import ObjectId  # noqa: E402

EPOCH = datetime.datetime(1970, 1, 1)


class Unserialisable(Exception):
    pass


class OutcomeUnserialisable(Exception):
    """the implementation produced something (a result, a store key) the model has no value for"""


def make_oid(n):
    """An ObjectId whose identity is the integer n (counter-based, deterministic)."""
    o = ObjectId.__new__(ObjectId)
    o._id = uuid.UUID(int=n)
    return o


class CounterOidFactory(object):
    """Replacement for mongomock.collection.ObjectId: fresh ids 1000, 1001, ... per run."""

    def __init__(self, start=1000):
        self.next = start

    def __call__(self, *args):
        if args:
            return ObjectId(*args)
        o = make_oid(self.next)
        self.next += 1
        return o


def coq_string(s):
    for ch in s:
        if ord(ch) < 32 or ord(ch) > 126:
            raise Unserialisable('non-ASCII string %r' % (s,))
    return '"' + s.replace('"', '""') + '"'


def coq_z(n):
    return '(%d)' % n if n < 0 else '%d' % n


def to_coq(v):
    """Python value -> Coq term of type value."""
    if v is None:
        return 'VNull'
    if isinstance(v, bool):
        return 'VBool true' if v else 'VBool false'
    if isinstance(v, int):
        return 'VInt %s' % coq_z(v)
    if isinstance(v, float):
        e = v * 8
        if e != int(e) or abs(e) >= 2 ** 53:
            raise Unserialisable('double outside the k/8 model: %r' % (v,))
        return 'VDbl %s' % coq_z(int(e))
    if isinstance(v, str):
        return 'VStr %s' % coq_string(v)
    if isinstance(v, datetime.datetime):
        us = (v.replace(tzinfo=None) - EPOCH) // datetime.timedelta(microseconds=1)
        if v.tzinfo is None:
            return 'VDate %s None' % coq_z(us)
        off = v.utcoffset()
        mins = off // datetime.timedelta(minutes=1)
        if datetime.timedelta(minutes=mins) != off:
            raise Unserialisable('sub-minute utc offset')
        return 'VDate %s (Some %s)' % (coq_z(us), coq_z(mins))
    if isinstance(v, ObjectId):
        return 'VOid %s' % coq_z(v._id.int)
    if isinstance(v, dict):
        return 'VDoc [%s]' % '; '.join(
            '(%s, %s)' % (coq_string(k), to_coq(x)) for k, x in v.items())
    if isinstance(v, (list, tuple)):
        return 'VArr [%s]' % '; '.join(to_coq(x) for x in v)
    raise Unserialisable('type %s' % type(v).__name__)


def to_coq_lookup(v, missing):
    return 'None' if v is missing else '(Some (%s))' % to_coq(v)


def coq_list(items):
    return '[' + '; '.join(items) + ']'


def coq_bool(b):
    return 'true' if b else 'false'


def coq_opt(x):
    return 'None' if x is None else '(Some %s)' % x


def to_jsonable(v):
    """Python value -> JSON-friendly form for evidence/replay files."""
    if isinstance(v, datetime.datetime):
        return {'$date': v.isoformat()}
    if isinstance(v, ObjectId):
        return {'$oid': v._id.int}
    if isinstance(v, float):
        return {'$dbl8': v * 8}
    if isinstance(v, dict):
        return {str(k): to_jsonable(x) for k, x in v.items()}
    if isinstance(v, (list, tuple)):
        return [to_jsonable(x) for x in v]
    if isinstance(v, (type(None), bool, int, str)):
        return v
    return {'$repr': repr(v)}


ERR_CLASSES = [
    ('BulkWriteError', 'EBulk'), ('DuplicateKeyError', 'EDup'), ('WriteError', 'EWrite'),
    ('OperationFailure', 'EOpFail'), ('InvalidOperation', 'EInvalidOp'),
    ('NotImplementedError', 'ENotImpl'), ('TypeError', 'EType'), ('ValueError', 'EValue'),
    ('KeyError', 'EKey'),
]


def err_class(exc):
    names = [c.__name__ for c in type(exc).__mro__]
    for py, coq in ERR_CLASSES:
        if py in names:
            return coq
    return 'ECrash'


# ------------------------------------------------------------------ coq runs
def build_lock():
    os.makedirs(WORK, exist_ok=True)
    f = open(os.path.join(WORK, 'build.lock'), 'w')
    fcntl.flock(f, fcntl.LOCK_EX)
    return f


def sh(cmd, timeout=1800, cwd=None, env=None):
    p = subprocess.run(cmd, shell=True, cwd=cwd, env=env, timeout=timeout,
                       stdout=subprocess.PIPE, stderr=subprocess.STDOUT, text=True)
    out = '\n'.join(l for l in p.stdout.splitlines() if 'conda.cli.condarc' not in l)
    return p.returncode, out


def workdir(tag):
    d = os.path.join(WORK, '%s-%d' % (tag, os.getpid()))
    shutil.rmtree(d, ignore_errors=True)
    os.makedirs(d)
    return d


INT_RE = re.compile(r'-?\d+')


def run_case_files(wd, imports, case_type, check_fn, case_terms, shard=300, jobs=16,
                   timeout=300):
    """Evaluate check_fn (a Coq function case_type -> Z) on every case inside coqc
    (vm_compute) and return the list of integers, in order."""
    files = []
    for k in range(0, max(len(case_terms), 1), shard):
        part = case_terms[k:k + shard]
        name = 'cases_%d' % (k // shard)
        with open(os.path.join(wd, name + '.v'), 'w') as f:
            f.write(imports + '\n')
            f.write('Definition cases : list (%s) := [\n' % case_type)
            f.write(';\n'.join(part))
            f.write('\n].\n')
            f.write('Definition results := Eval vm_compute in (map %s cases).\n' % check_fn)
            f.write('Print results.\n')
        files.append(name)
    cmd = ("printf '%%s\\n' %s | xargs -P %d -I{} sh -c "
           "'ulimit -s unlimited 2>/dev/null; timeout %d coqc -Q %s Verif -Q . Cases {}.v > {}.out 2>&1 "
           "|| echo COQC-FAILED >> {}.out'") % (' '.join(files), jobs, timeout, COQ_DIR)
    sh(cmd, cwd=wd, timeout=timeout * (len(files) // jobs + 2))
    results = []
    for idx, name in enumerate(files):
        out = open(os.path.join(wd, name + '.out')).read()
        out = '\n'.join(l for l in out.splitlines() if 'conda.cli.condarc' not in l)
        if 'COQC-FAILED' in out or 'results =' not in out:
            raise CoqRunError(name, out[-3000:])
        body = out[out.index('results ='):]
        body = body[body.index('['):body.rindex(']')]
        nums = [int(x) for x in INT_RE.findall(body.replace('%Z', ''))]
        n_expected = len(case_terms[idx * shard:(idx + 1) * shard])
        if len(nums) != n_expected:
            raise CoqRunError(name, 'expected %d results, got %d\n%s' % (
                n_expected, len(nums), out[-2000:]))
        results.extend(nums)
    return results


def coq_eval(wd, imports, term, name='probe', timeout=300):
    """Evaluate one term with vm_compute and return Coq's printed answer."""
    with open(os.path.join(wd, name + '.v'), 'w') as f:
        f.write(imports + '\nEval vm_compute in (%s).\n' % term)
    rc, out = sh('timeout %d coqc -Q %s Verif -Q . Cases %s.v' % (timeout, COQ_DIR, name),
                 cwd=wd, timeout=timeout + 30)
    return rc, out


class CoqRunError(Exception):
    def __init__(self, name, out):
        Exception.__init__(self, '%s: %s' % (name, out))
        self.name = name
        self.out = out


# ------------------------------------------------------------------ evidence / replays
def write_evidence(prop, tier, seed, coverage, assumptions, wall_s, violations, level='proof'):
    os.makedirs(os.path.join(VERIF, 'evidence'), exist_ok=True)
    ev = {
        'property_id': prop, 'tier': tier, 'seed': seed, 'level': level,
        'coverage': coverage, 'assumptions': assumptions, 'wall_s': round(wall_s, 2),
        'violations': violations,
    }
    path = os.path.join(VERIF, 'evidence', prop + '.json')
    with open(path + '.tmp', 'w') as f:
        json.dump(ev, f, indent=1, sort_keys=True)
    os.replace(path + '.tmp', path)
    return path


def write_replay(prop, seed, n, payload):
    d = os.path.join(VERIF, 'replays')
    os.makedirs(d, exist_ok=True)
    path = os.path.join(d, '%s-%s-%s.json' % (prop, seed, n))
    with open(path, 'w') as f:
        # key order is kept: the order of operators / fields inside a document matters to mongomock
        json.dump(payload, f, indent=1, default=repr)
    return path


def known_findings(prop):
    path = os.path.join(VERIF, 'KNOWN_FINDINGS.json')
    if not os.path.exists(path):
        return []
    return [e for e in json.load(open(path)) if e.get('property') == prop]


class Timer(object):
    def __init__(self):
        self.t0 = time.time()

    def s(self):
        return time.time() - self.t0
