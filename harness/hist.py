"""Operation histories on one collection: generator, runner on the real code, Coq printer.
Shared by the history properties (C02, C05, C06, C08, C09, C10, C13, C14, C15, C18)."""
import copy
import datetime
from unittest import mock

import common
import gen
from common import to_coq, coq_string, coq_bool, coq_z, coq_list, coq_opt

import mongomock
import mongomock.collection

T0 = datetime.datetime(2020, 1, 1, 12, 0, 0)
T0_US = (T0 - common.EPOCH) // datetime.timedelta(microseconds=1)


class BulkReq(object):
    """pymongo-like request objects for bulk_write (pymongo is not installed)."""

    def __init__(self, kind, **kw):
        self.kind = kind
        self.kw = kw

    def _add_to_bulk(self, bulk):
        k, a = self.kind, self.kw
        if k == 'insert_one':
            bulk.add_insert(a['doc'])
        elif k == 'update_one':
            bulk.add_update(a['filter'], a['update'], multi=False, upsert=a.get('upsert', False))
        elif k == 'update_many':
            bulk.add_update(a['filter'], a['update'], multi=True, upsert=a.get('upsert', False))
        elif k == 'replace_one':
            bulk.add_replace(a['filter'], a['repl'], a.get('upsert', False))
        elif k == 'delete_one':
            bulk.add_delete(a['filter'], True)
        elif k == 'delete_many':
            bulk.add_delete(a['filter'], False)
        else:
            raise ValueError(k)


def canon(v):
    """tuples -> lists, hashdict/OrderedDict -> dict (order kept)"""
    if isinstance(v, dict):
        return {k: canon(x) for k, x in v.items()}
    if isinstance(v, (list, tuple)):
        return [canon(x) for x in v]
    return v


def dump_store(coll):
    return [(canon(k), canon(d)) for k, d in coll._store._documents.items()]


def run_op(coll, op, clock, a=None, keep=None):
    """Execute one operation; returns the canonical outcome (a Python value) or raises.
    a: the argument objects to pass (default: a deep copy of op); keep: a list receiving the
    raw objects the library handed back (C07)."""
    o = op['op']
    a = copy.deepcopy(op) if a is None else a

    def kept(x):
        if keep is not None:
            keep.append(x)
        return x
    if o == 'insert_one':
        r = coll.insert_one(a['doc'])
        kept(r.inserted_id)
        return {'inserted_id': r.inserted_id, '$caller_id': a['doc'].get('_id', common)}
    if o == 'insert_many':
        try:
            r = coll.insert_many(a['docs'], ordered=a['ordered'])
        except mongomock.BulkWriteError as e:
            d = e.details
            return {'BulkWriteError': {
                'writeErrors': [{'index': w['index'], 'code': w['code']} for w in d['writeErrors']],
                'nInserted': d['nInserted']}}
        return {'inserted_ids': list(kept(r.inserted_ids))}
    if o == 'update':
        fn = coll.update_many if a['multi'] else coll.update_one
        r = fn(a['filter'], a['update'], upsert=a['upsert'])
        return {'matched': r.matched_count, 'modified': r.modified_count, 'upserted_id': kept(r.upserted_id)}
    if o == 'replace':
        r = coll.replace_one(a['filter'], a['repl'], upsert=a['upsert'])
        return {'matched': r.matched_count, 'modified': r.modified_count, 'upserted_id': r.upserted_id}
    if o == 'delete':
        fn = coll.delete_many if a['multi'] else coll.delete_one
        return {'deleted': fn(a['filter']).deleted_count}
    if o == 'find':
        srt = [tuple(x) for x in a['sort']] or None
        via = a.get('via', 'kwargs')
        if via == 'chain' and srt:
            cur = coll.find(a['filter'], a.get('proj'), skip=a['skip'], limit=a['limit']).sort(srt)
        else:
            cur = coll.find(a['filter'], a.get('proj'), sort=srt, skip=a['skip'], limit=a['limit'])
        if via == 'index':
            try:
                return canon([kept(cur[0])])
            except IndexError:
                return []
        return canon(kept(list(cur)))
    if o == 'fam':
        kw = {'projection': a.get('proj'), 'sort': [tuple(x) for x in a['sort']] or None}
        if a['kind'] == 'delete':
            return canon(kept(coll.find_one_and_delete(a['filter'], **kw)))
        kw['upsert'] = a['upsert']
        kw['return_document'] = a['after']
        if a['kind'] == 'update':
            return canon(kept(coll.find_one_and_update(a['filter'], a['arg'], **kw)))
        return canon(kept(coll.find_one_and_replace(a['filter'], a['arg'], **kw)))
    if o == 'bulk':
        reqs = [BulkReq(r['kind'], **{k: v for k, v in r.items() if k != 'kind'}) for r in a['reqs']]
        keys = ['nInserted', 'nMatched', 'nModified', 'nUpserted', 'nRemoved']
        try:
            r = coll.bulk_write(reqs, ordered=a['ordered'])
        except mongomock.BulkWriteError as e:
            d = e.details
            out = {k: d[k] for k in keys}
            out['upserted'] = [u['_id'] for u in d['upserted']]
            out['writeErrors'] = [{'index': w['index'], 'code': w['code']} for w in d['writeErrors']]
            return {'BulkWriteError': out}
        d = r.bulk_api_result
        out = {k: d[k] for k in keys}
        out['upserted'] = [u['_id'] for u in d['upserted']]
        return out
    if o == 'count':
        kw = {}
        if a['skip']:
            kw['skip'] = a['skip']
        if a['limit'] is not None:
            kw['limit'] = a['limit']
        return coll.count_documents(a['filter'], **kw)
    if o == 'distinct':
        return {'$set': canon(kept(coll.distinct(a['key'], a['filter'])))}
    if o == 'create_index':
        kw = {}
        if a.get('unique'):
            kw['unique'] = True
        if a.get('sparse'):
            kw['sparse'] = True
        if a.get('ttl', common) is not common:
            kw['expireAfterSeconds'] = a['ttl']
        if a.get('partial', common) is not common:
            kw['partialFilterExpression'] = a['partial']
        if a.get('name'):
            kw['name'] = a['name']
        return coll.create_index([tuple(x) for x in a['key']], **kw)
    if o == 'drop_index':
        coll.drop_index(a['name'])
        return None
    if o == 'drop_indexes':
        coll.drop_indexes()
        return None
    if o == 'index_info':
        return canon(coll.index_information())
    if o == 'drop':
        coll.drop()
        return None
    if o == 'clock':
        clock[0] = T0 + datetime.timedelta(microseconds=a['t'])
        return None
    raise ValueError(o)


def run_history(ops, pre5=False, tz_aware=False):
    """-> list of (outcome dict {'ok': v} | {'err': cls}, store dump) per op, plus notes"""
    clock = [T0]
    obs = []
    notes = []
    with mock.patch('mongomock.collection.ObjectId', common.CounterOidFactory(1000)), \
            mock.patch('mongomock.utcnow', side_effect=lambda: clock[0]), \
            mock.patch('mongomock.SERVER_VERSION', '4.4.0' if pre5 else '5.0.5'):
        coll = mongomock.MongoClient(tz_aware=tz_aware).db.c
        for k, op in enumerate(ops):
            try:
                r = run_op(coll, op, clock)
                if isinstance(r, dict) and '$caller_id' in r:
                    cid = r.pop('$caller_id')
                    if cid is common or not (cid == r['inserted_id']):
                        notes.append({'step': k, 'note': 'insert did not write the _id into the '
                                                         'caller\'s document'})
                out = {'ok': r}
            except Exception as e:  # noqa
                out = {'err': common.err_class(e), 'exc': type(e).__name__}
            obs.append((out, dump_store(coll), canon(coll.index_information())))
    return obs, notes


# ------------------------------------------------------------------ Coq printing
def sort_to_coq(sort):
    return coq_list('(%s, %s)' % (coq_string(k), coq_z(d)) for k, d in sort)


def key_to_coq(key):
    return coq_list('(%s, %s)' % (coq_string(k), to_coq(d)) for k, d in key)


def proj_to_coq(p):
    return 'None' if p is None else '(Some (%s))' % to_coq(p)


def req_to_coq(r):
    k = r['kind']
    if k == 'insert_one':
        return 'BInsert (%s)' % to_coq(r['doc'])
    if k in ('update_one', 'update_many'):
        return 'BUpdate (%s) (%s) %s %s' % (to_coq(r['filter']), to_coq(r['update']),
                                            coq_bool(k == 'update_many'), coq_bool(r.get('upsert', False)))
    if k == 'replace_one':
        return 'BReplace (%s) (%s) %s' % (to_coq(r['filter']), to_coq(r['repl']),
                                          coq_bool(r.get('upsert', False)))
    return 'BDelete (%s) %s' % (to_coq(r['filter']), coq_bool(k == 'delete_many'))


def op_to_coq(op):
    o = op['op']
    if o == 'insert_one':
        return 'OInsertOne (%s)' % to_coq(op['doc'])
    if o == 'insert_many':
        return 'OInsertMany %s %s' % (coq_list(to_coq(d) for d in op['docs']), coq_bool(op['ordered']))
    if o == 'update':
        return 'OUpdate (%s) (%s) %s %s' % (to_coq(op['filter']), to_coq(op['update']),
                                            coq_bool(op['multi']), coq_bool(op['upsert']))
    if o == 'replace':
        return 'OReplace (%s) (%s) %s' % (to_coq(op['filter']), to_coq(op['repl']),
                                          coq_bool(op['upsert']))
    if o == 'delete':
        return 'ODelete (%s) %s' % (to_coq(op['filter']), coq_bool(op['multi']))
    if o == 'find':
        if op.get('via') == 'index':
            # cursor[0]: the first document of the window = the same find with limit 1
            # (only generated with limit 0)
            return 'OFind (%s) %s %s %s 1' % (to_coq(op['filter']), proj_to_coq(op.get('proj')),
                                              sort_to_coq(op['sort']), coq_z(op['skip']))
        return 'OFind (%s) %s %s %s %s' % (to_coq(op['filter']), proj_to_coq(op.get('proj')),
                                           sort_to_coq(op['sort']), coq_z(op['skip']), coq_z(op['limit']))
    if o == 'fam':
        if op['kind'] == 'delete':
            k = 'FamDelete'
        else:
            k = '(%s (%s) %s %s)' % ('FamUpdate' if op['kind'] == 'update' else 'FamReplace',
                                     to_coq(op['arg']), coq_bool(op['upsert']), coq_bool(op['after']))
        return 'OFindAndModify (%s) %s %s %s' % (to_coq(op['filter']), proj_to_coq(op.get('proj')),
                                                 sort_to_coq(op['sort']), k)
    if o == 'bulk':
        return 'OBulk %s %s' % (coq_list(req_to_coq(r) for r in op['reqs']), coq_bool(op['ordered']))
    if o == 'count':
        return 'OCount (%s) %s %s' % (to_coq(op['filter']), coq_z(op['skip']),
                                      coq_opt(None if op['limit'] is None else coq_z(op['limit'])))
    if o == 'distinct':
        return 'ODistinct %s (%s)' % (coq_string(op['key']), to_coq(op['filter']))
    if o == 'create_index':
        ttl = op.get('ttl', common)
        part = op.get('partial', common)
        return 'OCreateIndex %s %s %s %s %s %s' % (
            key_to_coq(op['key']), coq_bool(bool(op.get('unique'))), coq_bool(bool(op.get('sparse'))),
            coq_opt(None if ttl is common else '(%s)' % to_coq(ttl)),
            coq_opt(None if part is common else '(%s)' % to_coq(part)),
            coq_opt(coq_string(op['name']) if op.get('name') else None))
    if o == 'drop_index':
        return 'ODropIndex %s' % coq_string(op['name'])
    if o == 'drop_indexes':
        return 'ODropIndexes'
    if o == 'index_info':
        return 'OIndexInfo'
    if o == 'drop':
        return 'ODrop'
    if o == 'clock':
        return 'OSetClock %s' % coq_z(T0_US + op['t'])
    raise ValueError(o)


def obs_to_coq(out, store, idx):
    if 'ok' in out:
        r = 'Ok (%s)' % to_coq(out['ok'])
    else:
        r = 'Err %s' % out['err']
    return '(%s, %s, %s)' % (r, coq_list('(%s, %s)' % (to_coq(k), to_coq(d)) for k, d in store),
                             to_coq(idx))


def case_to_coq(ops, obs, pre5):
    ops_t = coq_list(op_to_coq(o) for o in ops)          # may raise Unserialisable: case skipped
    try:
        obs_t = coq_list(obs_to_coq(o, s, i) for o, s, i in obs)
    except common.Unserialisable as e:
        raise common.OutcomeUnserialisable(str(e))
    return 'HistCase %s %s %s' % (coq_bool(pre5), ops_t, obs_t)


# ------------------------------------------------------------------ generators
IDS = [1, 2, 3, 4]


def small_doc(rng, ids=IDS, depth=1, **kw):
    d = gen.document(rng, depth, with_id=False, **kw)
    r = rng.random()
    if r < 0.75:
        d = dict(_id=rng.choice(ids), **d)
    elif r < 0.85:
        d = dict(_id={'k': rng.choice([1, 2]), 'j': rng.choice(['a', 'b'])}, **d)
    return d


def state_docs(obs):
    return [d for _, d in obs[-1][1]] if obs else []



def gen_filter(rng, docs, **kw):
    base = rng.choice(docs) if docs and rng.random() < 0.8 else gen.document(rng, 1)
    r = rng.random()
    if r < 0.15:
        return {}
    if r < 0.35 and '_id' in base:
        return {'_id': base['_id']}
    if r < 0.42 and '_id' in base:
        # the _id constrained by an operator
        return {'_id': rng.choice([{'$in': [base['_id'], 99]}, {'$gte': base['_id']}, {'$ne': 99},
                                   {'$eq': base['_id']}, {'$exists': True}])}
    return gen.filter_(rng, base, depth=1, malformed=rng.random() < 0.05, **kw)


def gen_update(rng, docs, ops=None, **kw):
    base = rng.choice(docs) if docs and rng.random() < 0.8 else gen.document(rng, 1)
    ops = ops or ['$set', '$set', '$unset', '$inc', '$min', '$max', '$pop', '$push', '$addToSet',
                  '$pull', '$pullAll', '$rename', '$setOnInsert', '$currentDate']
    u = {}
    for _ in range(rng.choice([1, 1, 2, 3])):
        k = rng.choice(ops)
        fields = u.setdefault(k, {})
        for _ in range(rng.choice([1, 1, 2])):
            p = gen.path(rng, base, allow_id=rng.random() < 0.05)
            if k in ('$set', '$setOnInsert'):
                fields[p] = gen.value(rng, 1, **kw)
            elif k == '$unset':
                fields[p] = ''
            elif k == '$inc':
                fields[p] = rng.choice([1, 2, -1, 0.5, 0, 'x'])
            elif k in ('$min', '$max'):
                fields[p] = gen.scalar(rng, **kw)
            elif k == '$pop':
                fields[p] = rng.choice([1, -1, 1, -1, 2])
            elif k == '$push':
                if rng.random() < 0.5:
                    mods = {'$each': [gen.value(rng, 1, **kw) for _ in range(rng.choice([0, 1, 2, 3]))]}
                    if rng.random() < 0.4:
                        mods['$position'] = rng.choice([0, 1, 2, -1, 5])
                    if rng.random() < 0.3:
                        mods['$sort'] = rng.choice([1, -1])
                    if rng.random() < 0.4:
                        mods['$slice'] = rng.choice([0, 1, 2, -1, -2, 5])
                    if rng.random() < 0.05:
                        mods['$bogus'] = 1
                    fields[p] = mods
                else:
                    fields[p] = gen.value(rng, 1, **kw)
            elif k == '$addToSet':
                if rng.random() < 0.4:
                    fields[p] = {'$each': [gen.operand(rng, base, **kw) for _ in range(rng.choice([1, 2, 3]))]}
                else:
                    fields[p] = gen.operand(rng, base, **kw)
            elif k == '$pull':
                fields[p] = gen.operand(rng, base, **kw) if rng.random() < 0.6 else \
                    gen.op_dict(rng, base, 0, False, **kw)
            elif k == '$pullAll':
                fields[p] = [gen.operand(rng, base, **kw) for _ in range(rng.choice([1, 2]))]
            elif k == '$rename':
                fields[rng.choice(gen.KEYS)] = rng.choice(gen.KEYS + ['y'])
            elif k == '$currentDate':
                fields[p] = True
    return u


def gen_projection(rng, docs):
    base = rng.choice(docs) if docs and rng.random() < 0.8 else gen.document(rng, 2)
    mode = rng.choice([1, 1, 0])
    if rng.random() < 0.12:
        return [gen.path(rng, base) for _ in range(rng.choice([0, 1, 2]))]
    p = {}
    for _ in range(rng.choice([0, 1, 1, 2, 3])):
        k = gen.path(rng, base)
        r = rng.random()
        if r < 0.12:
            p[k.split('.')[0]] = {'$slice': rng.choice([0, 1, 2, -1, -2, 5, [0, 1], [1, 2], [-2, 1], [1], [-1, 1],
                                                       [-2, 2], [-1, 3], [-3, 2], [2, 5], [0, 0]])}
        elif r < 0.2:
            p[k.split('.')[0]] = {'$elemMatch': gen.elem_query(rng, base, 0, False)}
        else:
            p[k] = mode if rng.random() < 0.93 else 1 - mode
    if rng.random() < 0.35:
        p['_id'] = rng.choice([0, 1, 0, False, True])
    return p


def gen_op(rng, docs, weights, **kw):
    kinds = [k for k, w in weights.items() for _ in range(w)]
    k = rng.choice(kinds)
    if k == 'insert_one':
        return {'op': 'insert_one', 'doc': small_doc(rng, **kw)}
    if k == 'insert_many':
        return {'op': 'insert_many', 'docs': [small_doc(rng, **kw) for _ in range(rng.choice([1, 2, 3]))],
                'ordered': rng.random() < 0.5}
    if k == 'update':
        return {'op': 'update', 'filter': gen_filter(rng, docs, **kw), 'update': gen_update(rng, docs, **kw),
                'multi': rng.random() < 0.4, 'upsert': rng.random() < UPSERT_RATE[0]}
    if k == 'replace':
        r = gen.document(rng, 1, with_id=rng.random() < 0.25, **kw)
        return {'op': 'replace', 'filter': gen_filter(rng, docs, **kw), 'repl': r,
                'upsert': rng.random() < 0.25}
    if k == 'delete':
        return {'op': 'delete', 'filter': gen_filter(rng, docs, **kw), 'multi': rng.random() < 0.4}
    if k == 'find':
        sort = []
        if rng.random() < 0.4:
            sort = [[rng.choice(gen.KEYS + ['_id', 'a.b']), rng.choice([1, -1])]
                    for _ in range(rng.choice([1, 1, 2]))]
        op = {'op': 'find', 'filter': gen_filter(rng, docs, **kw), 'sort': sort,
                'proj': gen_projection(rng, docs) if rng.random() < 0.3 else None,
                'skip': rng.choice([0, 0, 0, 1, 2]), 'limit': rng.choice([0, 0, 0, 1, 2, -1]),
                'via': rng.choice(['kwargs', 'kwargs', 'chain', 'index'])}
        if op['via'] == 'index':
            op['limit'] = 0
        return op
    if k == 'fam':
        kind = rng.choice(['update', 'update', 'replace', 'delete'])
        sort = []
        if rng.random() < 0.6:
            sort = [[rng.choice(gen.KEYS + ['_id']), rng.choice([1, -1])]
                    for _ in range(rng.choice([1, 2, 2]))]
        op = {'op': 'fam', 'kind': kind, 'filter': gen_filter(rng, docs, **kw), 'sort': sort,
              'proj': gen_projection(rng, docs) if rng.random() < 0.5 else None,
              'upsert': rng.random() < 0.25, 'after': rng.random() < 0.5}
        if kind == 'update':
            op['arg'] = gen_update(rng, docs, **kw)
        elif kind == 'replace':
            op['arg'] = gen.document(rng, 1, with_id=False, **kw)
        return op
    if k == 'bulk':
        reqs = []
        for _ in range(rng.choice([1, 2, 3, 4])):
            kind = rng.choice(['insert_one', 'insert_one', 'update_one', 'update_many', 'replace_one',
                               'delete_one', 'delete_many'])
            if kind == 'insert_one':
                reqs.append({'kind': kind, 'doc': small_doc(rng, **kw)})
            elif kind in ('update_one', 'update_many'):
                reqs.append({'kind': kind, 'filter': gen_filter(rng, docs, **kw),
                             'update': gen_update(rng, docs, **kw), 'upsert': rng.random() < 0.3})
            elif kind == 'replace_one':
                reqs.append({'kind': kind, 'filter': gen_filter(rng, docs, **kw),
                             'repl': gen.document(rng, 1, with_id=False, **kw), 'upsert': rng.random() < 0.3})
            else:
                reqs.append({'kind': kind, 'filter': gen_filter(rng, docs, **kw)})
        return {'op': 'bulk', 'reqs': reqs, 'ordered': rng.random() < 0.5}
    if k == 'count':
        return {'op': 'count', 'filter': gen_filter(rng, docs, **kw), 'skip': rng.choice([0, 0, 1, 3]),
                'limit': rng.choice([None, None, 1, 2])}
    if k == 'distinct':
        return {'op': 'distinct', 'key': rng.choice(gen.KEYS + ['a.b', '_id']),
                'filter': gen_filter(rng, docs, **kw)}
    if k == 'create_index':
        key = [[rng.choice(gen.KEYS + ['a.b']), 1]]
        if rng.random() < 0.25:
            key.append([rng.choice(gen.KEYS), rng.choice([1, -1])])
        op = {'op': 'create_index', 'key': key, 'unique': rng.random() < 0.6,
              'sparse': rng.random() < 0.3}
        if rng.random() < 0.2:
            op['partial'] = {rng.choice(gen.KEYS): {'$exists': True}}
        return op
    if k == 'create_ttl':
        key = [[rng.choice(['d', 'd', 'd', 'a']), 1]]
        if rng.random() < 0.1:
            key.append([rng.choice(gen.KEYS), 1])          # compound: ignored by expiry
        op = {'op': 'create_index', 'key': key, 'unique': False, 'sparse': False,
              'ttl': rng.choice([0, 1, 10, 10, 60, 60, 3600, '5', 'abc', 1.5, 10])}
        if rng.random() < 0.5:
            op['name'] = rng.choice(['t1', 't2'])      # several TTL indexes over the same field
        return op
    if k == 'insert_dated':
        r = rng.random()
        base = T0 + datetime.timedelta(seconds=rng.choice([-100, -11, -10, -9, -1, 0, 1, 50]),
                                       microseconds=rng.choice([0, 0, 1000, -1000]))
        if r < 0.6:
            dv = base
        elif r < 0.75:
            dv = [base, T0 + datetime.timedelta(seconds=rng.choice([-50, 5])), rng.choice([1, 'x', None])]
        elif r < 0.8:
            dv = []
        else:
            dv = rng.choice([None, 5, 'x', {'k': 1}])
        d = {'_id': rng.choice(IDS + [5, 6, 7, 8]), 'd': dv, 'a': rng.choice([1, 2, 3])}
        if r > 0.95:
            del d['d']
        return {'op': 'insert_one', 'doc': d}
    if k == 'drop_index':
        return {'op': 'drop_index', 'name': rng.choice(['%s_1' % k for k in gen.KEYS + ['d', 'd']] + ['t1', 't2'])}
    if k in ('drop_indexes', 'index_info', 'drop'):
        return {'op': k}
    if k == 'clock':
        return {'op': 'clock', 't': rng.choice([0, 1, 5, 10, 11, 60, 3600, -5]) * 1000000
                + rng.choice([0, 0, 1, -1, 1000, 999])}
    raise ValueError(k)


UPSERT_RATE = [0.25]
DEFAULT_WEIGHTS = {'insert_one': 6, 'insert_many': 2, 'update': 6, 'replace': 2, 'delete': 2,
                   'find': 3, 'fam': 3, 'bulk': 2, 'count': 1, 'distinct': 1, 'create_index': 2, 'drop_index': 1,
                   'drop_indexes': 1, 'index_info': 1, 'drop': 1}


def gen_history(rng, n_ops, weights=None, pre5=False, first=None, **kw):
    """Generates ops one at a time, running the prefix so that later ops can refer to the
    actual state."""
    weights = weights or DEFAULT_WEIGHTS
    ops = list(first or [])
    obs, _ = run_history(ops, pre5) if ops else ([], [])
    for _ in range(n_ops):
        docs = state_docs(obs)
        op = gen_op(rng, docs, weights, **kw)
        ops.append(op)
        obs, _ = run_history(ops, pre5)
    return ops


def gen_focus_unique(rng):
    """Focused histories for unique indexes: one (possibly compound, sparse, partial) unique index
    created before, in the middle of, or after the data; a tiny value domain including dates and
    ObjectIds; writes that change the key fields or only the partial-filter field."""
    K = rng.choice(['a', 'b'])
    K2 = rng.choice([None, None, 'c'])
    P = rng.choice(['x', 'p'])
    vals = [1, 2, 1, gen.BASE_DATE, common.make_oid(1), None]
    key = [[K, 1]] + ([[K2, 1]] if K2 else [])
    idx = {'op': 'create_index', 'key': key, 'unique': True, 'sparse': rng.random() < 0.4}
    if rng.random() < 0.45:
        idx['partial'] = {P: {'$exists': True}}

    def doc(i):
        d = {'_id': i}
        if rng.random() < 0.85:
            d[K] = rng.choice(vals)
        if K2 and rng.random() < 0.5:
            d[K2] = rng.choice([1, 2])
        if rng.random() < 0.5:
            d[P] = 1
        return d
    n = rng.choice([2, 3, 4])
    inserts = [{'op': 'insert_one', 'doc': doc(i)} for i in range(1, n + 1)]
    pos = rng.choice([0, 0, 1, n, n])
    ops = [{'op': 'clock', 't': 0}] + inserts[:pos] + [idx] + inserts[pos:]
    for _ in range(rng.choice([1, 2, 3, 4])):
        i = rng.randrange(1, n + 1)
        r = rng.random()
        if r < 0.5:
            u = rng.choice([{'$set': {K: rng.choice(vals)}}, {'$set': {P: 1}}, {'$unset': {P: ''}},
                            {'$unset': {K: ''}}, {'$set': {K: rng.choice(vals), P: 1}}]
                           + ([{'$set': {K2: rng.choice([1, 2])}}] if K2 else []))
            ops.append({'op': 'update', 'filter': {'_id': i}, 'update': u,
                        'multi': False, 'upsert': False})
        elif r < 0.62:
            ops.append({'op': 'replace', 'filter': {'_id': i}, 'repl': {k: v for k, v in doc(i).items() if k != '_id'},
                        'upsert': False})
        elif r < 0.72:
            ops.append({'op': 'update', 'filter': {K: rng.choice(vals)}, 'update': {'$set': {P: 1}},
                        'multi': rng.random() < 0.5, 'upsert': True})
        elif r < 0.8:
            ops.append({'op': 'fam', 'kind': 'update', 'filter': {'_id': i}, 'sort': [], 'proj': None,
                        'upsert': False, 'after': rng.random() < 0.5,
                        'arg': {'$set': {K: rng.choice(vals)}}})
        elif r < 0.9:
            ops.append({'op': 'bulk', 'reqs': [{'kind': 'insert_one', 'doc': doc(10 + i)},
                                                {'kind': 'update_one', 'filter': {'_id': i},
                                                 'update': {'$set': {K: rng.choice(vals)}}, 'upsert': False}],
                        'ordered': rng.random() < 0.5})
        else:
            ops.append({'op': 'insert_one', 'doc': doc(20 + i)})
    return ops


def gen_focus_ttl(rng):
    """Focused TTL histories: a long-lived TTL index, dated documents, a read (an expiry pass),
    then - without any write - a second or replacement TTL index with a shorter period and/or a
    clock that stands still or moves backwards, then reads through several entry points."""
    def read():
        r = rng.random()
        if r < 0.5:
            return {'op': 'find', 'filter': {}, 'proj': None, 'sort': [], 'skip': 0, 'limit': 0, 'via': 'kwargs'}
        if r < 0.75:
            return {'op': 'count', 'filter': {}, 'skip': 0, 'limit': None}
        return {'op': 'distinct', 'key': '_id', 'filter': {}}
    if rng.random() < 0.3:
        # a deadline crossed by a SUB-SECOND clock step, with only reads in between
        t = rng.choice([0, 10])
        n = rng.choice([5, 60])
        delta = rng.choice([300000, 500000, 900000, 1])            # microseconds after the first read
        ops = [{'op': 'clock', 't': t * 1000000},
               {'op': 'create_index', 'key': [['d', 1]], 'unique': False, 'sparse': False, 'ttl': n, 'name': 't1'},
               {'op': 'insert_one', 'doc': {'_id': 1, 'd': T0 + datetime.timedelta(seconds=t - n, microseconds=delta)}},
               {'op': 'insert_one', 'doc': {'_id': 2, 'd': T0 + datetime.timedelta(seconds=t + 50)}},
               read()]
        step = rng.choice([delta, delta + 100000, delta - 1, delta + 1])
        ops.append({'op': 'clock', 't': t * 1000000 + step})
        ops.append(read())
        ops.append({'op': 'clock', 't': t * 1000000 + step + rng.choice([1, 200000])})
        ops.append(read())
        return ops
    t = rng.choice([0, 10, 100])
    ops = [{'op': 'clock', 't': t * 1000000},
           {'op': 'create_index', 'key': [['d', 1]], 'unique': False, 'sparse': False,
            'ttl': rng.choice([1000, 3600]), 'name': 't1'}]
    for i in range(1, rng.choice([2, 3, 4]) + 1):
        age = rng.choice([0, 2, 8, 10, 50, 90])
        ops.append({'op': 'insert_one', 'doc': {'_id': i, 'd': T0 + datetime.timedelta(seconds=t - age)}})
    ops.append(read())
    r = rng.random()
    short = rng.choice([5, 10, 20])
    if r < 0.4:
        ops.append({'op': 'create_index', 'key': [['d', 1]], 'unique': False, 'sparse': False,
                    'ttl': short, 'name': 't2'})
    elif r < 0.8:
        ops.append({'op': 'drop_index', 'name': 't1'})
        ops.append({'op': 'create_index', 'key': [['d', 1]], 'unique': False, 'sparse': False,
                    'ttl': short, 'name': 't1'})
    else:
        ops.append({'op': 'drop_indexes'})
        ops.append({'op': 'create_index', 'key': [['d', 1]], 'unique': False, 'sparse': False,
                    'ttl': short})
    if rng.random() < 0.4:
        ops.append({'op': 'clock', 't': (t - rng.choice([0, 1, 5])) * 1000000})
    ops.append(read())
    if rng.random() < 0.5:
        ops.append({'op': 'update', 'filter': {'_id': 1}, 'update': {'$set': {'x': 1}}, 'multi': False,
                    'upsert': False})
        ops.append(read())
    return ops


def gen_focus_arrays(rng):
    """Focused histories for the array operators: documents holding arrays with repeated and
    adjacent equal elements (scalars and sub-documents), then $pull / $pullAll / $addToSet /
    $push (with modifiers) / $pop on them, single and multi."""
    pool = [1, 1, 2, 'a', 'a', None, 2.0, {'k': 1}, {'k': 1}, {'k': 2}]

    def arr():
        n = rng.choice([0, 1, 2, 3, 4, 5])
        out = []
        for _ in range(n):
            if out and rng.random() < 0.45:
                out.append(out[-1])           # adjacent duplicates
            else:
                out.append(rng.choice(pool))
        return out
    ops = [{'op': 'clock', 't': 0}]
    for i in range(1, rng.choice([1, 2, 3]) + 1):
        ops.append({'op': 'insert_one', 'doc': {'_id': i, 'l': arr(), 'm': {'l': arr()}, 'n': rng.choice([1, 2])}})
    for _ in range(rng.choice([1, 2, 3])):
        f = rng.choice(['l', 'l', 'm.l'])
        v = rng.choice(pool)
        r = rng.random()
        if r < 0.25:
            u = {'$pull': {f: v if rng.random() < 0.7 else {'$gte': 1}}}
        elif r < 0.37:
            u = {'$pullAll': {f: [v, rng.choice(pool)]}}
        elif r < 0.5:
            u = {'$addToSet': {f: v if rng.random() < 0.6 else {'$each': [v, rng.choice(pool), v]}}}
        elif r < 0.85:
            mods = {'$each': [rng.choice(pool) for _ in range(rng.choice([0, 1, 2]))]}
            if rng.random() < 0.5:
                mods['$position'] = rng.choice([0, 1, -1, 9])
            if rng.random() < 0.65:
                mods['$slice'] = rng.choice([0, 2, 9, 3] + list(range(-2, -10, -1)) + [-3, -5, -7])
            u = {'$push': {f: mods if rng.random() < 0.7 else v}}
        else:
            u = {'$pop': {f: rng.choice([1, -1])}}
        ops.append({'op': 'update', 'filter': rng.choice([{}, {'n': 1}, {'_id': 1}]), 'update': u,
                    'multi': rng.random() < 0.5, 'upsert': False})
    return ops
