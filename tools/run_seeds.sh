#!/bin/sh
# tools/run_seeds.sh [seed-id ...] : apply each seeded change to /repo, run the check of the
# property it targets, undo it; prints one line per seed.  Results go to seeded/<id>/result.txt
cd /verif || exit 2
ids="$@"
[ -z "$ids" ] && ids=$(ls seeded)
for id in $ids; do
  prop=${id%%-*}
  git -C /repo reset -q --hard
  if ! git -C /repo apply --3way /verif/seeded/$id/patch.diff >/dev/null 2>&1; then
    echo "$id: patch does not apply" | tee seeded/$id/result.txt; git -C /repo reset -q --hard; continue
  fi
  out=$(./check $prop 2>&1 | grep -v "conda\|KNOWN-FINDING")
  git -C /repo reset -q --hard
  v=$(echo "$out" | grep -c "^VIOLATION")
  nf=$(echo "$out" | grep -c "no-failing-input-found")
  echo "$id: check $prop -> $( [ "$v" -gt 0 ] && echo DETECTED || echo missed ) (violation lines: $v, without failing input: $nf)" | tee seeded/$id/result.txt
done
git -C /repo reset -q --hard
