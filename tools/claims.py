NOT_APPLICABLE = {}
_NOTE = ('Trusted: Coq 8.16.1 kernel incl. vm_compute (no native_compute); no axioms (every property theorem is '
         '"Closed under the global context", re-printed by Print Assumptions on every run); the ast translators in '
         'translate/; the correspondence harness (generators, Python->Coq printer, canonical outcomes, ObjectId/utcnow '
         'patches). The theorem is about the hand-written Gallina model; the model is tied to /repo by running model and '
         'implementation on the same generated inputs every run (vm_compute inside coqc). ')
CLAIMED = {
 'C01': dict(design_ref='DESIGN.md 5/C01',
   text='Theorem C01_filter_match (Properties/C01.v): for every filter AST and document inside the guard G01 the model of '
        '_Filterer.apply returns exactly what MongoDB\'s matching rules (Spec/FilterSpec.v, written from the statement) say, '
        'unbounded in nesting depth and size; the guard\'s complement is the list of known findings plus constructs outside '
        'the fragment (regex, $where, $expr). The model is checked against the real matcher on 3000 (quick) / 60000 (thorough) '
        'generated (filter, document) pairs per run, inside and outside the guard.',
   note=_NOTE + 'Outside the model: regular expressions, $where/$text, $expr (C04), Python int() oddities on path components, NaN/inf.',
   technique='Coq proof (mutual induction over the filter AST) + differential correspondence by vm_compute'),
 'C19': dict(design_ref='DESIGN.md 5/C19',
   text='Theorems C19_rw_2/3/4 (Properties/C19.v): for EVERY schedule of 2, 3 and 4 threads running unbounded sequences of '
        'reader/writer sections (a section may end by an exception) on the lock protocol of mongomock/thread.py - whose '
        'instruction lists are regenerated from the source into Gen/LockProg.v on every run - every reachable state satisfies: '
        'writers exclude each other and all readers, no lock is released unheld or by a non-owner, and some thread in the middle '
        'of a section can always move (no deadlock); plus readers share (C19_readers_share). Proved by a kernel-checked closure '
        'computation (389 / 4696 / 48441 states) lifted to all traces by induction. The same schedules are replayed on the real '
        'RWLock under a deterministic scheduler (600 per run), and store/collection-level schedules (scans, inserts, deletes, '
        'TTL expiry, index creation from 2-4 threads, yield points at lock operations and between scan steps) are explored on the '
        'implementation for internal errors, deadlock and non-snapshot scans.',
   note=_NOTE + 'PARTIAL: the model granularity is one lock operation / one document-iteration step; byte-code level interleavings, '
        'the GIL and real preemption are not exhibited; the store-level part is exploration of the implementation, not proof.',
   technique='Coq proof: inductive-invariant (closure) computed by vm_compute and lifted by induction over traces; translator from thread.py; schedule replay'),
 'C20': dict(design_ref='DESIGN.md 5/C20',
   text='Theorems C20_no_silent (for ALL strings starting with $ and every syntactic position the dispatch assembled from the '
        'generated tables never treats the name as a plain field), C20_routed_expression_operators, C20_options_guarded (every '
        '(method, option) pair has a reachable NotImplementedError guard, except the listed finding) and '
        'C20_unimplemented_stages_raise, re-checked on every run against Gen/Tables.v, which is regenerated from filtering.py, '
        'aggregate.py, collection.py and not_implemented.py by a fail-closed ast translator; plus an exhaustive sweep of the '
        'MongoDB 5.0 vocabulary and unknown names at every position (3000+ probes) against the real code.',
   note=_NOTE + 'The theorem is about the dispatch structure read by the translator (tables, chain order, trailing raises); whether '
        'an implemented operator is correct is C01-C04.',
   technique='Coq proof over tables generated from the source (ast translator) + exhaustive vocabulary sweep'),
}
