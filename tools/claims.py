NOT_APPLICABLE = {}
_NOTE = ('Trusted: Coq 8.16.1 kernel incl. vm_compute (no native_compute); no axioms (every property theorem is '
         '"Closed under the global context", re-printed by Print Assumptions on every run); the ast translators in '
         'translate/; the correspondence harness (generators, Python->Coq printer, canonical outcomes, ObjectId/utcnow '
         'patches). The theorem is about the hand-written Gallina model; the model is tied to /repo by running model and '
         'implementation on the same generated inputs every run (vm_compute inside coqc). ')
CLAIMED = {
 'C01': dict(design_ref='DESIGN.md 5/C01',
   text='Theorem C01_filter_match (Properties/C01.v): for every filter AST and document inside the guard G01 the model of '
        '_Filterer.apply returns exactly what MongoDB\'s matching rules (Spec/FilterSpec.v, written from the statement) say, '
        'unbounded in nesting depth and size; the guard\'s complement is the list of known findings plus constructs outside '
        'the fragment (regex, $where, $expr). The model is checked against the real matcher on 3000 (quick) / 60000 (thorough) '
        'generated (filter, document) pairs per run, inside and outside the guard.',
   note=_NOTE + 'Outside the model: regular expressions, $where/$text, $expr (C04), Python int() oddities on path components, NaN/inf.',
   technique='Coq proof (mutual induction over the filter AST) + differential correspondence by vm_compute'),
}
