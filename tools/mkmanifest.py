#!/venv/bin/python
"""Regenerate MANIFEST.json from the table below (keeps it valid against the schema)."""
import json, os, sys
HERE = os.path.dirname(os.path.dirname(os.path.abspath(__file__)))
ALL = ['C%02d' % i for i in range(1, 21)]
# property -> (design_ref, text, note, technique)
CLAIMED = {}
exec(open(os.path.join(HERE, 'tools', 'claims.py')).read())
checks = []
for pid in ALL:
    if pid not in CLAIMED:
        continue
    c = CLAIMED[pid]
    checks.append({
        'property_id': pid,
        'quick_cmd': './check %s --tier quick' % pid,
        'thorough_cmd': './check %s --tier thorough' % pid,
        'evidence_file': '/verif/evidence/%s.json' % pid,
        'replay_cmd_template': './check %s --replay {path}' % pid,
        'engine': 'coq-model+correspondence',
        'level_claimed': {'category': 'proof', 'text': c['text'], 'design_ref': c['design_ref']},
        'level_note': c['note'],
        'technique': c['technique'],
    })
na = [{'property_id': p, 'reason': NOT_APPLICABLE.get(p, 'check not built yet in this round (planned, see DESIGN.md section 5); not claimed')}
      for p in ALL if p not in CLAIMED]
m = {
    'version': 1,
    'setup_cmd': './setup.sh',
    'hooks': {'guard': 'MONGOMOCK_VERIF', 'enable': 'no source hooks are used: the harness observes from outside (private attributes, patched utcnow/ObjectId/threading)',
              'baseline_off_cmd': 'cd /repo && /venv/bin/python -m pytest -ra -q -p no:cacheprovider --timeout=900 --continue-on-collection-errors',
              'source_commits': [], 'add_only': True},
    'engines': [{'name': 'coq-model+correspondence', 'path': '/verif/coq', 'serves_properties': sorted(CLAIMED),
                 'kind_free_text': 'Coq 8.16.1 development (model, specification, guard, theorems) tied to /repo by ast translators (coq/Gen regenerated every run) and by differential runs evaluated with vm_compute inside coqc'}],
    'checks': checks,
    'notes': 'See DESIGN.md. KNOWN_FINDINGS.json lists genuine defects of the unchanged tree (known) and the fix: commits (fixed).',
    'not_applicable': na,
}
json.dump(m, open(os.path.join(HERE, 'MANIFEST.json'), 'w'), indent=1)
print('claimed:', sorted(CLAIMED), 'not claimed:', len(na))
