#!/bin/sh
# tools/confirm_seed.sh <worktree> <A|B> <seed-id> : re-confirm a seeded change in its scratch
# worktree (suite still passes, demo fails with the change and passes without), then keep it
# under /verif/seeded/<seed-id>/.
wt=$1; x=$2; id=$3
cd "$wt" || exit 2
git checkout -q -- mongomock
git apply "seed/$x/patch.diff" || { echo "patch does not apply"; exit 1; }
suite=$(/venv/bin/python -m pytest -q -p no:cacheprovider 2>&1 | tail -1)
/venv/bin/python "seed/$x/demo.py" > /dev/null 2>&1; with=$?
git checkout -q -- mongomock
/venv/bin/python "seed/$x/demo.py" > /dev/null 2>&1; without=$?
echo "$id suite: $suite | demo with change: exit $with | without: exit $without"
case "$suite" in *"434 passed"*) ;; *) echo "REJECT: suite"; exit 1;; esac
[ "$with" != 0 ] && [ "$without" = 0 ] || { echo "REJECT: demo"; exit 1; }
mkdir -p "/verif/seeded/$id"
cp "seed/$x/patch.diff" "seed/$x/demo.py" "/verif/seeded/$id/"
/venv/bin/python - "$wt/seed/$x/meta.json" "/verif/seeded/$id/meta.json" "$suite" "$with" "$without" <<'PY'
import json, sys
m = json.load(open(sys.argv[1]))
m['confirmed_by_me'] = {'suite_with_change': sys.argv[3], 'demo_exit_with_change': int(sys.argv[4]),
                        'demo_exit_without_change': int(sys.argv[5]),
                        'how': 'tools/confirm_seed.sh in the scratch worktree (apply, full suite, demo, revert, demo)'}
json.dump(m, open(sys.argv[2], 'w'), indent=1)
PY
