(* Correspondence check of C03: model vs implementation, specification vs implementation. *)
From Coq Require Import ZArith List String Bool Ascii.
From Verif Require Import Value PyEq BsonOrder Path Update Expr ExprSpec Pipeline PipelineSpec PipelineGuard.
Import ListNotations.
Open Scope Z_scope.
Open Scope string_scope.
Open Scope list_scope.

Record c03_case := mkC03 {
  p_docs : list value;        (* the collection aggregated *)
  p_other : list value;       (* the collection "o" of the same database, for $lookup *)
  p_pipeline : value;
  p_impl : res (list value)   (* list(coll.aggregate(pipeline)) *)
}.

Definition c03_check (c : c03_case) : Z :=
  let db := [("o", p_other c)] in
  let m := aggregate db (p_docs c) (p_pipeline c) in
  let unm := match m with Err EUnmodelled => true | _ => false end in
  let mism := negb unm && negb (res_eqb (list_eqb value_eqb) m (p_impl c)) in
  let sp := agrees (spec_aggregate db (p_docs c) (p_pipeline c)) (p_impl c) in
  let r := c03_reasons db (p_docs c) (p_pipeline c) in
  (if mism then 1 else 0) + (match sp with Some false => 2 | _ => 0 end)
  + (if Z.eqb r 0 then 0 else 4) + (if unm then 8 else 0)
  + (match sp with None => 16 | _ => 0 end) + 256 * r.

Definition c03_explain (c : c03_case) :=
  let db := [("o", p_other c)] in
  (aggregate db (p_docs c) (p_pipeline c), spec_aggregate db (p_docs c) (p_pipeline c)).
