(* C18: "the same value up to replacing datetimes by datetimes of the same millisecond".
   Definitions only. *)
From Coq Require Import ZArith List String Bool.
From Verif Require Import Value PyEq BsonOrder Path Filter Update Project Coll HistCheck HistProps
  DatetimeSpec.
Import ListNotations.
Open Scope Z_scope.

(* equal structure (same keys in the same order, same lengths, strictly equal scalars);
   datetimes are only required to denote the same millisecond, whatever their utc offset
   and their microseconds *)
Fixpoint same_ms_value (a b : value) {struct a} : bool :=
  match a, b with
  | VDate _ _, VDate _ _ => same_ms a b
  | VDoc fs, VDoc gs =>
      (fix go (fs gs : list (string * value)) : bool :=
         match fs, gs with
         | [], [] => true
         | (k, x) :: fs', (k', y) :: gs' => String.eqb k k' && same_ms_value x y && go fs' gs'
         | _, _ => false
         end) fs gs
  | VArr xs, VArr ys =>
      (fix go (xs ys : list value) : bool :=
         match xs, ys with
         | [], [] => true
         | x :: xs', y :: ys' => same_ms_value x y && go xs' ys'
         | _, _ => false
         end) xs ys
  | _, _ => value_eqb a b
  end.

(* what a tz_aware = True client observes on the model's run: the model's trace with the
   returned documents made aware (helpers.make_datetime_timezone_aware_in_document) *)
Fixpoint model_obs_aware (pre5 : bool) (c : coll) (ops : list op) : list obs :=
  match ops with
  | [] => []
  | o :: ops' =>
      let '(c', r) := step pre5 c o in
      (aware_outcome true o r, docs c',
       match index_information c' with (_, Ok v) => v | _ => VNull end)
      :: model_obs_aware pre5 c' ops'
  end.
