(* C01: the guard.  guard_reasons f d lists why (f, d) is outside the domain on which the
   theorem C01_filter_match is claimed; [] means inside.  Each reason is either a known
   finding (the statement decides, the code deviates), or "undecided"/"not modelled" (the
   statement, or this model, does not decide).  Definitions only. *)
From Coq Require Import ZArith List String Bool Ascii.
From Verif Require Import Value PyEq BsonOrder Path Filter FilterSpec.
Import ListNotations.
Open Scope Z_scope.
Open Scope string_scope.

Inductive reason :=
| R_EQ            (* finding F-EQ/F-DOCORDER: Python == vs BSON equality (bool~number, key order, aware dates) *)
| R_MULTI         (* finding F-MIXNEG/F-CONJ-CAND: several operators on a multi-candidate path *)
| R_SIZE          (* finding F-SIZE: $size against a non-array *)
| R_ARR_OPERAND   (* finding F-ARR-OPERAND: array operand against nested arrays *)
| R_EXISTS_FALSE  (* finding F-EXISTS-FALSE: {$exists: false} over present and missing candidates *)
| R_NULL_DEADEND  (* finding F-NULL-DEADEND: null equality on a path ending in a scalar/null parent *)
| R_NOT_NOCAND    (* finding F-NOT-NOCAND: $not on a path without candidates is treated as a failed positive test *)
| R_ALL_ELEM      (* finding F-ALL-ELEMMATCH: $elemMatch inside $all runs over the candidate list, not over an array value *)
| R_UNDECIDED     (* the statement does not decide (dead end through an array, empty $all) *)
| R_NOT_FRAGMENT. (* malformed, unknown or unmodelled construct; ordering against array/doc/ObjectId operands *)

Definition reason_code (r : reason) : Z :=
  match r with
  | R_EQ => 1 | R_MULTI => 2 | R_SIZE => 4 | R_ARR_OPERAND => 8 | R_EXISTS_FALSE => 16
  | R_NULL_DEADEND => 32 | R_UNDECIDED => 64 | R_NOT_FRAGMENT => 128 | R_NOT_NOCAND => 256 | R_ALL_ELEM => 512
  end.

Fixpoint has_bool (v : value) : bool :=
  match v with
  | VBool _ => true
  | VDoc fs => (fix go (fs : list (string * value)) : bool :=
                  match fs with [] => false | (_, v) :: fs' => has_bool v || go fs' end) fs
  | VArr xs => (fix go (xs : list value) : bool :=
                  match xs with [] => false | x :: xs' => has_bool x || go xs' end) xs
  | _ => false
  end.
Fixpoint has_num (v : value) : bool :=
  match v with
  | VInt _ | VDbl _ => true
  | VDoc fs => (fix go (fs : list (string * value)) : bool :=
                  match fs with [] => false | (_, v) :: fs' => has_num v || go fs' end) fs
  | VArr xs => (fix go (xs : list value) : bool :=
                  match xs with [] => false | x :: xs' => has_num x || go xs' end) xs
  | _ => false
  end.
Fixpoint has_aware (v : value) : bool :=
  match v with
  | VDate _ (Some _) => true
  | VDoc fs => (fix go (fs : list (string * value)) : bool :=
                  match fs with [] => false | (_, v) :: fs' => has_aware v || go fs' end) fs
  | VArr xs => (fix go (xs : list value) : bool :=
                  match xs with [] => false | x :: xs' => has_aware x || go xs' end) xs
  | _ => false
  end.
Fixpoint has_doc (v : value) : bool :=
  match v with
  | VDoc _ => true
  | VArr xs => (fix go (xs : list value) : bool :=
                  match xs with [] => false | x :: xs' => has_doc x || go xs' end) xs
  | _ => false
  end.
Fixpoint has_oid (v : value) : bool :=
  match v with
  | VOid _ => true
  | VDoc fs => (fix go (fs : list (string * value)) : bool :=
                  match fs with [] => false | (_, v) :: fs' => has_oid v || go fs' end) fs
  | VArr xs => (fix go (xs : list value) : bool :=
                  match xs with [] => false | x :: xs' => has_oid x || go xs' end) xs
  | _ => false
  end.

(* Python == and BSON equality agree between a resolved value x and an operand v *)
Definition eq_compat (x v : value) : bool :=
  negb (has_doc v) && negb (has_aware v) && negb (has_aware x) &&
  ((negb (has_bool x) && negb (has_bool v)) || (negb (has_num x) && negb (has_num v))).
Definition eq_compat_c (v : value) (c : lookup) : bool :=
  match c with Some x => eq_compat x v | None => negb (has_doc v) && negb (has_aware v) end.

Definition has_nested_arr (c : lookup) : bool :=
  match c with
  | Some (VArr xs) => existsb is_arr xs
  | _ => false
  end.

Definition is_scalar_operand (v : value) : bool :=
  match v with VArr _ | VDoc _ | VOid _ => false | _ => true end.

(* does the path dead-end (no candidate because a scalar/null/array of scalars is in the
   way)?  1 = through a scalar or null parent, 2 = through an array *)
Fixpoint dead_end (parts : list string) (doc : value) {struct parts} : Z :=
  match parts with
  | [] => 0
  | p :: rest =>
      match doc with
      | VDoc fs =>
          match assoc p fs with
          | Some v => dead_end rest v
          | None => 0
          end
      | VArr xs =>
          match as_index p with
          | Some i => match nth_z xs i with Some sub => dead_end rest sub | None => 2 end
          | None =>
              if existsb (fun sub => negb (is_doc sub)) xs then 2
              else fold_right (fun sub acc =>
                     match sub with
                     | VDoc fs => match assoc p fs with
                                  | Some v => Z.max (dead_end rest v) acc
                                  | None => acc
                                  end
                     | _ => acc
                     end) (match xs with [] => 2 | _ => 0 end) xs
          end
      | _ => 1
      end
  end.

Definition null_sensitive_val (v : value) : bool :=
  match v with VNull => true | _ => false end.

(* the last component of the path is empty ("a."): iter_key_candidates returns the parent
   itself, the statement reads "" as a field name (found by the proof of C01) *)
Fixpoint ends_empty (parts : list string) : bool :=
  match parts with
  | [] => false
  | p :: rest => match rest with [] => (p =? "") | _ => ends_empty rest end
  end.

(* a candidate on which the per-candidate $all of a multi-operator dict is outside the
   model: an array whose first element is an array but not all of them (found by the proof) *)
Definition all_unmodelled_cand (c : lookup) : bool :=
  match c with
  | Some (VArr ((VArr _ :: _) as xs)) => negb (all_lists (map Some xs))
  | _ => false
  end.
Definition fops_has_all (os : fops) : bool :=
  match fops_all os with Some _ => true | None => false end.

(* the operator form of $elemMatch relies on the dict, read as a filter, raising
   OperationFailure at its first key (an operator name); the parser guarantees it except
   when the first key is $not (then the model says "unmodelled") *)
Definition emq_falls_back (f : filter) : bool :=
  match f with FAnd CTopUnknown _ => true | _ => false end.




Definition fops_has_exists_false : fops -> bool :=
  fix go os := match os with
               | FNil => false
               | FCons (OExists v) os' => negb (truthy v) || go os'
               | FCons _ os' => go os'
               end.

Definition r_if (b : bool) (r : reason) : list reason := if b then [r] else [].

Definition eq_reasons (v : value) (C : list lookup) : list reason :=
  r_if (negb (forallb (eq_compat_c v) C)) R_EQ ++
  r_if (is_arr v && existsb has_nested_arr C) R_ARR_OPERAND.

Fixpoint g_matches (f : filter) (d : value) {struct f} : list reason :=
  match f with
  | FEnd => []
  | FAnd c f' => g_clause c d ++ g_matches f' d
  end

with g_clause (c : clause) (d : value) {struct c} : list reason :=
  match c with
  | CComment => []
  | CLogic k falsy arg => r_if falsy R_NOT_FRAGMENT ++ g_largs arg d
  | CField key s => g_search key s d
  | _ => [R_NOT_FRAGMENT]
  end

with g_largs (a : largs) (d : value) {struct a} : list reason :=
  match a with
  | LBad => [R_NOT_FRAGMENT]
  | LNil => []
  | LCons q qs =>
      match q with LqBad => [R_NOT_FRAGMENT] | LqF f => g_matches f d end ++ g_largs qs d
  end

with g_search (key : string) (s : search) (d : value) {struct s} : list reason :=
  let parts := split_dots key in
  let C := candidates parts d in
  let de := dead_end parts d in
  r_if (negb (path_modelled parts) || (key =? "") || ends_empty parts) R_NOT_FRAGMENT ++
  match s with
  | SVal v =>
      eq_reasons v C ++
      r_if (is_doc v) R_EQ ++
      r_if (null_sensitive_val v && (de =? 1)%Z) R_NULL_DEADEND ++
      r_if (null_sensitive_val v && (de =? 2)%Z) R_UNDECIDED
  | SOps os =>
      r_if ((Nat.ltb 1 (fops_len os)) && (Nat.ltb 1 (List.length C))) R_MULTI ++
      r_if ((Nat.ltb 1 (fops_len os)) && match C with [] => true | _ => false end
            && fops_has_exists_false os) R_EXISTS_FALSE ++
      r_if ((Nat.ltb 1 (fops_len os)) && fops_has_all os && existsb all_unmodelled_cand C)
           R_NOT_FRAGMENT ++
      g_fops os key C de d
  | SMixed => [R_NOT_FRAGMENT]
  end

with g_fops (os : fops) (key : string) (C : list lookup) (de : Z) (d : value) {struct os}
  : list reason :=
  match os with
  | FNil => []
  | FCons o os' => g_fop o key C de d ++ g_fops os' key C de d
  end

with g_fop (o : fop) (key : string) (C : list lookup) (de : Z) (d : value) {struct o}
  : list reason :=
  match o with
  | OEq v | ONe v =>
      eq_reasons v C ++ r_if (is_doc v) R_EQ ++
      r_if (null_sensitive_val v && (de =? 1)%Z) R_NULL_DEADEND ++
      r_if (null_sensitive_val v && (de =? 2)%Z) R_UNDECIDED
  | OCmp _ v =>
      r_if (negb (is_scalar_operand v)) R_NOT_FRAGMENT ++
      r_if (has_aware v || existsb (fun c => match c with Some x => has_aware x | None => false end) C)
           R_EQ
  | OIn (VArr l) | ONin (VArr l) =>
      flat_map (fun v => eq_reasons v C) l ++
      r_if (existsb is_arr l) R_ARR_OPERAND ++
      r_if (existsb is_doc l) R_EQ ++
      r_if (existsb null_sensitive_val l && (de =? 1)%Z) R_NULL_DEADEND ++
      r_if (existsb null_sensitive_val l && (de =? 2)%Z) R_UNDECIDED
  | OIn _ | ONin _ => [R_NOT_FRAGMENT]
  | OExists v =>
      r_if (negb (truthy v) && some_present C
            && existsb (fun c => match c with None => true | _ => false end) C) R_EXISTS_FALSE ++
      (* a falsy operand other than False/0 on a path without candidates: the
         `search == {'$exists': False}` shortcut does not fire and the clause fails *)
      r_if (negb (truthy v) && negb (py_eq v (VBool false))
            && match C with [] => true | _ => false end) R_EXISTS_FALSE
  | OType (VStr name) =>
      match type_pred name with Some (Some _) => [] | _ => [R_NOT_FRAGMENT] end
  | OType _ => [R_NOT_FRAGMENT]
  | OSize v =>
      r_if (match v with VInt _ => false | _ => true end) R_NOT_FRAGMENT ++
      r_if (existsb (fun c => match c with
                              | Some (VArr _) | None => false
                              | Some _ => true end) C) R_SIZE
  | OAll AllBad => [R_NOT_FRAGMENT]
  | OAll (AllItems items) =>
      match items with ANil => [R_UNDECIDED] | _ => [] end ++
      r_if (Nat.ltb 1 (List.length C)) R_MULTI ++
      g_allitems items C
  | OElemMatch q =>
      flat_map (fun xs => g_emq q xs) (arrays_of C)
  | ONot bad s =>
      r_if bad R_NOT_FRAGMENT ++ r_if (match C with [] => true | _ => false end) R_NOT_NOCAND
      ++ g_search key s d
  | OUnknown _ | OUnmodelled => [R_NOT_FRAGMENT]
  end

with g_emq (q : emq) (xs : list value) {struct q} : list reason :=
  match q with
  | EmBad => [R_NOT_FRAGMENT]
  | EmQ f s =>
      match s with
      | SOps _ => r_if (negb (emq_falls_back f)) R_NOT_FRAGMENT ++
                  flat_map (fun x => g_search "field" s (VDoc [("field", x)])) xs
      | SMixed => [R_NOT_FRAGMENT]
      | SVal _ => flat_map (fun x => g_matches f x) xs
      end
  end

with g_allitems (items : allitems) (C : list lookup) {struct items} : list reason :=
  match items with
  | ANil => []
  | ACons i items' =>
      match i with
      | AVal v => eq_reasons v C ++ r_if (is_doc v) R_EQ ++ r_if (is_arr v) R_ARR_OPERAND
                  ++ r_if (null_sensitive_val v) R_NOT_FRAGMENT
      | AElem q => [R_ALL_ELEM]
      end ++ g_allitems items' C
  end.



Definition guard_reasons (f : filter) (d : value) : list reason := g_matches f d.
Definition reason_mask (rs : list reason) : Z :=
  fold_right (fun r acc => Z.lor (reason_code r) acc) 0 rs.
Definition G01 (f : filter) (d : value) : bool :=
  match guard_reasons f d with [] => true | _ => false end.

(* reasons that are findings (the statement decides, the code deviates) vs the rest *)
Definition is_finding (r : reason) : bool :=
  match r with R_UNDECIDED | R_NOT_FRAGMENT => false | _ => true end.
(* the statement decides this (filter, document) pair *)
Definition decided (f : filter) (d : value) : bool :=
  forallb is_finding (guard_reasons f d).
