(* Specification of aggregation pipelines, written from the statement of C03 and the MongoDB
   manual (not from the code): a pipeline is the left-to-right composition of its stages,
   each stage a function on a stream of documents.  Definitions only.
   A stream carries a flag "ordered": $group leaves the order of its output open, and a
   later stage that depends on the order of such a stream is not decided (PUndef). *)
From Coq Require Import ZArith List String Bool Ascii.
From Verif Require Import Value PyEq BsonOrder Path Update Filter FilterSpec FilterGuard Cursor
     ProjectSpec Expr ExprSpec Pipeline.
Import ListNotations.
Open Scope Z_scope.
Open Scope string_scope.
Open Scope list_scope.

Record stream := mkStream { s_docs : list value; s_ord : bool; s_sets : list string }.

Inductive pres : Type :=
| PV (s : stream)
| PErr
| PUndef.

Definition pbind (r : pres) (f : stream -> pres) : pres :=
  match r with PV s => f s | other => other end.

(* ---------- helpers *)
Definition no_sets (s : stream) : bool := match s_sets s with [] => true | _ => false end.

Fixpoint all_opt {A} (l : list (option A)) : option (list A) :=
  match l with
  | [] => Some []
  | Some x :: l' => match all_opt l' with Some r => Some (x :: r) | None => None end
  | None :: _ => None
  end.

Definition key_of (r : sres) : option value :=
  match r with SV v => Some v | SMiss => Some VNull | _ => None end.

(* ---------- $match: exactly the documents the MongoDB matching rules select (C01) *)
Definition spec_match_doc (f : value) (d : value) : option bool :=
  let ast := parse_filter f in
  if decided ast d then Some (spec_matches ast d) else None.

Definition spec_match (f : value) (s : stream) : pres :=
  match f with
  | VDoc _ =>
      match all_opt (map (spec_match_doc (patch f)) (map patch (s_docs s))) with
      | Some bs => PV (mkStream (map fst (List.filter snd (combine (s_docs s) bs))) (s_ord s) (s_sets s))
      | None => PUndef
      end
  | _ => PErr
  end.

(* ---------- $sort *)
Definition sort_spec_of (fs : list (string * value)) : option (list (string * Z)) :=
  all_opt (map (fun kv => match snd kv with
                          | VInt 1 => Some (fst kv, 1)
                          | VInt (-1) => Some (fst kv, -1)
                          | _ => None
                          end) fs).

(* no two documents tie under the sort specification *)
Fixpoint strict_sorted (spec : list (string * Z)) (l : list value) : bool :=
  match l with
  | [] => true
  | d :: l' => forallb (fun d' => match lex_cmp spec d d' with
                                  | Some Eq | None => false
                                  | _ => true end) l' && strict_sorted spec l'
  end.

Definition spec_sort_stage (o : value) (s : stream) : pres :=
  match o with
  | VDoc [] => PErr
  | VDoc fs =>
      match sort_spec_of fs with
      | None => PUndef
      | Some spec =>
          if existsb (fun k => mem_str k (s_sets s)) (map fst fs) then PUndef else
          match spec_sort spec (s_docs s) with
          | Some l => PV (mkStream l (s_ord s || strict_sorted spec l) (s_sets s))
          | None => PUndef
          end
      end
  | _ => PErr
  end.

(* ---------- $skip / $limit / $count *)
Definition spec_skip (o : value) (s : stream) : pres :=
  match o with
  | VInt n => if n <?? 0 then PErr
              else if negb (s_ord s) && negb (n =?? 0) && (n <?? Z.of_nat (List.length (s_docs s))) then PUndef
              else PV (mkStream (skipn (Z.to_nat n) (s_docs s)) (s_ord s) (s_sets s))
  | _ => PUndef
  end.

Definition spec_limit (o : value) (s : stream) : pres :=
  match o with
  | VInt n => if Z.leb n 0 then PErr
              else if negb (s_ord s) && (n <?? Z.of_nat (List.length (s_docs s))) then PUndef
              else PV (mkStream (firstn (Z.to_nat n) (s_docs s)) (s_ord s) (s_sets s))
  | _ => PUndef
  end.

Definition spec_count (o : value) (s : stream) : pres :=
  match o with
  | VStr name =>
      if (name =? "") || starts_dollar name || (1 <?? Z.of_nat (List.length (split_dots name))) then PErr
      else match s_docs s with
           | [] => PV (mkStream [] true [])
           | l => PV (mkStream [VDoc [(name, VInt (Z.of_nat (List.length l)))]] true [])
           end
  | _ => PErr
  end.

(* ---------- $project (inclusion / exclusion, computed fields in inclusion mode) *)
Definition is_flag_value (v : value) : bool :=
  match v with VInt 0 | VInt 1 | VBool _ => true | _ => false end.

Definition spec_project_doc (fs : list (string * value)) (d : value) : option value :=
  let flags := List.filter (fun kv => is_flag_value (snd kv)) fs in
  let computed := List.filter (fun kv => negb (is_flag_value (snd kv)) && negb (fst kv =? "_id")) fs in
  if existsb (fun kv => negb (plain_name (fst kv))) computed then None else
  if existsb (fun kv => match snd kv with VInt _ | VDbl _ | VNull => true | _ => false end) computed then None else
  match computed with
  | [] => project_spec d (VDoc fs)
  | _ =>
      (* inclusion mode: the included paths, _id unless switched off, then the computed fields *)
      if existsb (fun kv => negb (truthy (snd kv)) && negb (fst kv =? "_id")) flags then None else
      let id_on := match assoc "_id" fs with
                   | Some v => if is_flag_value v then Some (truthy v) else None
                   | None => Some true end in
      match id_on, d with
      | Some idb, VDoc dfs =>
          let paths := map (fun kv => split_dots (fst kv)) (List.filter (fun kv => negb (fst kv =? "_id")) flags) in
          if collide (paths ++ map (fun kv => [fst kv]) computed) then None else
          if existsb (fun p => existsb (fun c => (c =? "") || (c =? "$")) p) paths then None else
          match include (S (depth d)) paths d with
          | VDoc bfs =>
              let base := del_key "_id" bfs in
              let base := if idb then match assoc "_id" dfs with
                                      | Some i => ("_id", i) :: base | None => base end
                          else base in
              (fix go (cs : list (string * value)) (acc : list (string * value)) : option value :=
                 match cs with
                 | [] => Some (VDoc acc)
                 | (k, e) :: cs' =>
                     match seval [] d e with
                     | SV v => go cs' (set_key k v acc)
                     | SMiss => go cs' acc
                     | _ => None
                     end
                 end) computed base
          | _ => None
          end
      | _, _ => None
      end
  end.

Definition spec_project (o : value) (s : stream) : pres :=
  match o with
  | VDoc [] => PErr
  | VDoc fs =>
      if existsb (fun k => mem_str k (s_sets s)) (map fst fs) then PUndef else
      match spec_project_doc fs (VDoc []), all_opt (map (spec_project_doc fs) (s_docs s)) with
      | Some _, Some l => PV (mkStream l (s_ord s) (s_sets s))
      | _, _ => PUndef
      end
  | _ => PErr
  end.

(* ---------- $addFields / $set, $replaceRoot: each document rewritten independently *)
Definition spec_add_fields_doc (fs : list (string * value)) (d : value) : option value :=
  match d with
  | VDoc dfs =>
      (fix go (cs : list (string * value)) (acc : list (string * value)) : option value :=
         match cs with
         | [] => Some (VDoc acc)
         | (k, e) :: cs' =>
             if negb (plain_name k) then None else
             match seval [] d e with
             | SV v => go cs' (set_key k v acc)
             | SMiss => go cs' acc
             | _ => None
             end
         end) fs dfs
  | _ => None
  end.

Definition spec_add_fields (o : value) (s : stream) : pres :=
  match o with
  | VDoc [] => PErr
  | VDoc fs =>
      if existsb (fun k => mem_str k (s_sets s)) (map fst fs) then PUndef else
      match spec_add_fields_doc fs (VDoc []), all_opt (map (spec_add_fields_doc fs) (s_docs s)) with
      | Some _, Some l => PV (mkStream l (s_ord s) (s_sets s))
      | _, _ => PUndef
      end
  | _ => PErr
  end.

Definition spec_replace_root (o : value) (s : stream) : pres :=
  match o with
  | VDoc [("newRoot", e)] =>
      let rs := map (fun d => seval [] d e) (s_docs s) in
      if existsb is_sundef rs then PUndef
      else if forallb (fun r => match r with SV (VDoc _) => true | _ => false end) rs
      then PV (mkStream (flat_map (fun r => match r with SV v => [v] | _ => [] end) rs) (s_ord s) [])
      else PErr
  | VDoc _ => PUndef
  | _ => PErr
  end.

(* ---------- $unwind: one document per array element *)
Fixpoint plain_get (parts : list string) (d : value) : option (option value) :=   (* None = undecided *)
  match parts with
  | [] => Some (Some d)
  | p :: rest =>
      match d with
      | VDoc fs => match assoc p fs with Some v => plain_get rest v | None => Some None end
      | VArr _ => None
      | _ => Some None
      end
  end.

Fixpoint plain_set (parts : list string) (v : option value) (d : value) : value :=  (* None = remove *)
  match parts, d with
  | [p], VDoc fs => VDoc (match v with Some x => set_key p x fs | None => del_key p fs end)
  | p :: rest, VDoc fs =>
      match assoc p fs with
      | Some sub => VDoc (set_key p (plain_set rest v sub) fs)
      | None => d
      end
  | _, _ => d
  end.

Definition spec_unwind_doc (parts : list string) (preserve : bool) (idx : option (list string)) (d : value)
  : option (list value) :=
  let with_idx := fun (i : value) (x : value) =>
    match idx with
    | Some n => plain_set n (Some i) x
    | None => x
    end in
  (* a dotted index name is decided only when its parent is an existing sub-document *)
  if match idx with
     | Some n => match plain_get (removelast n) d with
                 | Some (Some (VDoc _)) => false
                 | _ => true end
     | None => false end then None else
  match plain_get parts d with
  | None => None
  | Some None | Some (Some VNull) =>
      if preserve then match idx with Some _ => None | None => Some [d] end else Some []
  | Some (Some (VArr [])) =>
      if preserve then match idx with Some _ => None | None => Some [plain_set parts None d] end else Some []
  | Some (Some (VArr xs)) =>
      Some (map (fun ix => with_idx (VInt (Z.of_nat (fst ix))) (plain_set parts (Some (snd ix)) d))
                (combine (List.seq 0 (List.length xs)) xs))
  | Some (Some _) => Some [with_idx VNull d]
  end.

Definition spec_unwind (o : value) (s : stream) : pres :=
  let opts := match o with VDoc fs => fs | _ => [("path", o)] end in
  if negb (forallb (fun kv => mem_str (fst kv) ["path"; "preserveNullAndEmptyArrays"; "includeArrayIndex"]) opts)
  then PErr else
  match assoc "path" opts with
  | Some (VStr (String "$" rest)) =>
      let parts := split_dots rest in
      if existsb (fun p => (p =? "") || starts_dollar p) parts then PUndef else
      if existsb (fun k => mem_str k (s_sets s)) (firstn 1 parts) then PUndef else
      match (match assoc "preserveNullAndEmptyArrays" opts with
             | None => Some false | Some (VBool b) => Some b | Some _ => None end),
            (match assoc "includeArrayIndex" opts with
             | None => Some None
             | Some (VStr n) =>
                 if forallb plain_name (split_dots n)
                    && negb (is_prefix_of (split_dots n) parts || is_prefix_of parts (split_dots n))
                 then Some (Some (split_dots n)) else None
             | Some _ => None end) with
      | Some preserve, Some idx =>
          match all_opt (map (spec_unwind_doc parts preserve idx) (s_docs s)) with
          | Some ls => PV (mkStream (List.concat ls) (s_ord s) (s_sets s))
          | None => PUndef
          end
      | _, _ => PUndef
      end
  | Some _ | None => PErr
  end.

(* ---------- $group: partition by key value, fold each part *)
Fixpoint classes (keyed : list (value * value)) (acc : list (value * list value))
  : list (value * list value) :=
  match keyed with
  | [] => acc
  | (k, d) :: rest =>
      classes rest
        (if existsb (fun c => bson_eq (fst c) k) acc
         then map (fun c => if bson_eq (fst c) k then (fst c, snd c ++ [d]) else c) acc
         else acc ++ [(k, [d])])
  end.

Definition spec_accumulate (op : string) (e : value) (ordered : bool) (group : list value)
  : option value :=
  let rs := map (fun d => seval [] d e) group in
  if existsb is_sundef rs || existsb is_serr rs then None else
  let present := flat_map (fun r => match r with SV v => [v] | _ => [] end) rs in
  if (op =? "$sum") || (op =? "$avg") || (op =? "$min") || (op =? "$max") then
    match sfold op present with SV v => Some v | _ => None end
  else if (op =? "$first") || (op =? "$last") then
    if negb ordered && (1 <?? Z.of_nat (List.length group)) then None else
    match (if op =? "$first" then rs else rev rs) with
    | r :: _ => key_of r
    | [] => None
    end
  else if op =? "$push" then
    if negb ordered && (1 <?? Z.of_nat (List.length present)) then None else Some (VArr present)
  else if op =? "$addToSet" then Some (VArr (dedup_bson present))
  else None.

Definition spec_group (o : value) (s : stream) : pres :=
  match o with
  | VDoc fs =>
      match assoc "_id" fs with
      | None => PErr
      | Some ide =>
          if negb (no_sets s) then PUndef else
          let accs := del_key "_id" fs in
          if existsb (fun kv => negb (plain_name (fst kv))) accs then PUndef else
          match all_opt (map (fun d => key_of (seval [] d ide)) (s_docs s)) with
          | None => PUndef
          | Some keys =>
              let cls := classes (combine keys (s_docs s)) [] in
              let out :=
                map (fun c =>
                       (fix go (l : list (string * value)) (acc : list (string * value)) : option value :=
                          match l with
                          | [] => Some (VDoc acc)
                          | (f, VDoc [(op, e)]) :: l' =>
                              match spec_accumulate op e (s_ord s) (snd c) with
                              | Some v => go l' (acc ++ [(f, v)])
                              | None => None
                              end
                          | _ :: _ => None
                          end) accs [("_id", fst c)]) cls in
              match all_opt out with
              | Some l =>
                  PV (mkStream l (Z.of_nat (List.length l) <?? 2)
                               (flat_map (fun kv => match snd kv with
                                                    | VDoc [("$addToSet", _)] => [fst kv]
                                                    | _ => [] end) accs))
              | None => PUndef
              end
          end
      end
  | _ => PErr
  end.

(* ---------- $lookup: the foreign documents whose join field equals the local one *)
Definition spec_lookup (db : dbmap) (o : value) (s : stream) : pres :=
  match o with
  | VDoc ofs =>
      match assoc "from" ofs, assoc "localField" ofs, assoc "foreignField" ofs, assoc "as" ofs with
      | Some (VStr from), Some (VStr lf), Some (VStr ff), Some (VStr asn) =>
          if negb (Nat.eqb (List.length ofs) 4) then PUndef else
          if negb (plain_name asn) || starts_dollar lf || starts_dollar ff || (lf =? "") || (ff =? "") then PUndef else
          if negb (no_sets s) then PUndef else
          let foreign := match assoc from db with Some ds => ds | None => [] end in
          let one := fun d =>
            match d with
            | VDoc fs =>
                match plain_get (split_dots lf) d with
                | None => None
                | Some lv =>
                    let q := match lv with
                             | Some (VArr xs) => VDoc [("$in", VArr xs)]
                             | Some (VDoc _) => VDoc [("$eq", match lv with Some v => v | None => VNull end)]
                             | Some v => v
                             | None => VNull end in
                    match all_opt (map (spec_match_doc (patch (VDoc [(ff, q)]))) (map patch foreign)) with
                    | Some bs => Some (VDoc (set_key asn (VArr (map fst (List.filter snd (combine foreign bs)))) fs))
                    | None => None
                    end
                end
            | _ => None
            end in
          match all_opt (map one (s_docs s)) with
          | Some l => PV (mkStream l (s_ord s) [])
          | None => PUndef
          end
      | _, _, _, _ => PUndef
      end
  | _ => PErr
  end.

(* ---------- the composition *)
Fixpoint spec_stage (db : dbmap) (op : string) (o : value) (s : stream) {struct o} : pres :=
  if op =? "$match" then spec_match o s
  else if op =? "$sort" then spec_sort_stage o s
  else if op =? "$skip" then spec_skip o s
  else if op =? "$limit" then spec_limit o s
  else if op =? "$count" then spec_count o s
  else if op =? "$project" then spec_project o s
  else if (op =? "$addFields") || (op =? "$set") then spec_add_fields o s
  else if op =? "$replaceRoot" then spec_replace_root o s
  else if op =? "$unwind" then spec_unwind o s
  else if op =? "$group" then spec_group o s
  else if op =? "$lookup" then spec_lookup db o s
  else if op =? "$facet" then
    match o with
    | VDoc subs =>
        if negb (nodup_str (map fst subs)) then PUndef else
        let outs :=
          (fix facets (subs : list (string * value)) : list (string * pres) :=
             match subs with
             | [] => []
             | (title, p) :: subs' =>
                 (title,
                  match p with
                  | VArr stages =>
                      (fix stages_go (stages : list value) (cur : pres) : pres :=
                         match stages with
                         | [] => cur
                         | VDoc [(sop, sopt)] :: stages' =>
                             stages_go stages' (pbind cur (spec_stage db sop sopt))
                         | _ :: _ => PUndef
                         end) stages (PV s)
                  | _ => PErr
                  end) :: facets subs'
             end) subs in
        if existsb (fun tp => match snd tp with PUndef => true | _ => false end) outs then PUndef
        else if existsb (fun tp => match snd tp with PErr => true | _ => false end) outs then PErr
        else if existsb (fun tp => match snd tp with
                                   | PV st => negb (s_ord st) && (1 <?? Z.of_nat (List.length (s_docs st)))
                                              || negb (match s_sets st with [] => true | _ => false end)
                                   | _ => false end) outs then PUndef
        else PV (mkStream [VDoc (map (fun tp => (fst tp, match snd tp with
                                                         | PV st => VArr (s_docs st)
                                                         | _ => VNull end)) outs)] true [])
    | _ => PErr
    end
  else PUndef.

Fixpoint spec_pipeline (db : dbmap) (stages : list value) (cur : pres) : pres :=
  match stages with
  | [] => cur
  | VDoc [(op, o)] :: stages' => spec_pipeline db stages' (pbind cur (spec_stage db op o))
  | _ :: _ => PUndef
  end.

Definition spec_aggregate (db : dbmap) (docs : list value) (pipeline : value) : pres :=
  match pipeline with
  | VArr stages => spec_pipeline db stages (PV (mkStream docs true []))
  | _ => PUndef
  end.

(* ---------- comparing an observed result with the specified one *)
(* documents up to the order of their top-level keys, values by BSON equality; the fields
   listed in `sets` are arrays compared as sets *)
Definition set_eq (a b : list value) : bool :=
  forallb (fun x => existsb (bson_eq x) b) a && forallb (fun x => existsb (bson_eq x) a) b
  && Nat.eqb (List.length a) (List.length b).

(* BSON equality up to the order of keys at every level (the statement does not speak
   of key order) *)
Fixpoint uequiv (a b : value) {struct a} : bool :=
  match a, b with
  | VDoc fs, VDoc gs =>
      Nat.eqb (List.length fs) (List.length gs) &&
      (fix go (fs : list (string * value)) : bool :=
         match fs with
         | [] => true
         | (k, v) :: fs' => match assoc k gs with
                            | Some w => uequiv v w && go fs'
                            | None => false
                            end
         end) fs
  | VArr xs, VArr ys =>
      (fix go (xs ys : list value) : bool :=
         match xs, ys with
         | [], [] => true
         | x :: xs', y :: ys' => uequiv x y && go xs' ys'
         | _, _ => false
         end) xs ys
  | _, _ => bson_eq a b
  end.

Definition set_equ (a b : list value) : bool :=
  forallb (fun x => existsb (uequiv x) b) a && forallb (fun x => existsb (fun y => uequiv y x) a) b
  && Nat.eqb (List.length a) (List.length b).

Definition doc_equiv (sets : list string) (a b : value) : bool :=
  match a, b with
  | VDoc fs, VDoc gs =>
      Nat.eqb (List.length fs) (List.length gs) &&
      forallb (fun kv => match assoc (fst kv) gs with
                         | Some w =>
                             if mem_str (fst kv) sets then
                               match snd kv, w with
                               | VArr xs, VArr ys => set_equ xs ys
                               | _, _ => false
                               end
                             else uequiv (snd kv) w
                         | None => false end) fs
  | _, _ => uequiv a b
  end.

Fixpoint remove_first (p : value -> bool) (l : list value) : option (list value) :=
  match l with
  | [] => None
  | x :: l' => if p x then Some l' else option_map (cons x) (remove_first p l')
  end.

Fixpoint bag_equiv (sets : list string) (a b : list value) : bool :=
  match a with
  | [] => match b with [] => true | _ => false end
  | x :: a' => match remove_first (doc_equiv sets x) b with
               | Some b' => bag_equiv sets a' b'
               | None => false
               end
  end.

Definition stream_agrees (s : stream) (l : list value) : bool :=
  if s_ord s then list_eqb (doc_equiv (s_sets s)) (s_docs s) l
  else bag_equiv (s_sets s) (s_docs s) l.

(* Some true = the observation is what the specification says; None = not decided *)
Definition agrees (p : pres) (i : res (list value)) : option bool :=
  match p, i with
  | PUndef, _ => None
  | _, Err EUnmodelled => None
  | PErr, Err _ => Some true
  | PErr, Ok _ => Some false
  | PV _, Err _ => Some false
  | PV s, Ok l => Some (stream_agrees s l)
  end.
