(* C19: replay of an observed schedule of the real RWLock on the model.  Definitions only. *)
From Coq Require Import List NArith ZArith Bool.
From Verif.Gen Require Import LockProg.
From Verif Require Import Lock.
Import ListNotations.
Open Scope N_scope.

Inductive ev := EvAcq (l : nat) | EvRel (l : nat) | EvLeave.

Definition ev_eqb (a b : ev) : bool :=
  match a, b with
  | EvAcq x, EvAcq y | EvRel x, EvRel y => Nat.eqb x y
  | EvLeave, EvLeave => true
  | _, _ => false
  end.

(* the instruction thread i is about to execute; None = idle *)
Definition cur_instr (i : nat) (s : st) : option (option instr) :=
  let d := nth_n (th s) i in
  if d =? 0 then None
  else if d <=? LR then Some (nth (N.to_nat (d - 1)) reader_prog None)
  else Some (nth (N.to_nat (d - 1 - LR)) writer_prog None).

(* the visible event of an instruction in the current state, if any *)
Definition event_of (ins : option instr) (s : st) : option ev :=
  match ins with
  | None => Some EvLeave
  | Some (Acq l) => Some (EvAcq l)
  | Some (Rel l) => Some (EvRel l)
  | Some (IfEq c n (Acq l)) => if nth_n (ct s) c =? N.of_nat n then Some (EvAcq l) else None
  | Some (IfEq c n (Rel l)) => if nth_n (ct s) c =? N.of_nat n then Some (EvRel l) else None
  | Some _ => None
  end.

Definition micro (i : nat) (s : st) : outcome :=
  match thread_steps i s with
  | o :: _ => o
  | [] => Error
  end.

(* run the invisible instructions (counter updates, untaken conditionals) of thread i *)
Fixpoint silent_run (fuel : nat) (i : nat) (s : st) : st :=
  match fuel with
  | O => s
  | S f =>
      match cur_instr i s with
      | None => s
      | Some ins =>
          match event_of ins s with
          | Some _ => s
          | None => match micro i s with Next s' => silent_run f i s' | _ => s end
          end
      end
  end.

Definition start (i : nat) (writer : bool) (s : st) : st :=
  if nth_n (th s) i =? 0 then set_thread s i (if writer then 1 + LR else 1) else s.

Record c19_step := mkStep {
  s_tid : nat; s_writer : bool; s_ev : ev; s_blocked : list (nat * bool)
}.

(* replay; None = the model disagrees with the observed schedule *)
Fixpoint replay (steps : list c19_step) (s : st) : option st :=
  match steps with
  | [] => Some s
  | x :: rest =>
      let s0 := silent_run 8 (s_tid x) (start (s_tid x) (s_writer x) s) in
      (* every thread the implementation saw blocked is blocked in the model *)
      let blocked_ok :=
        forallb (fun bw =>
          let sb := silent_run 8 (fst bw) (start (fst bw) (snd bw) s) in
          match cur_instr (fst bw) sb with
          | Some ins => match event_of ins sb, micro (fst bw) sb with
                        | Some (EvAcq _), Blocked => true
                        | _, _ => false
                        end
          | None => false
          end) (s_blocked x) in
      match cur_instr (s_tid x) s0 with
      | Some ins =>
          match event_of ins s0, micro (s_tid x) s0 with
          | Some e, Next s1 =>
              if ev_eqb e (s_ev x) && blocked_ok && mutex_ok s1
              then replay rest (silent_run 8 (s_tid x) s1) else None
          | _, _ => None
          end
      | None => None
      end
  end.

Record c19_case := mkCase {
  c_n : nat; c_steps : list c19_step; c_locks : list N; c_counters : list N; c_impl_ok : bool
}.

Fixpoint leqb (x y : list N) : bool :=
  match x, y with
  | [], [] => true
  | u :: x', v :: y' => (u =? v) && leqb x' y'
  | _, _ => false
  end.

(* bit 0: model and implementation disagree; bit 1: the implementation broke the property
   (exclusion violated, lock error, deadlock) on this schedule *)
Definition replay_ok (c : c19_case) : bool :=
  match replay (c_steps c) (init (c_n c)) with
  | Some s => leqb (lk s) (c_locks c) && leqb (ct s) (c_counters c)
              && forallb (fun d => d =? 0) (th s)
  | None => false
  end.
Definition c19_check (c : c19_case) : Z :=
  ((if replay_ok c then 0 else 1) + (if c_impl_ok c then 0 else 2))%Z.
