(* Guard of the C03 theorem: the regions of (pipeline, documents) on which the library is
   known to deviate from the specification.  c03_reasons = 0 is the hypothesis of
   Properties/C03.v.  The guard follows the pipeline stage by stage on the MODEL's
   intermediate results and tests, per stage:
     1  = F-MATCH-C01       a $match filter (or the equality filter $lookup builds) falls in a
                            known finding of the query matcher on some document (C01's guard)
     2  = F-AGG-EXPR        an expression the stage evaluates falls in a known finding of the
                            expression evaluator on some document (C04's guard)
     4  = F-GROUP-PYEQ      $group compares keys (and $addToSet its values) with Python ==:
                            some key / value holds a bool or a sub-document
     8  = F-GROUP-FIRST-MISSING  $first/$last skip the documents in which the expression is
                            missing instead of answering null for them
     16 = F-PROJECT-ID-FIRST a $project that lists a truthy _id before the excluded fields is
                            read as an inclusion and rejected
     32 = F-MATCH-NONDOC-EMPTY  a $match whose filter is not a document is only rejected when a
                            document reaches it: on an empty input it answers [] (Refuted/C03.v)
     64 = F-SORT-EMPTY-SPEC    {$sort: {}} is accepted as "no sort" instead of being rejected
     128 = F-SORT-EMPTY-COMPONENT  a $sort key whose last dotted component is empty ("" or "a."):
                            the documents are ordered by the whole parent (the finding of C11)
     256 = F-UNWIND-OPTION     a $unwind option document with a name other than path,
                            preserveNullAndEmptyArrays, includeArrayIndex is accepted
     512 = F-PROJECT-FALSY-COMPUTED  a $project field whose value is an expression that Python
                            reads as false ("", [], {}, null): the library takes it for an
                            exclusion flag - "Bad projection" after an included field, or an
                            exclusion-mode answer without _id - where the field is computed
                            (Refuted/C03.v, 5)
     1024 = F-LOOKUP-OPERATOR-VALUE  the local value of a $lookup is a sub-document with a key
                            that starts with "$": the library puts it into the equality filter
                            as it is, so it is run as an operator query ({a: {$gt: 1}} joins
                            every foreign document with a field > 1) where the statement
                            compares it as a value (Refuted/C03.v, 6)
     2048 = F-GROUP-KEY-OBJECTID  two documents of a $group input have a key holding an ObjectId:
                            the library sorts the keys before grouping and its ObjectId has no
                            ordering, so the stage raises TypeError (Refuted/C03.v, 7) *)
From Coq Require Import ZArith List String Bool Ascii.
From Verif Require Import Value PyEq BsonOrder Path Update Filter FilterSpec FilterGuard Coll
     Expr ExprSpec ExprGuard Pipeline PipelineSpec.
Import ListNotations.
Open Scope Z_scope.
Open Scope string_scope.
Open Scope list_scope.

Definition zb (b : bool) (bit : Z) : Z := if b then bit else 0.

Definition filter_finding (f : value) (d : value) : bool :=
  match f with
  | VDoc _ => negb (match guard_reasons (parse_filter (patch f)) (patch d) with [] => true | _ => false end)
              && decided (parse_filter (patch f)) (patch d)
  | _ => false
  end.

Definition expr_finding (e : value) (l : list value) : bool :=
  existsb (fun d => negb (Z.eqb (c04_reasons e d) 0)) l.

Definition key_of_model (e : value) (d : value) : option value :=
  match eval [] d true e with EV v => Some v | EMiss => Some VNull | EE _ => None end.

(* an ObjectId, or an array holding one *)
Fixpoint has_oid (v : value) : bool :=
  match v with
  | VOid _ => true
  | VArr xs => (fix go (xs : list value) : bool :=
                  match xs with [] => false | x :: xs' => has_oid x || go xs' end) xs
  | _ => false
  end.

Definition stage_reasons (db : dbmap) (op : string) (o : value) (l : list value) : Z :=
  if op =? "$match" then
    Z.lor (zb (existsb (filter_finding o) l) 1)
          (zb (match o with VDoc _ => false | _ => match l with [] => true | _ => false end end) 32)
  else if op =? "$sort" then
    match o with
    | VDoc [] => 64
    | VDoc fs => zb (existsb (fun kv => ends_empty (split_dots (fst kv))) fs) 128
    | _ => 0
    end
  else if op =? "$unwind" then
    match o with
    | VDoc fs => zb (negb (forallb (fun kv => mem_str (fst kv)
                                     ["path"; "preserveNullAndEmptyArrays"; "includeArrayIndex"]) fs)) 256
    | _ => 0
    end
  else if (op =? "$addFields") || (op =? "$set") then
    match o with
    | VDoc fs => zb (existsb (fun kv => expr_finding (snd kv) l) fs) 2
    | _ => 0
    end
  else if op =? "$project" then
    match o with
    | VDoc fs =>
        Z.lor (zb (existsb (fun kv => negb (is_flag (snd kv)) && expr_finding (snd kv) l) fs) 2)
       (Z.lor (zb (match fs with
                   | ("_id", v) :: rest => truthy v && existsb (fun kv => is_flag (snd kv) && negb (truthy (snd kv))) rest
                   | _ => false
                   end) 16)
              (zb (existsb (fun kv => negb (is_flag (snd kv)) && negb (truthy (snd kv))) fs) 512))
    | _ => 0
    end
  else if op =? "$replaceRoot" then
    match o with
    | VDoc [("newRoot", e)] => zb (expr_finding e l) 2
    | _ => 0
    end
  else if op =? "$group" then
    match o with
    | VDoc fs =>
        match assoc "_id" fs with
        | None => 0
        | Some ide =>
            let accs := del_key "_id" fs in
            Z.lor (zb (expr_finding ide l) 2)
           (Z.lor (zb (negb (is_null ide) &&
                       (1 <?? Z.of_nat (List.length (List.filter (fun d => match key_of_model ide d with
                                                                           | Some k => has_oid k | None => false end) l)))) 2048)
           (Z.lor (zb (existsb (fun d => match key_of_model ide d with
                                         | Some k => negb (plain k) | None => false end) l) 4)
           (Z.lor (zb (existsb (fun kv => match snd kv with
                                          | VDoc ops => existsb (fun oe => expr_finding (snd oe) l) ops
                                          | _ => false end) accs) 2)
           (Z.lor (zb (existsb (fun kv => match snd kv with
                                          | VDoc ops =>
                                              existsb (fun oe => (fst oe =? "$addToSet")
                                                                 && existsb (fun d => match eval [] d true (snd oe) with
                                                                                      | EV v => negb (plain v)
                                                                                      | _ => false end) l) ops
                                          | _ => false end) accs) 4)
                  (zb (existsb (fun kv => match snd kv with
                                          | VDoc ops =>
                                              existsb (fun oe => ((fst oe =? "$first") || (fst oe =? "$last"))
                                                                 && existsb (fun d => match eval [] d true (snd oe) with
                                                                                      | EMiss => true
                                                                                      | _ => false end) l) ops
                                          | _ => false end) accs) 8)))))
        end
    | _ => 0
    end
  else if op =? "$lookup" then
    match o with
    | VDoc ofs =>
        match assoc "from" ofs, assoc "localField" ofs, assoc "foreignField" ofs with
        | Some (VStr from), Some (VStr lf), Some (VStr ff) =>
            let foreign := match assoc from db with Some ds => ds | None => [] end in
            Z.lor
           (zb (existsb (fun d =>
                           let q := match get_by_dot (split_dots lf) d with Some v => v | None => VNull end in
                           let q' := match q with VArr _ => VDoc [("$in", q)] | _ => q end in
                           existsb (filter_finding (VDoc [(ff, q')])) foreign) l) 1)
           (zb (existsb (fun d => match get_by_dot (split_dots lf) d with
                                  | Some (VDoc x) => any_dollar x
                                  | _ => false end) l) 1024)
        | _, _, _ => 0
        end
    | _ => 0
    end
  else 0.

(* the reasons of a stage, then those of the rest of the pipeline on the model's output *)
Fixpoint pipe_reasons (db : dbmap) (o : value) (op : string) (l : list value) {struct o} : Z :=
  if op =? "$facet" then
    match o with
    | VDoc subs =>
        (fix facets (subs : list (string * value)) : Z :=
           match subs with
           | [] => 0
           | (_, p) :: subs' =>
               Z.lor
                 (match p with
                  | VArr stages =>
                      (fix stages_go (stages : list value) (cur : list value) : Z :=
                         match stages with
                         | [] => 0
                         | VDoc [(sop, sopt)] :: stages' =>
                             Z.lor (pipe_reasons db sopt sop cur)
                                   (match run_stage db sop sopt cur with
                                    | Ok cur' => stages_go stages' cur'
                                    | Err _ => 0
                                    end)
                         | _ :: _ => 0
                         end) stages l
                  | _ => 0
                  end)
                 (facets subs')
           end) subs
    | _ => 0
    end
  else stage_reasons db op o l.

Fixpoint pipeline_reasons (db : dbmap) (stages : list value) (cur : list value) : Z :=
  match stages with
  | [] => 0
  | VDoc [(op, o)] :: stages' =>
      Z.lor (pipe_reasons db o op cur)
            (match run_stage db op o cur with
             | Ok cur' => pipeline_reasons db stages' cur'
             | Err _ => 0
             end)
  | _ :: _ => 0
  end.

Definition c03_reasons (db : dbmap) (docs : list value) (pipeline : value) : Z :=
  match pipeline with
  | VArr stages => pipeline_reasons db stages docs
  | _ => 0
  end.
