(* Guards of the history properties: reason masks (0 = inside the guard).  Each bit is a
   known finding or a class the statement/model does not decide; see KNOWN_FINDINGS.json and
   DESIGN.md.  Definitions only. *)
From Coq Require Import ZArith List String Bool.
From Verif Require Import Value PyEq BsonOrder Path Filter FilterSpec FilterGuard Update Project Coll HistCheck HistProps.
Import ListNotations.
Open Scope Z_scope.

Definition c05_reasons (ops : list op) (os : list obs) : Z := 0.
(* C06 reasons: 1 = F-MULTIKEY (an indexed field of a unique index holds or traverses an
   array), 2 = F-IDX-DEADEND (an indexed dotted path ends in a scalar parent: the matcher-based
   duplicate check produces no candidate there, C01 F-NULL-DEADEND), 4 = undecided (dead end
   through an array), 8 = F-SPARSE-NULL (sparse index and an explicitly null field) *)
Definition c06_doc_reasons (info : value) (d : value) : Z :=
  fold_right Z.lor 0
    (flat_map (fun ni =>
       let i := snd ni in
       if idx_flag "unique" i then
         map (fun p =>
                let parts := split_dots p in
                let C := candidates parts d in
                (if existsb (fun c => match c with Some (VArr _) => true | _ => false end) C
                    || Nat.ltb 1 (List.length C) then 1 else 0)
                + (if dead_end parts d =? 1 then 2 else 0)
                + (if dead_end parts d =? 2 then 4 else 0)
                + (if idx_flag "sparse" i
                      && existsb (fun c => match c with Some VNull => true | _ => false end) C
                   then 8 else 0)) (idx_keys i)
       else []) (index_specs info)).

Definition c06_reasons (ops : list op) (os : list obs) : Z :=
  fold_right Z.lor 0
    (map (fun ob => match ob with
                    | (_, s, info) => fold_right Z.lor 0 (map (fun kd => c06_doc_reasons info (snd kd)) s)
                    end) os).
(* C08 reasons: 1 = F-FAM-AFTER-PROJ (find_one_and_* with a projection: the returned image
   is projected after the write was applied, and a projection error is raised then) *)
Definition c08_reasons (ops : list op) (os : list obs) : Z :=
  if existsb (fun o => match o with
                       | OFindAndModify _ (Some _) _ _ => true
                       | _ => false end) ops then 1 else 0.
Definition c09_reasons (ops : list op) (os : list obs) : Z := 0.
Definition c10_reasons (ops : list op) (os : list obs) : Z := 0.
Definition c13_reasons (ops : list op) (os : list obs) : Z := 0.
Definition c14_reasons (ops : list op) (os : list obs) : Z := 0.
Definition c15_reasons (ops : list op) (os : list obs) : Z := 0.
