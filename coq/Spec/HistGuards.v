(* Guards of the history properties: reason masks (0 = inside the guard).  Each bit is a
   known finding or a class the statement/model does not decide; see KNOWN_FINDINGS.json and
   DESIGN.md.  Definitions only. *)
From Coq Require Import ZArith List String Bool.
From Verif Require Import Value PyEq BsonOrder Path Filter FilterSpec FilterGuard Update Project Coll HistCheck HistProps.
Import ListNotations.
Open Scope Z_scope.

(* C05 reasons (found by the proof of Properties/C05.v; each class has a checked counterexample
   in Refuted/C05.v):
   1 = F-ID-SUBMS: an _id (a store key, or the explicit _id of an insert_one) containing a
       datetime that patch_datetime_awareness changes (sub-millisecond precision, or aware): the
       store is keyed by the UNPATCHED _id while the stored document carries the truncated
       one, so two ids equal after truncation coexist
   2 = an _id that is not a well-formed value (a sub-document with a repeated field name:
       not a Python dict; model artefact, == is not reflexive on it)
   4 = F-ID-RETYPE: a stored document whose _id is == (Python) to the id it is stored under
       but not identical to it: update/replace compare the old and new _id with ==, so
       1 -> 1.0 -> True and a sub-document _id with reordered keys pass as "unchanged"
       (replace_one({_id: 1.0}, ...) on {_id: 1} also rewrites the _id from the filter)
   8 = F-ID-BOOL-NUM: a lookup {_id: v} for which a stored id is == (Python) to v but not
       BSON-equal (True/1/1.0): the matcher returns that document
   16 = the history creates a TTL index: any operation may then expire documents on the way,
       which the insert/update clauses of C05 (exact counts, untouched store on a rejected
       insert, positional preservation) do not account for; see C09
   32 = insert_one with an explicit _id outside the model's store keys (aware datetime, or an
       array inside a sub-document _id): the model answers EUnmodelled *)
Definition c05_reasons (ops : list op) (os : list obs) : Z :=
  let key_reasons (k : value) : Z :=
    Z.lor (if value_eqb (patch k) k then 0 else 1) (if wf_value k then 0 else 2) in
  let entry_reasons (kd : value * value) : Z :=
    Z.lor (key_reasons (fst kd))
          (match doc_id (snd kd) with
           | Some i => if py_eq (patch (fst kd)) i && negb (value_eqb i (patch (fst kd)))
                       then 4 else 0
           | None => 0
           end) in
  let step_reasons (oo : op * obs) : Z :=
    let '(o, (_, s, _)) := oo in
    Z.lor (fold_right Z.lor 0 (map entry_reasons s))
          (match o with
           | OInsertOne (VDoc fs) =>
               match assoc "_id" fs with
               | Some i => Z.lor (key_reasons i)
                                 (if negb (id_modelled i) && negb (is_arr i) then 32 else 0)
               | None => 0
               end
           | OFind (VDoc [("_id", v)]) None [] 0 0 =>
               if scalar_id v
                  && existsb (fun kd => py_eq (patch (fst kd)) (patch v)
                                        && negb (bson_eq (patch (fst kd)) (patch v))) s
               then 8 else 0
           | OCreateIndex _ _ _ (Some t) _ _ => if is_null t then 0 else 16
           | _ => 0
           end) in
  fold_right Z.lor 0 (map step_reasons (combine ops os)).
(* C06 reasons: 1 = F-MULTIKEY (an indexed field of a unique index holds or traverses an
   array), 2 = F-IDX-DEADEND (an indexed dotted path ends in a scalar parent: the matcher-based
   duplicate check produces no candidate there, C01 F-NULL-DEADEND), 4 = undecided (dead end
   through an array), 8 = F-SPARSE-NULL (sparse index and an explicitly null field) *)
Definition c06_doc_reasons (info : value) (d : value) : Z :=
  fold_right Z.lor 0
    (flat_map (fun ni =>
       let i := snd ni in
       if idx_flag "unique" i then
         map (fun p =>
                let parts := split_dots p in
                let C := candidates parts d in
                (if existsb (fun c => match c with Some (VArr _) => true | _ => false end) C
                    || Nat.ltb 1 (List.length C) then 1 else 0)
                + (if dead_end parts d =? 1 then 2 else 0)
                + (if dead_end parts d =? 2 then 4 else 0)
                + (if idx_flag "sparse" i
                      && existsb (fun c => match c with Some VNull => true | _ => false end) C
                   then 8 else 0)) (idx_keys i)
       else []) (index_specs info)).

Definition c06_reasons (ops : list op) (os : list obs) : Z :=
  fold_right Z.lor 0
    (map (fun ob => match ob with
                    | (_, s, info) => fold_right Z.lor 0 (map (fun kd => c06_doc_reasons info (snd kd)) s)
                    end) os).
(* C08 reasons: 1 = F-FAM-AFTER-PROJ (find_one_and_* with a projection: the returned image
   is projected after the write was applied, and a projection error is raised then).
   The next bits were added by the proof of C08_history (Refuted/C08.v has a checked
   counterexample for each); they are evaluated per step on the index information and
   store observed BEFORE the step:
   2 = F-TTL-FAILED-WRITE: a single-document write fails while a TTL index
       (expireAfterSeconds) exists, and either a stored document is expired at the current
       clock (expiry runs lazily at the start of the write and inside the unique checks, so
       the expired documents are removed although the write fails), or the write is of the
       update kind, fails with DuplicateKeyError and a unique index exists (the new image may
       itself be expired: the unique check then purges it and the rollback re-appends the old
       document at the END of the store).
   4 = F-UPDATE-NO-ROLLBACK: a single-document update / replace / find_one_and_update|replace
       fails with an error other than DuplicateKeyError while a unique index exists.
       Collection._update stores the new image, then runs the unique checks, and rolls back
       only on DuplicateKeyError: any other exception of the check (an operator document
       stored as an indexed value, a partialFilterExpression the matcher rejects, ...)
       leaves the new image in the store.
   8 = F-FAM-AFTER-FIND: a find_one_and_update|replace with return_document=AFTER fails.
       The document is re-read after the write and the error of that read is raised
       (for instance an upserted _id that is an operator document).
   16 = not a Python value: some stored _id is not == to itself; in the model only a value
       with a duplicate key inside a sub-document is, and no Python dict can hold one. *)
Fixpoint c08_trace_any (p : ctx -> op -> obs -> bool) (x : ctx) (ops : list op) (os : list obs)
  : bool :=
  match ops, os with
  | o :: ops', (r, s, i) :: os' =>
      p x o (r, s, i) ||
      c08_trace_any p (mkCtx s i (match o with OSetClock t => t | _ => x_now x end)) ops' os'
  | _, _ => false
  end.

Definition c08_info_any (p : value -> bool) (info : value) : bool :=
  match info with VDoc fs => existsb (fun ni => p (snd ni)) fs | _ => false end.
Definition c08_has_ttl (info : value) : bool :=
  c08_info_any (fun i => match get_field "expireAfterSeconds" i with
                         | Some _ => true | None => false end) info.
Definition c08_has_unique (info : value) : bool := c08_info_any (idx_flag "unique") info.

Definition c08_update_kind (o : op) : bool :=
  match o with
  | OReplace _ _ _ | OUpdate _ _ false _
  | OFindAndModify _ _ _ (FamUpdate _ _ _) | OFindAndModify _ _ _ (FamReplace _ _ _) => true
  | _ => false
  end.

(* is document d expired at the clock [now] under the index described by the entry i of
   index_information (single-field TTL index with a numeric expireAfterSeconds) *)
Definition c08_doc_expired (now : Z) (i : value) (d : value) : bool :=
  match get_field "expireAfterSeconds" i, idx_keys i with
  | Some s, [field] =>
      match ttl_seconds s with
      | Ok (Some n) => doc_expired now (field, n) d
      | _ => false
      end
  | _, _ => false
  end.
Definition c08_any_expired (x : ctx) : bool :=
  c08_info_any (fun i => existsb (fun kd => c08_doc_expired (x_now x) i (snd kd)) (x_store x))
               (x_idx x).

Definition c08_ttl_step (x : ctx) (o : op) (ob : obs) : bool :=
  let '(r, _, _) := ob in
  match r with
  | Err e =>
      single_doc_write o && c08_has_ttl (x_idx x)
      && (c08_any_expired x
          || (c08_update_kind o && err_eqb e EDup && c08_has_unique (x_idx x)))
  | Ok _ => false
  end.
Definition c08_norollback_step (x : ctx) (o : op) (ob : obs) : bool :=
  let '(r, _, _) := ob in
  match r with
  | Err e => c08_update_kind o && negb (err_eqb e EDup) && c08_has_unique (x_idx x)
  | Ok _ => false
  end.
Definition c08_after_step (x : ctx) (o : op) (ob : obs) : bool :=
  let '(r, _, _) := ob in
  match o, r with
  | OFindAndModify _ _ _ (FamUpdate _ _ true), Err _
  | OFindAndModify _ _ _ (FamReplace _ _ true), Err _ => true
  | _, _ => false
  end.
Definition c08_bad_key (os : list obs) : bool :=
  existsb (fun ob => let '(_, s, _) := ob in
                     existsb (fun kd => negb (py_eq (fst kd) (fst kd))) s) os.

Definition c08_reasons (ops : list op) (os : list obs) : Z :=
  (if existsb (fun o => match o with
                        | OFindAndModify _ (Some _) _ _ => true
                        | _ => false end) ops then 1 else 0)
  + (if c08_trace_any c08_ttl_step ctx0 ops os then 2 else 0)
  + (if c08_trace_any c08_norollback_step ctx0 ops os then 4 else 0)
  + (if c08_trace_any c08_after_step ctx0 ops os then 8 else 0)
  + (if c08_bad_key os then 16 else 0).
Definition c09_reasons (ops : list op) (os : list obs) : Z := 0.

(* ---- shared by the C10 and C14 guards: does the operation create a TTL index; all the
   (key, document) entries of all the observed stores *)
Definition c14_ttl_arg (ttl : option value) : bool :=
  match ttl with Some VNull => false | Some _ => true | None => false end.
Definition c14_ttl_op (o : op) : bool :=
  match o with OCreateIndex _ _ _ ttl _ _ => c14_ttl_arg ttl | _ => false end.
Definition obs_entries (os : list obs) : list (value * value) :=
  flat_map (fun ob : obs => snd (fst ob)) os.
(* C10 reasons:
   1 = a TTL index is created in the history: documents expired at the start of an
       operation are counted by the size / positional comparison but not by the operation
       (see Refuted/C10.v);
   2 = a stored key or document that is not == to itself (a repeated field name in some
       sub-document: not a Python dict; model-only artefact): `modified` is decided with ==,
       so rewriting such a document with identical content counts as a modification *)
Definition c10_entry_refl (kd : value * value) : bool :=
  py_eq (fst kd) (fst kd) && py_eq (snd kd) (snd kd).
Definition c10_reasons (ops : list op) (os : list obs) : Z :=
  (if existsb c14_ttl_op ops then 1 else 0)
  + (if existsb (fun kd => negb (c10_entry_refl kd)) (obs_entries os) then 2 else 0).
(* C13 reasons, evaluated at every upsert step (update/replace with upsert=true) from the
   observation just before it and its own outcome:
   1 = a TTL index exists: the operation first removes the expired documents, so "something
       matches the store as it was" and "no insertion" come apart (TTL semantics, not a defect);
   2 = a store key that is not == to itself (only a sub-document _id with duplicate keys, which
       is not a Python dict: a model artefact: store_set then appends instead of replacing);
   4 = the upsert stored a document under _id None (via {$set: {_id: None}} on a filter whose
       _id condition is an operator document): upserted_id None reads as "no upsert" and
       matched_count is then 1;
   8 = the upserted _id is a datetime with sub-millisecond precision or a timezone
       ($currentDate on _id): the result carries the original value, the stored document the
       truncated one *)
Definition c13_reasons (ops : list op) (os : list obs) : Z :=
  (fix go (ops : list op) (os : list obs) (before : list (value * value)) (info : value) : Z :=
     match ops, os with
     | o :: ops', (r, after, info') :: os' =>
         Z.lor
           (if match o with OUpdate _ _ _ true | OReplace _ _ true => true | _ => false end then
              (if match info with
                  | VDoc fs => existsb (fun ni => match get_field "expireAfterSeconds" (snd ni) with
                                                  | Some _ => true | None => false end) fs
                  | _ => false end then 1 else 0)
              + (if forallb (fun kd => py_eq (fst kd) (fst kd)) before then 0 else 2)
              + (if existsb (fun kd => is_null (fst kd)) after
                    && negb (existsb (fun kd => is_null (fst kd)) before) then 4 else 0)
              + (match r with
                 | Ok v => match get_field "upserted_id" v with
                           | Some u => if value_eqb (patch u) u then 0 else 8
                           | None => 0 end
                 | Err _ => 0 end)
            else 0)
           (go ops' os' after info')
     | _, _ => 0
     end) ops os [] (VDoc []).
(* ---- C14 guard.  Helper predicates on one store entry (key, document) and on operations.
   C14 reasons:
   1 = a TTL index is created in the history (expireAfterSeconds not None): documents expire
       at the start of an operation, which the store comparison sees as changes/removals;
   2 = F-ID-ALIAS, only when the history has a delete_one or a find_one_and_*: some stored
       document's _id is not (structurally) the key it is stored under.  Happens for a
       datetime _id with sub-millisecond precision or a tzinfo (the key is the raw value, the
       document is patched) and for an update that rewrites _id with a ==-equal value
       (1 -> 1.0 -> True).  delete_one / find_one_and_* address the document found by its
       _id, and so may hit ANOTHER document (see Refuted/C14.v);
   4 = a store key that is not == to itself: an _id sub-document with a repeated field name
       (not a Python dict; model-only artefact);
   8 = only when the history has a find_one_and_*: a store key that is an _id sub-document
       with a '$' field (the {_id: id} query of find_one_and_* is then an operator query and
       does not find the target), an array, or a value changed by patch (sub-millisecond or
       aware datetime inside the _id) *)
Definition c14_uses_id (o : op) : bool :=
  match o with ODelete _ false | OFindAndModify _ _ _ _ => true | _ => false end.
Definition c14_is_fam (o : op) : bool :=
  match o with OFindAndModify _ _ _ _ => true | _ => false end.
Definition c14_id_is_key (kd : value * value) : bool :=
  match doc_id (snd kd) with Some i => value_eqb i (fst kd) | None => false end.
Definition c14_key_refl (kd : value * value) : bool := py_eq (fst kd) (fst kd).
Definition c14_key_plain (kd : value * value) : bool :=
  value_eqb (patch (fst kd)) (fst kd) &&
  match fst kd with VDoc fs => negb (any_dollar fs) | VArr _ => false | _ => true end.

Definition c14_reasons (ops : list op) (os : list obs) : Z :=
  (if existsb c14_ttl_op ops then 1 else 0)
  + (if existsb c14_uses_id ops && existsb (fun kd => negb (c14_id_is_key kd)) (obs_entries os)
     then 2 else 0)
  + (if existsb (fun kd => negb (c14_key_refl kd)) (obs_entries os) then 4 else 0)
  + (if existsb c14_is_fam ops && existsb (fun kd => negb (c14_key_plain kd)) (obs_entries os)
     then 8 else 0).
(* C15 reasons: 1 = a bulk_write with a request that fails the registration-time validation
   (an update document that is not a non-empty operator document): the bulk raises before
   executing anything, whereas the requests issued one at a time execute up to the bad one *)
Definition c15_reasons (ops : list op) (os : list obs) : Z :=
  if existsb (fun o => match o with
                       | OBulk rs _ => existsb (fun r => match bulk_valid r with
                                                         | Ok _ => false
                                                         | Err _ => true end) rs
                       | _ => false end) ops then 1 else 0.

