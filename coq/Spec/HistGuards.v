(* Guards of the history properties: reason masks (0 = inside the guard).  Each bit is a
   known finding or a class the statement/model does not decide; see KNOWN_FINDINGS.json and
   DESIGN.md.  Definitions only. *)
From Coq Require Import ZArith List String Bool.
From Verif Require Import Value PyEq BsonOrder Path Filter FilterSpec FilterGuard Update Project Coll HistCheck HistProps.
Import ListNotations.
Open Scope Z_scope.

(* C05 reasons (found by the proof of Properties/C05.v; each class has a checked counterexample
   in Refuted/C05.v):
   (Bit 1 - F-ID-SUBMS - is gone entirely.  Its first half - a store key not stable under patch,
       two ids equal after truncation coexisting - was repaired in the library; "every store
       key is stable under patch" is proved as a state invariant.  Its second half - an
       insert_one that SUCCEEDS with an explicit _id that patch_datetime_awareness changes
       reports the normalised _id - is what the predicate now asks for: c05_step compares
       inserted_id with patch i.)
   2 = an _id that is not a well-formed value (a sub-document with a repeated field name:
       not a Python dict; model artefact, == is not reflexive on it)
   4 = F-ID-RETYPE: a stored document whose _id is == (Python) to the id it is stored under
       but not identical to it: update/replace compare the old and new _id with ==, so
       1 -> 1.0 -> True and a sub-document _id with reordered keys pass as "unchanged"
       (replace_one({_id: 1.0}, ...) on {_id: 1} also rewrites the _id from the filter)
   8 = F-ID-BOOL-NUM: a lookup {_id: v} for which a stored id is == (Python) to v but not
       BSON-equal (True/1/1.0): the matcher returns that document
   16 = the history creates a TTL index: any operation may then expire documents on the way,
       which the insert/update clauses of C05 (exact counts, untouched store on a rejected
       insert, positional preservation) do not account for; see C09
   (Bit 32 - insert_one with an explicit _id outside the model's store keys - is gone: an
   aware datetime _id is now normalised before it is used as a key, and an _id with an array
   inside a sub-document is rejected without touching the store, which is all the predicate
   asks since no stored key can be BSON-equal to it.) *)
Definition c05_reasons (ops : list op) (os : list obs) : Z :=
  let wf_reason (k : value) : Z := if wf_value k then 0 else 2 in
  let entry_reasons (kd : value * value) : Z :=
    Z.lor (wf_reason (fst kd))
          (match doc_id (snd kd) with
           | Some i => if py_eq (patch (fst kd)) i && negb (value_eqb i (patch (fst kd)))
                       then 4 else 0
           | None => 0
           end) in
  let step_reasons (oo : op * obs) : Z :=
    let '(o, (r, s, _)) := oo in
    Z.lor (fold_right Z.lor 0 (map entry_reasons s))
          (match o with
           | OInsertOne (VDoc fs) =>
               match assoc "_id" fs with
               | Some i => wf_reason i
               | None => 0
               end
           | OFind (VDoc [("_id", v)]) None [] 0 0 =>
               if scalar_id v
                  && existsb (fun kd => py_eq (patch (fst kd)) (patch v)
                                        && negb (bson_eq (patch (fst kd)) (patch v))) s
               then 8 else 0
           | OCreateIndex _ _ _ (Some t) _ _ => if is_null t then 0 else 16
           | _ => 0
           end) in
  fold_right Z.lor 0 (map step_reasons (combine ops os)).
(* C06 reasons: 1 = F-MULTIKEY (an indexed field of a unique index holds or traverses an
   array), 2 = F-IDX-DEADEND (an indexed dotted path ends in a scalar parent: the matcher-based
   duplicate check produces no candidate there, C01 F-NULL-DEADEND), 4 = undecided (dead end
   through an array), 8 = F-SPARSE-NULL (sparse index and an explicitly null field).
   The next bits were added by the proof of C06_history (Refuted/C06.v has a checked
   counterexample for each class):
   16 = F-MULTIKEY, the case bit 1 misses: a non-numeric component of an indexed path steps
       through an array holding a single sub-document ({a: [{b: 1}]} under a unique index on
       "a.b": one candidate, not an array).  The duplicate check reads the new document with
       get_value_by_dot, which raises KeyError there, and queries for null.
   32 = the indexed path of a unique index ends with an empty component ("a." or ""):
       iter_key_candidates then yields the parent document itself, so the re-query never
       matches the value stored under the field named "".
   64 = the value of an indexed field of a unique index is a sub-document with a field name
       starting with '$' at its top level: the duplicate check re-queries with {field: value},
       and the value is then read as an operator expression ({a: {$gt: 1}} twice) or rejected
       as a mix of operators and fields.  The bit also covers a model-only class: a
       sub-document value that is not a well-formed value (a repeated field name somewhere
       inside: not a Python dict, not == to itself; checked counterexample), and a class
       without a known counterexample: a value that is or contains a timezone-aware datetime
       (stored documents are normalised to naive ones; == separates naive and aware datetimes
       that BSON equality identifies).
   128 = a unique index exists and some store key (_id) is not a well-formed value: a
       sub-document with a repeated field name (model-only artefact, not a Python dict).  It is
       not == to itself, so the rollback `del store[_id]` of a rejected insert finds nothing
       to delete.
   256 = some step of the history answers EUnmodelled: the model state is not meaningful
       from there on (Collection._update keeps the new image in the store when the uniqueness
       check raises anything but DuplicateKeyError, and the model does the same for its own
       "unmodelled" outcome). *)
Fixpoint c06_arr_traverse (parts : list string) (doc : value) {struct parts} : bool :=
  match parts with
  | [] => false
  | p :: rest =>
      match doc with
      | VDoc fs => match assoc p fs with Some v => c06_arr_traverse rest v | None => false end
      | VArr xs =>
          match as_index p with
          | Some i => match nth_z xs i with Some sub => c06_arr_traverse rest sub | None => false end
          | None => true
          end
      | _ => false
      end
  end.

(* index key values the duplicate check handles faithfully (arrays: see bit 1) *)
Definition c06_value_ok (v : value) : bool :=
  match v with
  | VArr _ => false
  | VDate _ (Some _) => false
  | VDoc fs => wf_value v && negb (has_aware v) && negb (any_dollar fs)
  | _ => true
  end.

Definition c06_path_reasons (sparse : bool) (p : string) (d : value) : Z :=
  let parts := split_dots p in
  let C := candidates parts d in
  (if existsb (fun c => match c with Some (VArr _) => true | _ => false end) C
      || Nat.ltb 1 (List.length C) then 1 else 0)
  + (if dead_end parts d =? 1 then 2 else 0)
  + (if dead_end parts d =? 2 then 4 else 0)
  + (if sparse
        && existsb (fun c => match c with Some VNull => true | _ => false end) C
     then 8 else 0)
  + (if c06_arr_traverse parts d then 16 else 0)
  + (if ends_empty parts then 32 else 0)
  + (if existsb (fun c => match c with
                          | Some (VArr _) | None => false
                          | Some v => negb (c06_value_ok v)
                          end) C then 64 else 0).

Definition c06_doc_reasons (info : value) (d : value) : Z :=
  fold_right Z.lor 0
    (flat_map (fun ni =>
       let i := snd ni in
       if idx_flag "unique" i then
         map (fun p => c06_path_reasons (idx_flag "sparse" i) p d) (idx_keys i)
       else []) (index_specs info)).

Definition c06_key_reasons (info : value) (s : list (value * value)) : Z :=
  if existsb (fun ni => idx_flag "unique" (snd ni)) (index_specs info)
     && existsb (fun kd => negb (wf_value (fst kd))) s
  then 128 else 0.

Definition c06_obs_reasons (ob : obs) : Z :=
  match ob with
  | (r, s, info) =>
      Z.lor (fold_right Z.lor 0 (map (fun kd => c06_doc_reasons info (snd kd)) s))
            (Z.lor (c06_key_reasons info s)
                   (match r with Err EUnmodelled => 256 | _ => 0 end))
  end.

Definition c06_reasons (ops : list op) (os : list obs) : Z :=
  fold_right Z.lor 0 (map c06_obs_reasons os).
(* C08 reasons: 1 = F-FAM-AFTER-PROJ (find_one_and_* with a projection: the returned image
   is projected after the write was applied, and a projection error is raised then).
   The next bits were added by the proof of C08_history (Refuted/C08.v has a checked
   counterexample for each); they are evaluated per step on the index information and
   store observed BEFORE the step:
   2 = F-TTL-FAILED-WRITE: a single-document write fails while a TTL index
       (expireAfterSeconds) exists, and either a stored document is expired at the current
       clock (expiry runs lazily at the start of the write and inside the unique checks, so
       the expired documents are removed although the write fails), or the write is of the
       update kind and a unique index exists (the new image may itself be expired: the unique
       check then purges it and the rollback re-appends the old document at the END of the
       store).  Since the library rolls back on every exception of the unique check (and no
       longer on DuplicateKeyError only) this second class is no longer restricted to
       DuplicateKeyError.
   4 = model-undecided (was F-UPDATE-NO-ROLLBACK, repaired in the library: Collection._update
       now rolls the stored image back whenever the unique check raises, and this is proved
       for every error the model decides): a single-document update / replace /
       find_one_and_update|replace whose outcome is EUnmodelled while a unique index exists.
       When the unique check itself leaves the model (e.g. a partialFilterExpression with an
       operator the matcher does not model) the model keeps the new image in its store; its
       state is meaningless from there on.  Never set on a trace of the implementation.
   8 = F-FAM-AFTER-FIND: a find_one_and_update|replace with return_document=AFTER fails.
       The document is re-read after the write and the error of that read is raised
       (for instance an upserted _id that is an operator document).
   16 = not a Python value: some stored _id is not == to itself; in the model only a value
       with a duplicate key inside a sub-document is, and no Python dict can hold one. *)
Fixpoint c08_trace_any (p : ctx -> op -> obs -> bool) (x : ctx) (ops : list op) (os : list obs)
  : bool :=
  match ops, os with
  | o :: ops', (r, s, i) :: os' =>
      p x o (r, s, i) ||
      c08_trace_any p (mkCtx s i (match o with OSetClock t => t | _ => x_now x end)) ops' os'
  | _, _ => false
  end.

Definition c08_info_any (p : value -> bool) (info : value) : bool :=
  match info with VDoc fs => existsb (fun ni => p (snd ni)) fs | _ => false end.
Definition c08_has_ttl (info : value) : bool :=
  c08_info_any (fun i => match get_field "expireAfterSeconds" i with
                         | Some _ => true | None => false end) info.
Definition c08_has_unique (info : value) : bool := c08_info_any (idx_flag "unique") info.

Definition c08_update_kind (o : op) : bool :=
  match o with
  | OReplace _ _ _ | OUpdate _ _ false _
  | OFindAndModify _ _ _ (FamUpdate _ _ _) | OFindAndModify _ _ _ (FamReplace _ _ _) => true
  | _ => false
  end.

(* is document d expired at the clock [now] under the index described by the entry i of
   index_information (single-field TTL index with a numeric expireAfterSeconds) *)
Definition c08_doc_expired (now : Z) (i : value) (d : value) : bool :=
  match get_field "expireAfterSeconds" i, idx_keys i with
  | Some s, [field] =>
      match ttl_seconds s with
      | Ok (Some n) => doc_expired now (field, n) d
      | _ => false
      end
  | _, _ => false
  end.
Definition c08_any_expired (x : ctx) : bool :=
  c08_info_any (fun i => existsb (fun kd => c08_doc_expired (x_now x) i (snd kd)) (x_store x))
               (x_idx x).

Definition c08_ttl_step (x : ctx) (o : op) (ob : obs) : bool :=
  let '(r, _, _) := ob in
  match r with
  | Err e =>
      single_doc_write o && c08_has_ttl (x_idx x)
      && (c08_any_expired x
          || (c08_update_kind o && c08_has_unique (x_idx x)))
  | Ok _ => false
  end.
Definition c08_norollback_step (x : ctx) (o : op) (ob : obs) : bool :=
  let '(r, _, _) := ob in
  match r with
  | Err e => c08_update_kind o && err_eqb e EUnmodelled && c08_has_unique (x_idx x)
  | Ok _ => false
  end.
Definition c08_after_step (x : ctx) (o : op) (ob : obs) : bool :=
  let '(r, _, _) := ob in
  match o, r with
  | OFindAndModify _ _ _ (FamUpdate _ _ true), Err _
  | OFindAndModify _ _ _ (FamReplace _ _ true), Err _ => true
  | _, _ => false
  end.
Definition c08_bad_key (os : list obs) : bool :=
  existsb (fun ob => let '(_, s, _) := ob in
                     existsb (fun kd => negb (py_eq (fst kd) (fst kd))) s) os.

Definition c08_reasons (ops : list op) (os : list obs) : Z :=
  (if existsb (fun o => match o with
                        | OFindAndModify _ (Some _) _ _ => true
                        | _ => false end) ops then 1 else 0)
  + (if c08_trace_any c08_ttl_step ctx0 ops os then 2 else 0)
  + (if c08_trace_any c08_norollback_step ctx0 ops os then 4 else 0)
  + (if c08_trace_any c08_after_step ctx0 ops os then 8 else 0)
  + (if c08_bad_key os then 16 else 0).
(* C09 reasons (found by the proof of Properties/C09.v; Refuted/C09.v has a checked
   counterexample for bits 1, 2, 4).  Bits 2, 4, 8 are evaluated per step on the index
   information, store and clock observed BEFORE the step, and only matter while some TTL spec
   is active (ttl_specs of that index information is not empty):
   1 = an index is created under the name "_id_" (name="_id_", or the generated name of the key
       [("_id", "")]): index_information() shows it under the key of the built-in _id index,
       which the property skips, so a TTL index of that name expires documents unseen;
   2 = F-TTL-REWRITE: while a TTL spec is active, an update_one / update_many / replace_one
       that upserts, or under which some stored document would get an expired image (the image
       of every stored document under the update is computed with the model's apply_update),
       or a find_one_and_update|replace, or a bulk_write with an update/replace request.
       The new image of a rewritten document may itself be expired: it stays in the store
       until the next access although the operation read (and purged) the store; with a unique
       index the uniqueness check purges it during the operation, so a document whose OLD
       image was alive disappears.  An upsert may likewise store an expired document.  (The
       find_one_and_*, bulk and upsert cases are excluded wholesale: conservative);
   4 = F-TTL-INSERT-EXPIRED: an insert_one / insert_many / bulk insert of a document that is
       already expired: it is stored and only removed by the next access; re-inserting the same
       _id then succeeds and leaves an expired document under a key that existed before;
   8 = a bulk_write with a delete request that reports write errors while a TTL spec is active.
       No counterexample is known: the bit is conservative (the proof does not establish that the matcher never
       raises a WriteError, which a failing delete request would turn into a captured error of a
       batch that then has not read the store). *)
Definition c09_idname_step (x : ctx) (o : op) (ob : obs) : bool :=
  match o with
  | OCreateIndex key _ _ _ _ name =>
      String.eqb (match name with Some n => n | None => gen_index_name key end) "_id_"
  | _ => false
  end.
Definition c09_ttl_active (x : ctx) : bool :=
  match ttl_specs (x_idx x) with [] => false | _ => true end.
Definition c09_bulk_rewrites (rs : list bulk_req) : bool :=
  existsb (fun r => match r with BUpdate _ _ _ _ | BReplace _ _ _ => true | _ => false end) rs.
Definition c09_rewrites (o : op) : bool :=
  match o with
  | OUpdate _ _ _ _ | OReplace _ _ _
  | OFindAndModify _ _ _ (FamUpdate _ _ _) | OFindAndModify _ _ _ (FamReplace _ _ _) => true
  | OBulk rs _ => c09_bulk_rewrites rs
  | _ => false
  end.
Definition c09_bulk_inserted (rs : list bulk_req) : list value :=
  flat_map (fun r => match r with BInsert d => [d] | _ => [] end) rs.
Definition c09_inserted (o : op) : list value :=
  match o with
  | OInsertOne d => [d]
  | OInsertMany ds _ => ds
  | OBulk rs _ => c09_bulk_inserted rs
  | _ => []
  end.
Definition c09_image_expired (x : ctx) (f u : value) : bool :=
  existsb (fun kd => match apply_update (patch f) (patch u) false (x_now x) (snd kd) with
                     | Ok d' => expired_any (x_now x) (x_idx x) d'
                     | Err _ => false
                     end) (x_store x).
Definition c09_rewrite_step (x : ctx) (o : op) (ob : obs) : bool :=
  c09_ttl_active x &&
  match o with
  | OUpdate f u _ upsert | OReplace f u upsert => upsert || c09_image_expired x f u
  | _ => c09_rewrites o
  end.
Definition c09_insert_step (x : ctx) (o : op) (ob : obs) : bool :=
  existsb (fun d => expired_any (x_now x) (x_idx x) (patch d)) (c09_inserted o).
Definition c09_bulk_err_step (x : ctx) (o : op) (ob : obs) : bool :=
  let '(r, _, _) := ob in
  c09_ttl_active x &&
  match o, r with
  | OBulk rs _, Ok v =>
      existsb (fun r => match r with BDelete _ _ => true | _ => false end) rs &&
      match get_field "BulkWriteError" v with Some _ => true | None => false end
  | _, _ => false
  end.

Definition c09_reasons (ops : list op) (os : list obs) : Z :=
  (if c08_trace_any c09_idname_step ctx0 ops os then 1 else 0)
  + (if c08_trace_any c09_rewrite_step ctx0 ops os then 2 else 0)
  + (if c08_trace_any c09_insert_step ctx0 ops os then 4 else 0)
  + (if c08_trace_any c09_bulk_err_step ctx0 ops os then 8 else 0).

(* ---- shared by the C10 and C14 guards: does the operation create a TTL index; all the
   (key, document) entries of all the observed stores *)
Definition c14_ttl_arg (ttl : option value) : bool :=
  match ttl with Some VNull => false | Some _ => true | None => false end.
Definition c14_ttl_op (o : op) : bool :=
  match o with OCreateIndex _ _ _ ttl _ _ => c14_ttl_arg ttl | _ => false end.
Definition obs_entries (os : list obs) : list (value * value) :=
  flat_map (fun ob : obs => snd (fst ob)) os.
(* C10 reasons:
   1 = a TTL index is created in the history: documents expired at the start of an
       operation are counted by the size / positional comparison but not by the operation
       (see Refuted/C10.v);
   2 = a stored key or document that is not == to itself (a repeated field name in some
       sub-document: not a Python dict; model-only artefact): `modified` is decided with ==,
       so rewriting such a document with identical content counts as a modification *)
Definition c10_entry_refl (kd : value * value) : bool :=
  py_eq (fst kd) (fst kd) && py_eq (snd kd) (snd kd).
Definition c10_reasons (ops : list op) (os : list obs) : Z :=
  (if existsb c14_ttl_op ops then 1 else 0)
  + (if existsb (fun kd => negb (c10_entry_refl kd)) (obs_entries os) then 2 else 0).
(* C13 reasons, evaluated at every upsert step (update/replace with upsert=true) from the
   observation just before it and its own outcome:
   1 = a TTL index exists: the operation first removes the expired documents, so "something
       matches the store as it was" and "no insertion" come apart (TTL semantics, not a defect);
   2 = a store key that is not == to itself (only a sub-document _id with duplicate keys, which
       is not a Python dict: a model artefact: store_set then appends instead of replacing);
   4 = the upsert stored a document under _id None (via {$set: {_id: None}} on a filter whose
       _id condition is an operator document): upserted_id None reads as "no upsert" and
       matched_count is then 1.
   (Bit 8 - the upserted _id is a datetime with sub-millisecond precision or a timezone, the
   result carrying the original value and the stored document the truncated one - is gone:
   the library now keys the store by, and returns, the normalised _id.  Bit 16 is used by
   c13_check for the syntactically undecided upserts.)
   32 = F-UPSERT-ID-SUBFIELD (update_one / update_many upserts only): an operator of the update
       addresses a path strictly below "_id" ("_id.x"): the operator rewrites the _id
       the seed took from the filter, so the upserted _id is not the filter's:
       update_one({_id: {a: 1}}, {$set: {"_id.x": 1}}, upsert=True) inserts _id {a: 1, x: 1}
       (the server rejects the update: _id is immutable); see Refuted/C13.v C1;
   64 = F-UPSERT-NULL-ID (update_one / update_many upserts only): the filter binds _id to None:
       the seed's _id None is replaced by a fresh ObjectId, so the upserted document does not
       match the equality-only filter {_id: None, ...} (the server inserts _id None), and
       the same upsert inserts again every time; see Refuted/C13.v C2 *)
Definition c13_id_subfield (u : value) : bool :=
  existsb (fun p => match split_dots p with h :: _ :: _ => String.eqb h "_id" | _ => false end)
          (update_paths u).
Definition c13_null_id_filter (f : value) : bool :=
  match f with
  | VDoc fs => match assoc "_id" fs with Some VNull => true | _ => false end
  | _ => false
  end.
Definition c13_reasons (ops : list op) (os : list obs) : Z :=
  (fix go (ops : list op) (os : list obs) (before : list (value * value)) (info : value) : Z :=
     match ops, os with
     | o :: ops', (r, after, info') :: os' =>
         Z.lor
           (if match o with OUpdate _ _ _ true | OReplace _ _ true => true | _ => false end then
              (if match info with
                  | VDoc fs => existsb (fun ni => match get_field "expireAfterSeconds" (snd ni) with
                                                  | Some _ => true | None => false end) fs
                  | _ => false end then 1 else 0)
              + (if forallb (fun kd => py_eq (fst kd) (fst kd)) before then 0 else 2)
              + (if existsb (fun kd => is_null (fst kd)) after
                    && negb (existsb (fun kd => is_null (fst kd)) before) then 4 else 0)
              + (if match o with OUpdate _ u _ true => c13_id_subfield u | _ => false end
                 then 32 else 0)
              + (if match o with OUpdate f _ _ true => c13_null_id_filter f | _ => false end
                 then 64 else 0)
            else 0)
           (go ops' os' after info')
     | _, _ => 0
     end) ops os [] (VDoc []).
(* ---- C14 guard.  Helper predicates on one store entry (key, document) and on operations.
   C14 reasons:
   1 = a TTL index is created in the history (expireAfterSeconds not None): documents expire
       at the start of an operation, which the store comparison sees as changes/removals;
   2 = F-ID-ALIAS, only when the history has a delete_one or a find_one_and_*: some stored
       document's _id is not (structurally) the key it is stored under.  Happens for an
       update that rewrites _id with a ==-equal value (1 -> 1.0 -> True): delete_one /
       find_one_and_* address the document found by its _id (see Refuted/C14.v).  The other
       source - a datetime _id with sub-millisecond precision or a tzinfo, stored under the
       raw value while the document was patched, so that delete_one could hit ANOTHER
       document - was repaired in the library (the key is the normalised _id); the bit is
       evaluated on the observed store and needs no change for that;
   4 = a store key that is not == to itself: an _id sub-document with a repeated field name
       (not a Python dict; model-only artefact);
   8 = only when the history has a find_one_and_*: a store key that is an _id sub-document
       with a '$' field (the {_id: id} query of find_one_and_* is then an operator query and
       does not find the target), or an array.  (The third class - a key changed by patch:
       a sub-millisecond or aware datetime inside the _id - is gone: the library keys the
       store by the normalised _id, which is proved for the model in Proofs/C14Keys.v.) *)
Definition c14_uses_id (o : op) : bool :=
  match o with ODelete _ false | OFindAndModify _ _ _ _ => true | _ => false end.
Definition c14_is_fam (o : op) : bool :=
  match o with OFindAndModify _ _ _ _ => true | _ => false end.
Definition c14_id_is_key (kd : value * value) : bool :=
  match doc_id (snd kd) with Some i => value_eqb i (fst kd) | None => false end.
Definition c14_key_refl (kd : value * value) : bool := py_eq (fst kd) (fst kd).
Definition c14_key_plain (kd : value * value) : bool :=
  match fst kd with VDoc fs => negb (any_dollar fs) | VArr _ => false | _ => true end.

Definition c14_reasons (ops : list op) (os : list obs) : Z :=
  (if existsb c14_ttl_op ops then 1 else 0)
  + (if existsb c14_uses_id ops && existsb (fun kd => negb (c14_id_is_key kd)) (obs_entries os)
     then 2 else 0)
  + (if existsb (fun kd => negb (c14_key_refl kd)) (obs_entries os) then 4 else 0)
  + (if existsb c14_is_fam ops && existsb (fun kd => negb (c14_key_plain kd)) (obs_entries os)
     then 8 else 0).
(* C15 reasons: 1 = a bulk_write with a request that fails the registration-time validation
   (an update document that is not a non-empty operator document): the bulk raises before
   executing anything, whereas the requests issued one at a time execute up to the bad one *)
Definition c15_reasons (ops : list op) (os : list obs) : Z :=
  if existsb (fun o => match o with
                       | OBulk rs _ => existsb (fun r => match bulk_valid r with
                                                         | Ok _ => false
                                                         | Err _ => true end) rs
                       | _ => false end) ops then 1 else 0.

