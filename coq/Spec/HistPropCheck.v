(* Per-property check functions evaluated by the harness on every observed trace:
   bit 0 model/implementation mismatch, bit 1 property predicate false on the observed trace,
   bit 2 outside the guard, bit 3 outside the model, bits 8.. guard reasons. *)
From Coq Require Import ZArith List String Bool.
From Verif Require Import Value PyEq Coll HistCheck HistProps HistGuards.
Import ListNotations.
Open Scope Z_scope.

Definition flags (h : hist_case) (p : bool) (reasons : Z) : Z :=
  hist_check h + (if p then 0 else 2) + (if reasons =? 0 then 0 else 4) + 256 * reasons.

Definition c05_check (h : hist_case) : Z :=
  flags h (c05_ok (h_ops h) (h_obs h)) (c05_reasons (h_ops h) (h_obs h)).
Definition c06_check (h : hist_case) : Z :=
  flags h (c06_ok (h_ops h) (h_obs h)) (c06_reasons (h_ops h) (h_obs h)).
Definition c08_check (h : hist_case) : Z :=
  flags h (c08_ok (h_ops h) (h_obs h)) (c08_reasons (h_ops h) (h_obs h)).
Definition c09_check (h : hist_case) : Z :=
  flags h (c09_ok (h_ops h) (h_obs h)) (c09_reasons (h_ops h) (h_obs h)).
Definition c10_check (h : hist_case) : Z :=
  flags h (c10_ok (h_ops h) (h_obs h)) (c10_reasons (h_ops h) (h_obs h)).
Definition c13_check (h : hist_case) : Z :=
  flags h (c13_ok (h_ops h) (h_obs h)) (c13_reasons (h_ops h) (h_obs h)).
Definition c14_check (h : hist_case) : Z :=
  flags h (c14_ok (h_ops h) (h_obs h)) (c14_reasons (h_ops h) (h_obs h)).
Definition c15_check (h : hist_case) : Z :=
  flags h (c15_ok (h_pre5 h) (h_ops h) (h_obs h)) (c15_reasons (h_ops h) (h_obs h)).
