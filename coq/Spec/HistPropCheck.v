(* Per-property check functions evaluated by the harness on every observed trace:
   bit 0 model/implementation mismatch, bit 1 property predicate false on the observed trace,
   bit 2 outside the guard, bit 3 outside the model, bits 8.. guard reasons. *)
From Coq Require Import ZArith List String Bool.
From Verif Require Import Value PyEq Path Filter Coll HistCheck HistProps HistGuards.
Import ListNotations.
Open Scope Z_scope.

Definition flags (h : hist_case) (p : bool) (reasons : Z) : Z :=
  hist_check h + (if p then 0 else 2) + (if reasons =? 0 then 0 else 4) + 256 * reasons.

Definition c05_check (h : hist_case) : Z :=
  flags h (c05_ok (h_ops h) (h_obs h)) (c05_reasons (h_ops h) (h_obs h)).
Definition c06_check (h : hist_case) : Z :=
  flags h (c06_ok (h_ops h) (h_obs h)) (c06_reasons (h_ops h) (h_obs h)).
Definition c08_check (h : hist_case) : Z :=
  flags h (c08_ok (h_ops h) (h_obs h)) (c08_reasons (h_ops h) (h_obs h)).
Definition c09_check (h : hist_case) : Z :=
  flags h (c09_ok (h_ops h) (h_obs h)) (c09_reasons (h_ops h) (h_obs h)).
Definition c10_check (h : hist_case) : Z :=
  flags h (c10_ok (h_ops h) (h_obs h)) (c10_reasons (h_ops h) (h_obs h)).
(* upserts for which the last two clauses of the C13 predicate (where the _id comes from; the
   new document matches an equality-only filter) are not decided/claimed: the update writes
   _id, the filter's _id carries nested operators, filter paths conflict with each other, or a
   path component is empty or starts with '$' (see Refuted/C13.v part B) *)
Definition c13_writes_id (u : value) : bool :=
  match u with
  | VDoc ufs =>
      existsb (fun kv => match snd kv with
                         | VDoc fields =>
                             existsb (fun f => (String.eqb (fst f) "_id")
                                               || match snd f with VStr t => String.eqb t "_id" | _ => false end)
                                     fields
                         | _ => false end) ufs
      || has_key "_id" ufs
  | _ => false
  end.
Fixpoint c13_has_dollar_key (v : value) : bool :=
  match v with
  | VDoc fs => (fix go (fs : list (string * value)) : bool :=
                  match fs with
                  | [] => false
                  | (k, x) :: fs' => Filter.starts_dollar k || c13_has_dollar_key x || go fs'
                  end) fs
  | _ => false
  end.
Definition c13_odd_filter (f : value) : bool :=
  match f with
  | VDoc fs =>
      existsb (fun kv => existsb (fun part => String.eqb part "" || Filter.starts_dollar part)
                                 (Path.split_dots (fst kv))) fs
      || existsb (fun kv => existsb (fun kv' => negb (String.eqb (fst kv) (fst kv'))
                                                 && HistProps.paths_overlap (fst kv) (fst kv')) fs) fs
      || match assoc "_id" fs with Some i => c13_has_dollar_key i | None => false end
  | _ => true
  end.
Definition c13_undecided (ops : list op) : bool :=
  existsb (fun o => match o with
                    | OUpdate f u _ true | OReplace f u true => c13_writes_id u || c13_odd_filter f
                    | _ => false end) ops.

Definition c13_check (h : hist_case) : Z :=
  flags h (c13_ok (h_ops h) (h_obs h))
        (c13_reasons (h_ops h) (h_obs h) + (if c13_undecided (h_ops h) then 16 else 0)).
Definition c14_check (h : hist_case) : Z :=
  flags h (c14_ok (h_ops h) (h_obs h)) (c14_reasons (h_ops h) (h_obs h)).
Definition c15_check (h : hist_case) : Z :=
  flags h (c15_ok (h_pre5 h) (h_ops h) (h_obs h)) (c15_reasons (h_ops h) (h_obs h)).
