(* C01: MongoDB's matching rules, written from the property statement (not from the code),
   and the guard under which the code is claimed to implement them.  Definitions only. *)
From Coq Require Import ZArith List String Bool Ascii.
From Verif Require Import Value PyEq BsonOrder Path Filter.
Import ListNotations.
Open Scope Z_scope.
Open Scope string_scope.

(* ---- dotted-path resolution, the clean recursive definition --------------------------
   field of a sub-document; a numeric component indexes an array; a non-numeric component
   over an array visits each sub-document element; an absent field yields Missing (None).
   A path that runs into a scalar or null before its last component denotes a missing
   field (R1 read literally).  Array elements that are not sub-documents contribute
   nothing. *)
Fixpoint path_values (parts : list string) (doc : value) {struct parts} : list lookup :=
  match parts with
  | [] => [Some doc]
  | p :: rest =>
      match doc with
      | VDoc fs =>
          match assoc p fs with
          | Some v => path_values rest v
          | None => [None]
          end
      | VArr xs =>
          match as_index p with
          | Some i =>
              match nth_z xs i with
              | Some sub => path_values rest sub
              | None => [None]
              end
          | None =>
              flat_map (fun sub =>
                match sub with
                | VDoc fs =>
                    match assoc p fs with
                    | Some v => path_values rest v
                    | None => [None]
                    end
                | _ => []
                end) xs
          end
      | _ => [None]
      end
  end.

(* ---- leaf predicates: one operator on one resolved value or Missing ------------------ *)
Definition spec_eq (c : lookup) (v : value) : bool :=
  match c with
  | None => is_null v                                  (* R1 *)
  | Some x => bson_eq x v
  end.

(* ordering within one type class only (R2); scalars only, see the guard *)
Definition scalar_cmp (x v : value) : option comparison :=
  match x, v with
  | VNull, VNull => Some Eq
  | VBool a, VBool b => Some (Z.compare (if a then 1 else 0) (if b then 1 else 0))
  | VStr a, VStr b => Some (String.compare a b)
  | VDate a ta, VDate b tb => Some (Z.compare (date_key a ta) (date_key b tb))
  | VInt a, VInt b => Some (Z.compare (8 * a) (8 * b))
  | VInt a, VDbl b => Some (Z.compare (8 * a) b)
  | VDbl a, VInt b => Some (Z.compare a (8 * b))
  | VDbl a, VDbl b => Some (Z.compare a b)
  | _, _ => None
  end.

Definition spec_cmp (op : cmpop) (c : lookup) (v : value) : bool :=
  match c with
  | None => false
  | Some x => match scalar_cmp x v with Some r => op_holds op r | None => false end
  end.

Definition spec_type (name : string) (c : lookup) : bool :=
  match c, type_pred name with
  | Some x, Some (Some p) => p x
  | _, _ => false
  end.

(* R3: a predicate on an array-valued path holds if the array or any element satisfies it *)
Definition holds (leaf : lookup -> bool) (C : list lookup) : bool :=
  existsb (fun c => leaf c || match c with
                              | Some (VArr xs) => existsb (fun e => leaf (Some e)) xs
                              | _ => false
                              end) C.

Definition spec_in (l : list value) (c : lookup) : bool := existsb (fun v => spec_eq c v) l.

Definition some_present (C : list lookup) : bool :=
  existsb (fun c => match c with Some _ => true | None => false end) C.

Definition arrays_of (C : list lookup) : list (list value) :=
  flat_map (fun c => match c with Some (VArr xs) => [xs] | _ => [] end) C.

(* ---- the matching relation ---------------------------------------------------------- *)
Fixpoint spec_matches (f : filter) (d : value) {struct f} : bool :=
  match f with
  | FEnd => true
  | FAnd c f' => spec_clause c d && spec_matches f' d               (* R5: conjunction *)
  end

with spec_clause (c : clause) (d : value) {struct c} : bool :=
  match c with
  | CComment => true
  | CLogic k _ arg => spec_largs k arg d
  | CField key s => spec_search key s d
  | _ => false
  end

with spec_largs (k : logic) (a : largs) (d : value) {struct a} : bool :=
  match a with
  | LBad => false
  | LNil => match k with LOr => false | _ => true end
  | LCons q qs =>
      let b := match q with LqBad => false | LqF f => spec_matches f d end in
      match k with
      | LAnd => b && spec_largs k qs d
      | LOr => b || spec_largs k qs d
      | LNor => negb b && spec_largs k qs d
      end
  end

with spec_search (key : string) (s : search) (d : value) {struct s} : bool :=
  let C := path_values (split_dots key) d in
  match s with
  | SVal v => holds (fun c => spec_eq c v) C                        (* implicit equality *)
  | SOps os => spec_fops os key C d
  | SMixed => false
  end

with spec_fops (os : fops) (key : string) (C : list lookup) (d : value) {struct os} : bool :=
  match os with
  | FNil => true
  | FCons o os' => spec_fop o key C d && spec_fops os' key C d
  end

with spec_fop (o : fop) (key : string) (C : list lookup) (d : value) {struct o} : bool :=
  match o with
  | OEq v => holds (fun c => spec_eq c v) C
  | ONe v => negb (holds (fun c => spec_eq c v) C)                  (* R4 *)
  | OCmp op v => holds (fun c => spec_cmp op c v) C
  | OIn (VArr l) => holds (spec_in l) C
  | ONin (VArr l) => negb (holds (spec_in l) C)                     (* R4 *)
  | OIn _ | ONin _ => false
  | OExists v => Bool.eqb (truthy v) (some_present C)
  | OType (VStr name) => holds (spec_type name) C
  | OType _ => false
  | OSize v =>
      existsb (fun xs => bson_eq v (VInt (Z.of_nat (List.length xs)))) (arrays_of C)
  | OAll a => spec_allarg a C
  | OElemMatch q => existsb (fun xs => spec_emq q xs) (arrays_of C)
  | ONot _ s => negb (spec_search key s d)                          (* R4 *)
  | OUnknown _ | OUnmodelled => false
  end

with spec_emq (q : emq) (xs : list value) {struct q} : bool :=
  match q with
  | EmBad => false
  | EmQ f s =>
      match s with
      | SOps _ =>
          (* operator form: some element satisfies every operator *)
          existsb (fun x => spec_search "field" s (VDoc [("field", x)])) xs
      | _ =>
          (* document form: some element matches the sub-filter *)
          existsb (fun x => spec_matches f x) xs
      end
  end

with spec_allarg (a : allarg) (C : list lookup) {struct a} : bool :=
  match a with
  | AllBad => false
  | AllItems items => spec_allitems items C
  end

with spec_allitems (items : allitems) (C : list lookup) {struct items} : bool :=
  match items with
  | ANil => true
  | ACons i items' =>
      match i with
      | AVal v => holds (fun c => spec_eq c v) C
      | AElem q => existsb (fun xs => spec_emq q xs) (arrays_of C)
      end && spec_allitems items' C
  end.
