(* C01: what the correspondence run evaluates on every generated case.  Definitions only. *)
From Coq Require Import ZArith List String Bool.
From Verif Require Import Value PyEq BsonOrder Path Filter FilterSpec FilterGuard.
Import ListNotations.
Open Scope Z_scope.

Record c01_case := C01Case { c_filter : value; c_doc : value; c_impl : res bool }.

(* observables the property names: the match boolean and raise / no raise *)
Definition same_outcome (m i : res bool) : bool :=
  match m, i with
  | Ok a, Ok b => Bool.eqb a b
  | Err _, Err _ => true
  | _, _ => false
  end.

Definition is_unmodelled {A} (r : res A) : bool :=
  match r with Err EUnmodelled => true | _ => false end.

(* bit 0: model and implementation disagree; bit 1: the property predicate fails on the
   implementation's outcome; bit 2: outside the guard; bit 3: outside the model;
   bits 8..: reason mask *)
Definition c01_check (c : c01_case) : Z :=
  let f := parse_filter (c_filter c) in
  let d := c_doc c in
  let m := filter_applies (c_filter c) d in
  let unmod := is_unmodelled m in
  let rs := match c_filter c with VDoc _ => guard_reasons f d | _ => [R_NOT_FRAGMENT] end in
  let mism := negb unmod && negb (same_outcome m (c_impl c)) in
  let dec := forallb is_finding rs in
  let p := if dec then same_outcome (Ok (spec_matches f d)) (c_impl c)
                       && match c_impl c with Ok _ => true | Err _ => false end
           else true in
  (if mism then 1 else 0) + (if p then 0 else 2)
  + (match rs with [] => 0 | _ => 4 end) + (if unmod then 8 else 0)
  + 256 * reason_mask rs.

(* for replay files *)
Definition c01_explain (c : c01_case) : res bool * bool * list Z :=
  let f := parse_filter (c_filter c) in
  (filter_applies (c_filter c) (c_doc c), spec_matches f (c_doc c),
   map reason_code (guard_reasons f (c_doc c))).
