(* C12: what a projection must return, written from the statement.  Definitions only. *)
From Coq Require Import ZArith List String Bool.
From Verif Require Import Value PyEq BsonOrder Path Filter FilterSpec Update Project Coll.
Import ListNotations.
Open Scope Z_scope.
Open Scope string_scope.
Open Scope list_scope.
Notation "a <?? b" := (Z.ltb a b) (at level 70).
Notation "a =?? b" := (Z.eqb a b) (at level 70).

(* the named paths that continue below field k *)
Definition below (k : string) (paths : list (list string)) : list (list string) :=
  flat_map (fun p => match p with
                     | k' :: rest => if k =? k' then [rest] else []
                     | [] => []
                     end) paths.
Definition names_whole (sub : list (list string)) : bool :=
  existsb (fun p => match p with [] => true | _ => false end) sub.

(* inclusion: the named paths, descending through sub-documents and through each
   sub-document element of arrays; nothing else *)
Fixpoint include (fuel : nat) (paths : list (list string)) (v : value) : value :=
  match fuel with
  | O => v
  | S fuel' =>
      match v with
      | VDoc fs =>
          VDoc (flat_map (fun kv =>
                  let sub := below (fst kv) paths in
                  match sub with
                  | [] => []
                  | _ =>
                      if names_whole sub then [kv]
                      else match snd kv with
                           | VDoc _ => [(fst kv, include fuel' sub (snd kv))]
                           | VArr xs =>
                               [(fst kv, VArr (flat_map (fun x => match x with
                                                                 | VDoc _ => [include fuel' sub x]
                                                                 | _ => [] end) xs))]
                           | _ => []
                           end
                  end) fs)
      | _ => v
      end
  end.

(* exclusion: exactly the named paths are removed, everything else is kept *)
Fixpoint exclude (fuel : nat) (paths : list (list string)) (v : value) : value :=
  match fuel with
  | O => v
  | S fuel' =>
      match v with
      | VDoc fs =>
          VDoc (flat_map (fun kv =>
                  let sub := below (fst kv) paths in
                  match sub with
                  | [] => [kv]
                  | _ =>
                      if names_whole sub then []
                      else match snd kv with
                           | VDoc _ => [(fst kv, exclude fuel' sub (snd kv))]
                           | VArr xs =>
                               [(fst kv, VArr (map (fun x => match x with
                                                            | VDoc _ => exclude fuel' sub x
                                                            | _ => x end) xs))]
                           | _ => [kv]
                           end
                  end) fs)
      | _ => v
      end
  end.

Fixpoint depth (v : value) : nat :=
  match v with
  | VDoc fs => S ((fix go (fs : list (string * value)) : nat :=
                     match fs with [] => O | (_, x) :: fs' => Nat.max (depth x) (go fs') end) fs)
  | VArr xs => S ((fix go (xs : list value) : nat :=
                     match xs with [] => O | x :: xs' => Nat.max (depth x) (go xs') end) xs)
  | _ => O
  end.

(* $slice: the stated contiguous part of the array *)
Definition slice_spec (xs : list value) (arg : value) : option (list value) :=
  let n := Z.of_nat (List.length xs) in
  match arg with
  | VInt c => if c <?? 0 then Some (skipn (Z.to_nat (Z.max 0 (n + c))) xs)
              else Some (firstn (Z.to_nat c) xs)
  | VArr [VInt s; VInt l] =>
      if l <?? 1 then None else       (* the server requires a positive limit *)
      let s' := if s <?? 0 then Z.max 0 (n + s) else s in
      Some (firstn (Z.to_nat l) (skipn (Z.to_nat s') xs))
  | _ => None
  end.

(* $elemMatch: the first matching element (matching decided by the model matcher; C01 ties
   it to the matching rules) *)
Definition elem_match_spec (xs : list value) (q : value) : option (option value) :=
  (fix go (xs : list value) : option (option value) :=
     match xs with
     | [] => Some None
     | x :: xs' => match filter_applies q x with
                   | Ok true => Some (Some x)
                   | Ok false => go xs'
                   | Err _ => None
                   end
     end) xs.

Inductive pmode := PInclude | PExclude.

(* the requested projection, read off a well-formed dict specification:
   (mode, plain paths, _id wanted, operator fields); None = not a well-formed specification
   in the sense of the statement (mixed modes, colliding paths, dotted operator fields...) *)
Record pspecification := mkPS {
  ps_mode : pmode; ps_paths : list (list string); ps_id : bool;
  ps_ops : list (string * list (string * value))
}.

Fixpoint is_prefix_of (a b : list string) : bool :=
  match a, b with
  | [], _ => true
  | x :: a', y :: b' => (x =? y) && is_prefix_of a' b'
  | _ :: _, [] => false
  end.

Definition collide (ps : list (list string)) : bool :=
  (fix go (ps : list (list string)) : bool :=
     match ps with
     | [] => false
     | p :: ps' => existsb (fun q => is_prefix_of p q || is_prefix_of q p) ps' || go ps'
     end) ps.

Definition flag_of (v : value) : option bool :=
  match v with
  | VInt 1 | VBool true => Some true
  | VInt 0 | VBool false => Some false
  | _ => None
  end.

Definition read_spec (p : value) : option pspecification :=
  match p with
  | VDoc fs =>
      let idf := match assoc "_id" fs with Some v => flag_of v | None => Some true end in
      let rest := del_key "_id" fs in
      let ops := flat_map (fun kv => match snd kv with VDoc o => [(fst kv, o)] | _ => [] end) rest in
      let plain := List.filter (fun kv => negb (is_doc (snd kv))) rest in
      let flags := map (fun kv => flag_of (snd kv)) plain in
      match idf with
      | None => None
      | Some idb =>
          if existsb (fun f => match f with None => true | _ => false end) flags then None else
          let incl := existsb (fun f => match f with Some true => true | _ => false end) flags in
          let excl := existsb (fun f => match f with Some false => true | _ => false end) flags in
          if incl && excl then None else
          let paths := map (fun kv => split_dots (fst kv)) plain in
          if collide paths then None else
          if existsb (fun p => existsb (fun s => (s =? "") || (s =? "$")) p) paths then None else
          if existsb (fun ko => has_dot (fst ko)
                                || existsb (fun p => match p with
                                                     | h :: _ => h =? fst ko
                                                     | [] => false end) paths) ops then None else
          if existsb (fun ko => negb (forallb (fun ov => mem_str (fst ov) ["$slice"; "$elemMatch"]) (snd ko))
                                || negb (Nat.eqb (List.length (snd ko)) 1)) ops then None else
          match plain with
          | [] => None      (* only _id and/or operator fields: neither an inclusion nor an
                               exclusion in the sense of the statement *)
          | _ => Some (mkPS (if incl then PInclude else PExclude) paths idb ops)
          end
      end
  | _ => None
  end.

(* equality of documents up to the order of top-level keys (the statement does not fix
   where _id appears) *)
Definition doc_eq_top (a b : value) : bool :=
  match a, b with
  | VDoc fs, VDoc gs =>
      Nat.eqb (List.length fs) (List.length gs) &&
      forallb (fun kv => match assoc (fst kv) gs with
                         | Some w => value_eqb (snd kv) w
                         | None => false end) fs
  | _, _ => value_eqb a b
  end.

(* the specified projection of one document; None = undecided *)
Definition project_spec (d : value) (p : value) : option value :=
  match d, read_spec p with
  | VDoc dfs, Some ps =>
      let fuel := S (depth d) in
      (* operator fields count as included fields; with only operators and exclusion mode
         (no plain path) everything else is kept *)
      let base :=
        match ps_mode ps with
        | PInclude => include fuel (ps_paths ps ++ map (fun ko => [fst ko]) (ps_ops ps)) (VDoc dfs)
        | PExclude => exclude fuel (ps_paths ps) (VDoc dfs)
        end in
      let with_id :=
        match base with
        | VDoc bfs =>
            let no_id := del_key "_id" bfs in
            if ps_id ps then match assoc "_id" dfs with
                             | Some i => Some (VDoc (("_id", i) :: no_id))
                             | None => Some (VDoc no_id) end
            else Some (VDoc no_id)
        | _ => None
        end in
      (* apply the operators *)
      fold_left (fun acc ko =>
        match acc with
        | Some (VDoc afs) =>
            match assoc (fst ko) dfs, snd ko with
            | None, _ => Some (VDoc (del_key (fst ko) afs))
            | Some (VArr xs), [("$slice", arg)] =>
                match slice_spec xs arg with
                | Some ys => Some (VDoc (set_key (fst ko) (VArr ys) afs))
                | None => None
                end
            | Some (VArr xs), [("$elemMatch", q)] =>
                match elem_match_spec xs q with
                | Some (Some x) => Some (VDoc (set_key (fst ko) (VArr [x]) afs))
                | Some None => Some (VDoc (del_key (fst ko) afs))
                | None => None
                end
            | Some _, [("$elemMatch", _)] => Some (VDoc (del_key (fst ko) afs))
            | Some _, _ => None                      (* $slice of a non-array: an error *)
            end
        | _ => None
        end) (ps_ops ps) with_id
  | _, _ => None
  end.

(* ---- guard: where the code is known to deviate (findings) ---- *)
(* 1 = F-PROJ-SCALAR: a nested projection path runs over an array holding a non-document
       element (find side crashes) or over a scalar under exclusion (the field is dropped) *)
Fixpoint nested_hits_scalar (fuel : nat) (paths : list (list string)) (v : value) : bool :=
  match fuel with
  | O => false
  | S fuel' =>
      match v with
      | VDoc fs =>
          existsb (fun kv =>
            let sub := below (fst kv) paths in
            match sub with
            | [] => false
            | _ => if names_whole sub then false
                   else match snd kv with
                        | VDoc _ => nested_hits_scalar fuel' sub (snd kv)
                        | VArr xs => existsb (fun x => match x with
                                                       | VDoc _ => nested_hits_scalar fuel' sub x
                                                       | _ => true end) xs
                        | _ => true
                        end
            end) fs
      | _ => false
      end
  end.

(* 4 = F-SLICE-NEG-SKIP: $slice [skip, limit] with a negative skip reaching before the start
       of the array (the window is not clamped to the array) *)
Definition slice_neg_overshoot (d : value) (ops : list (string * list (string * value))) : bool :=
  existsb (fun ko =>
    match snd ko, (match d with VDoc dfs => assoc (fst ko) dfs | _ => None end) with
    | [("$slice", VArr [VInt s; VInt _])], Some (VArr xs) =>
        (s <?? 0) && (Z.of_nat (List.length xs) <?? - s)
    | _, _ => false
    end) ops.

Definition c12_reasons (d : value) (p : value) : Z :=
  match read_spec p with
  | Some ps =>
      (if nested_hits_scalar (S (depth d)) (ps_paths ps) d then 1 else 0)
      + (if slice_neg_overshoot d (ps_ops ps) then 4 else 0)
  | None => 0
  end.

(* ---- harness glue ---- *)
Record c12_case := mkC12 { p_docs : list value; p_proj : value; p_impl : res (list value) }.

Definition c12_model (c : c12_case) : res (list value) := project_all (Some (p_proj c)) (p_docs c).

Definition c12_check (c : c12_case) : Z :=
  let m := c12_model c in
  let unmod := match m with Err EUnmodelled => true | _ => false end in
  let mism := negb unmod && negb (match m, p_impl c with
                                  | Ok x, Ok y => list_eqb value_eqb x y
                                  | Err _, Err _ => true
                                  | _, _ => false end) in
  let specs := map (fun d => project_spec d (p_proj c)) (p_docs c) in
  let decided := forallb (fun s => match s with Some _ => true | None => false end) specs in
  let p := if decided then
             match p_impl c with
             | Ok outs =>
                 (* same documents, same order, each the requested part *)
                 Nat.eqb (List.length outs) (List.length specs) &&
                 forallb (fun so => match so with
                                    | (Some s, o) => doc_eq_top s o
                                    | _ => true end) (combine specs outs)
             | Err _ => false
             end
           else true in
  let reasons := fold_right Z.lor 0 (map (fun d => c12_reasons d (p_proj c)) (p_docs c))
                 + (if decided then 0 else 2) in
  (if mism then 1 else 0) + (if p then 0 else 2) + (if reasons =?? 0 then 0 else 4)
  + (if unmod then 8 else 0) + 256 * reasons.

Definition c12_explain (c : c12_case) :=
  (c12_model c, map (fun d => project_spec d (p_proj c)) (p_docs c),
   map (fun d => c12_reasons d (p_proj c)) (p_docs c)).
