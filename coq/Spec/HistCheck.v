(* Shared by the history properties: compare an observed trace of the implementation with
   the model's run of the same operations.  Definitions only. *)
From Coq Require Import ZArith List String Bool.
From Verif Require Import Value PyEq BsonOrder Path Filter Update Coll.
Import ListNotations.
Open Scope Z_scope.

(* outcome, store contents, index_information() after the operation *)
Definition obs := (res value * list (value * value) * value)%type.

Record hist_case := HistCase {
  h_pre5 : bool;
  h_ops : list op;
  h_obs : list obs          (* what the implementation did: outcome and store after each op *)
}.

(* error classes compared exactly, except that the "crash" classes are lumped together *)
Definition crashy (e : err) : bool :=
  match e with EType | EValue | EKey | ECrash => true | _ => false end.
Definition err_same (a b : err) : bool :=
  err_eqb a b || (crashy a && crashy b).

(* multiset equality under strict structural equality (for outcomes tagged "$set") *)
Fixpoint remove_one (x : value) (l : list value) : option (list value) :=
  match l with
  | [] => None
  | y :: l' => if value_eqb x y then Some l'
               else match remove_one x l' with Some r => Some (y :: r) | None => None end
  end.
Fixpoint multiset_eqb (a b : list value) : bool :=
  match a with
  | [] => match b with [] => true | _ => false end
  | x :: a' => match remove_one x b with Some b' => multiset_eqb a' b' | None => false end
  end.

Definition outcome_eqb (m i : res value) : bool :=
  match m, i with
  | Ok (VDoc [("$set"%string, VArr xs)]), Ok (VDoc [("$set"%string, VArr ys)]) => multiset_eqb xs ys
  | Ok a, Ok b => value_eqb a b
  | Err a, Err b => err_same a b
  | _, _ => false
  end.

Definition store_eqb (a b : list (value * value)) : bool :=
  list_eqb (fun p q => value_eqb (fst p) (fst q) && value_eqb (snd p) (snd q)) a b.

Definition is_unmod (r : res value) : bool :=
  match r with Err EUnmodelled => true | _ => false end.

(* walk model and observation together.  Returns (first mismatching step, first unmodelled
   step): comparison stops at the first unmodelled step, the model state being unknown
   afterwards *)
Fixpoint compare_run (pre5 : bool) (c : coll) (ops : list op) (os : list obs) (k : Z)
  : option Z * option Z :=
  match ops, os with
  | o :: ops', (ir, istore, iidx) :: os' =>
      let '(c', mr) := step pre5 c o in
      if is_unmod mr then (None, Some k)
      else if outcome_eqb mr ir && store_eqb (docs c') istore
              && match index_information c' with
                 | (_, Ok v) => value_eqb v iidx
                 | _ => false end
           then compare_run pre5 c' ops' os' (k + 1)
           else (Some k, None)
  | [], [] => (None, None)
  | _, _ => (Some k, None)
  end.

Definition hist_mismatch (h : hist_case) : bool :=
  match fst (compare_run (h_pre5 h) empty_coll (h_ops h) (h_obs h) 0) with
  | Some _ => true | None => false end.
Definition hist_unmodelled (h : hist_case) : bool :=
  match snd (compare_run (h_pre5 h) empty_coll (h_ops h) (h_obs h) 0) with
  | Some _ => true | None => false end.

(* what the MODEL does on a history, in the shape of an observed trace; the run stops being
   meaningful at the first unmodelled step, so the trace is cut there *)
Fixpoint model_obs (pre5 : bool) (c : coll) (ops : list op) : list obs :=
  match ops with
  | [] => []
  | o :: ops' =>
      let '(c', r) := step pre5 c o in
      (r, docs c', match index_information c' with (_, Ok v) => v | _ => VNull end)
      :: model_obs pre5 c' ops'
  end.

(* no step of the history leaves the model *)
Fixpoint modelled (pre5 : bool) (c : coll) (ops : list op) : bool :=
  match ops with
  | [] => true
  | o :: ops' =>
      let '(c', r) := step pre5 c o in
      negb (is_unmod r) && modelled pre5 c' ops'
  end.

(* generic flags: bit 0 mismatch, bit 3 unmodelled *)
Definition hist_check (h : hist_case) : Z :=
  (if hist_mismatch h then 1 else 0) + (if hist_unmodelled h then 8 else 0).

(* for replay files: where it diverged and what the model did there *)
Definition hist_explain (h : hist_case) :=
  (compare_run (h_pre5 h) empty_coll (h_ops h) (h_obs h) 0,
   run (h_pre5 h) empty_coll (h_ops h)).
