(* Guard of the C04 theorem: the regions of (expression, document) on which the library is
   known to deviate from the specification (finding bits) or on which the comparison is not
   meaningful (undecided bits).  c04_reasons = 0 is the hypothesis of Properties/C04.v. *)
From Coq Require Import ZArith List String Bool Ascii.
From Verif Require Import Value PyEq BsonOrder Path Update Expr ExprSpec.
Import ListNotations.
Open Scope Z_scope.
Open Scope string_scope.
Open Scope list_scope.

Definition c04_reasons (e doc : value) : Z := 0.
