(* Guard of the C04 theorem: the regions of (expression, document) on which the library is
   known to deviate from the specification (finding bits).  c04_reasons = 0 is the hypothesis
   of Properties/C04.v.  The guard walks the expression like the evaluator does (operands
   under the same variables, bodies of $let/$map/$filter under the extended ones) and tests,
   at every operator node, conditions on the values the MODEL gives to the operands:
     1  = F-EXPR-PYEQ      $eq/$ne/$in/$setEquals/$setUnion compare with Python ==: an operand
                           holds a bool or a sub-document (true == 1, key order ignored)
     2  = F-NULL-OPERAND   $arrayElemAt, $first/$last, $substr, $strcasecmp, the date parts,
                           $filter (input), $slice, $in (array), and $sum/$avg/$min/$max with a
                           single operand: a null or missing operand raises or makes the whole
                           expression missing where MongoDB answers null (or "" / 0)
     4  = F-SCALAR-FOLD    $sum/$avg/$min/$max with a single operand that is not an array
     8  = F-UNARY-LIST     the one-element array form {$abs: [x]} of a unary operator is read
                           as an array literal
     16 = F-BINDER-MISSING a $let variable or a $map body that evaluates to missing makes the
                           whole expression missing
     32 = F-SETEQ-UNHASHABLE $setEquals over arrays holding arrays or sub-documents raises
     64 = F-FIRST-EMPTY    $first/$last of an empty array answer null instead of missing
     128 = F-SLICE-NEG     $slice [array, position, n] with a negative position beyond the start
                           of the array: the window is not clamped to the start *)
From Coq Require Import ZArith List String Bool Ascii.
From Verif Require Import Value PyEq BsonOrder Path Update Expr ExprSpec.
Import ListNotations.
Open Scope Z_scope.
Open Scope string_scope.
Open Scope list_scope.

Definition nullish_e (r : eres) : bool :=
  match r with EMiss | EV VNull => true | _ => false end.

Definition in_list (k : string) (l : list string) : bool := existsb (String.eqb k) l.

Definition zor_list (l : list Z) : Z := fold_left Z.lor l 0.

Definition plain_res (r : eres) : bool := match r with EV v => plain v | _ => true end.

Definition date_part_op (k : string) : bool :=
  in_list k ["$hour"; "$minute"; "$second"; "$millisecond"; "$dayOfWeek"].

(* conditions at one operator node, from the operand results *)
Definition node_reasons (k : string) (arg : value) (vals : list eres) : Z :=
  let any_null := existsb nullish_e vals in
  let is_list_arg := match arg with VArr _ => true | _ => false end in
  let single_list := match arg with VArr [_] => true | _ => false end in
  let fold_op := in_list k ["$sum"; "$avg"; "$min"; "$max"] in
  Z.lor (if in_list k ["$eq"; "$ne"; "$in"; "$setEquals"; "$setUnion"]
            && negb (forallb plain_res vals) then 1 else 0)
  (Z.lor (if (in_list k ["$arrayElemAt"; "$first"; "$last"; "$substr"; "$strcasecmp"; "$slice"; "$in"]
              || date_part_op k || (fold_op && negb is_list_arg)) && any_null then 2 else 0)
  (Z.lor (if fold_op && negb is_list_arg
              && negb (forallb (fun r => match r with EV (VArr _) => true | _ => nullish_e r end) vals)
          then 4 else 0)
  (Z.lor (if single_list && (in_list k ["$abs"; "$ceil"; "$floor"; "$trunc"; "$isArray"; "$isNumber"; "$first"; "$last"; "$toLower"; "$toUpper"]
                             || date_part_op k) then 8 else 0)
  (Z.lor (if (k =? "$setEquals")
              && existsb (fun r => match r with
                                   | EV (VArr xs) => negb (forallb hashable_scalar xs)
                                   | _ => false end) vals then 32 else 0)
  (Z.lor (if in_list k ["$first"; "$last"] && existsb (fun r => match r with EV (VArr []) => true | _ => false end) vals
          then 64 else 0)
         (if k =? "$slice" then
            match arg, vals with
            | VArr [_; VInt p; _], EV (VArr xs) :: _ =>
                if (p <?? 0) && (Z.of_nat (List.length xs) <?? - p) then 128 else 0
            | _, _ => 0
            end
          else 0)))))).

Fixpoint reasons (vars : list (string * value)) (doc : value) (e : value) {struct e} : Z :=
  match e with
  | VArr xs => zor_list (map (reasons vars doc) xs)
  | VDoc fs =>
      match fs with
      | [(k, arg)] =>
          if negb (starts_dollar k) then reasons vars doc arg
          else if k =? "$literal" then 0
          else if k =? "$let" then
            match arg with
            | VDoc lf =>
                let var_tbl :=
                  (fix find_vars (l : list (string * value)) : list (string * (eres * Z)) :=
                     match l with
                     | [] => []
                     | (bk, bv) :: l' =>
                         if bk =? "vars" then
                           match bv with
                           | VDoc vfs => map (fun kv : string * value =>
                                                match kv with (ck, cv) => (ck, (eval vars doc true cv, reasons vars doc cv)) end) vfs
                           | _ => []
                           end
                         else find_vars l'
                     end) lf in
                let bound := flat_map (fun kr => match fst (snd kr) with EV v => [(fst kr, v)] | _ => [] end) var_tbl in
                Z.lor (zor_list (map (fun kr => snd (snd kr)) var_tbl))
               (Z.lor (if existsb (fun kr => match fst (snd kr) with EMiss => true | _ => false end) var_tbl then 16 else 0)
                      ((fix find_in (l : list (string * value)) : Z :=
                          match l with
                          | [] => 0
                          | (bk, bv) :: l' => if bk =? "in" then reasons (vars ++ bound) doc bv else find_in l'
                          end) lf))
            | _ => 0
            end
          else if (k =? "$map") || (k =? "$filter") then
            match arg with
            | VDoc mf =>
                let body_key := if k =? "$map" then "in" else "cond" in
                let name := match assoc "as" mf with Some (VStr n) => n | _ => "this" end in
                let inp :=
                  (fix find_i (l : list (string * value)) : eres * Z :=
                     match l with
                     | [] => (EMiss, 0)
                     | (bk, bv) :: l' => if bk =? "input" then (eval vars doc true bv, reasons vars doc bv) else find_i l'
                     end) mf in
                let items := match fst inp with EV (VArr xs) => xs | _ => [] end in
                Z.lor (snd inp)
               (Z.lor (if (k =? "$filter") && nullish_e (fst inp) then 2 else 0)
                      ((fix find_b (l : list (string * value)) : Z :=
                          match l with
                          | [] => 0
                          | (bk, bv) :: l' =>
                              if bk =? body_key then
                                zor_list (map (fun item =>
                                                 Z.lor (reasons (vars ++ [(name, item)]) doc bv)
                                                       (if (k =? "$map")
                                                           && match eval (vars ++ [(name, item)]) doc true bv with
                                                              | EMiss => true | _ => false end
                                                        then 16 else 0)) items)
                              else find_b l'
                          end) mf))
            | _ => 0
            end
          else
            match arg with
            | VArr xs =>
                Z.lor (zor_list (map (reasons vars doc) xs))
                      (node_reasons k arg (map (eval vars doc true) xs))
            | VDoc afs =>
                if existsb (fun kv => starts_dollar (fst kv)) afs
                then (* one operand, itself an operator expression *)
                  Z.lor (reasons vars doc arg) (node_reasons k arg [eval vars doc true arg])
                else
                (* named operands ($cond, $switch): every value is walked under the same variables *)
                zor_list (map (fun kv : string * value =>
                                 match kv with (_, cv) => reasons vars doc cv end) afs)
            | _ => Z.lor (reasons vars doc arg) (node_reasons k arg [eval vars doc true arg])
            end
      | _ => zor_list (map (fun kv : string * value => match kv with (_, cv) => reasons vars doc cv end) fs)
      end
  | _ => 0
  end.

Definition c04_reasons (e doc : value) : Z := reasons [] doc e.
