(* Guard of the C04 theorem: the regions of (expression, document) on which the library is
   known to deviate from the specification (finding bits).  c04_reasons = 0 is the hypothesis
   of Properties/C04.v.  The guard walks the expression like the evaluator does (operands
   under the same variables, bodies of $let/$map/$filter under the extended ones) and tests,
   at every operator node, conditions on the values the MODEL gives to the operands:
     1  = F-EXPR-PYEQ      $eq/$ne/$in/$setEquals/$setUnion compare with Python ==: an operand
                           holds a bool or a sub-document (true == 1, key order ignored)
     2  = F-NULL-OPERAND   $arrayElemAt, $first/$last, $substr, $strcasecmp, the date parts,
                           $filter (input), $slice, $in (array), and $sum/$avg/$min/$max with a
                           single operand: a null or missing operand raises or makes the whole
                           expression missing where MongoDB answers null (or "" / 0)
     4  = F-SCALAR-FOLD    $sum/$avg/$min/$max with a single operand that is not an array
     8  = F-UNARY-LIST     the one-element array form {$abs: [x]} of a unary operator is read
                           as an array literal
     16 = F-BINDER-MISSING a $let variable or a $map body that evaluates to missing makes the
                           whole expression missing
     32 = F-SETEQ-UNHASHABLE $setEquals over arrays holding arrays or sub-documents raises
     64 = F-FIRST-EMPTY    $first/$last of an empty array answer null instead of missing
     128 = F-SLICE-NEG     $slice [array, position, n] with a negative position beyond the start
                           of the array: the window is not clamped to the start
   Bits added while proving Properties/C04.v (checked counterexamples in Refuted/C04.v):
     256 = F-ADD-SCALAR    {$add: x} / {$multiply: x} with an operand that is not written as an
                           array: the library raises (assert isinstance(values, (tuple, list)))
                           where MongoDB answers x
     512 = F-CONCATARRAYS-NULL  $concatArrays with a null/missing operand next to an operand that
                           is neither null nor an array: the library checks all operand types
                           first and raises, the manual (and this specification) answer null
     1024 = F-SLICE-LITERAL  $slice whose position / count operand is not an integer literal but
                           an expression evaluating to an integer (or an expression outside the
                           model): the library tests isinstance(v, int) on the unevaluated
                           operand and raises
     2048 = F-PATH-NESTED-ARRAY  a field path that, inside an element of an array it traverses,
                           meets another array with path components left: the library only
                           traverses the outermost array (elements whose rest of the path crosses
                           an inner array are dropped), MongoDB traverses the inner one as well
     4096 = F-SWITCH-UNKNOWN-ARG  $switch with an argument other than branches/default, or a branch
                           that has case and then but is not exactly {case, then}: MongoDB rejects
                           the expression, the library ignores the extra field
     8192 = S-SWITCH-EAGER  (an artefact of the specification, not a deviation of the library from
                           MongoDB) a malformed $switch branch (not a document with case and then)
                           after a branch whose case is true (or outside the model): the library
                           - like MongoDB -
                           validates every branch first and raises, the specification answers the
                           branch taken *)
From Coq Require Import ZArith List String Bool Ascii.
From Verif Require Import Value PyEq BsonOrder Path Update Expr ExprSpec.
Import ListNotations.
Open Scope Z_scope.
Open Scope string_scope.
Open Scope list_scope.

Definition nullish_e (r : eres) : bool :=
  match r with EMiss | EV VNull => true | _ => false end.

Definition in_list (k : string) (l : list string) : bool := existsb (String.eqb k) l.

Definition zor_list (l : list Z) : Z := fold_left Z.lor l 0.

Definition plain_res (r : eres) : bool := match r with EV v => plain v | _ => true end.

Definition date_part_op (k : string) : bool :=
  in_list k ["$hour"; "$minute"; "$second"; "$millisecond"; "$dayOfWeek"].

(* conditions at one operator node, from the operand results *)
Definition node_reasons (k : string) (arg : value) (vals : list eres) : Z :=
  let any_null := existsb nullish_e vals in
  let is_list_arg := match arg with VArr _ => true | _ => false end in
  let single_list := match arg with VArr [_] => true | _ => false end in
  let fold_op := in_list k ["$sum"; "$avg"; "$min"; "$max"] in
  Z.lor (if in_list k ["$eq"; "$ne"; "$in"; "$setEquals"; "$setUnion"]
            && negb (forallb plain_res vals) then 1 else 0)
  (Z.lor (if (in_list k ["$arrayElemAt"; "$first"; "$last"; "$substr"; "$strcasecmp"; "$slice"; "$in"]
              || date_part_op k || (fold_op && negb is_list_arg)) && any_null then 2 else 0)
  (Z.lor (if fold_op && negb is_list_arg
              && negb (forallb (fun r => match r with EV (VArr _) => true | _ => nullish_e r end) vals)
          then 4 else 0)
  (Z.lor (if single_list && (in_list k ["$abs"; "$ceil"; "$floor"; "$trunc"; "$isArray"; "$isNumber"; "$first"; "$last"; "$toLower"; "$toUpper"]
                             || date_part_op k) then 8 else 0)
  (Z.lor (if (k =? "$setEquals")
              && existsb (fun r => match r with
                                   | EV (VArr xs) => negb (forallb hashable_scalar xs)
                                   | _ => false end) vals then 32 else 0)
  (Z.lor (if in_list k ["$first"; "$last"] && existsb (fun r => match r with EV (VArr []) => true | _ => false end) vals
          then 64 else 0)
  (Z.lor (if k =? "$slice" then
            match arg, vals with
            | VArr [_; VInt p; _], EV (VArr xs) :: _ =>
                if (p <?? 0) && (Z.of_nat (List.length xs) <?? - p) then 128 else 0
            | _, _ => 0
            end
          else 0)
  (Z.lor (if ((k =? "$add") || (k =? "$multiply")) && negb is_list_arg then 256 else 0)
  (Z.lor (if (k =? "$concatArrays") && any_null
              && existsb (fun r => match r with EV VNull | EV (VArr _) => false | EV _ => true | _ => false end) vals
          then 512 else 0)
         (if k =? "$slice" then
            match arg, vals with
            | VArr (_ :: rest), _ :: rvals =>
                if existsb (fun pr : value * eres =>
                              match fst pr, snd pr with
                              | VInt _, _ => false
                              | _, EV (VInt _) => true
                              | _, EE EUnmodelled => true
                              | _, _ => false
                              end) (combine rest rvals) then 1024 else 0
            | _, _ => 0
            end
          else 0))))))))).

(* F-PATH-NESTED-ARRAY: the walk of a field path *)
Fixpoint meets_arr (parts : list string) (v : value) {struct parts} : bool :=
  match parts with
  | [] => false
  | p :: rest =>
      match v with
      | VDoc fs => match assoc p fs with Some x => meets_arr rest x | None => false end
      | VArr _ => true
      | _ => false
      end
  end.

Fixpoint nested_arr (parts : list string) (v : value) {struct parts} : bool :=
  match parts with
  | [] => false
  | p :: rest =>
      match v with
      | VDoc fs => match assoc p fs with Some x => nested_arr rest x | None => false end
      | VArr xs =>
          match as_index p with
          | Some i => match nth_z xs i with Some x => nested_arr rest x | None => false end
          | None => existsb (fun x => match x with
                                      | VDoc fs => match assoc p fs with
                                                   | Some y => meets_arr rest y
                                                   | None => false
                                                   end
                                      | _ => false
                                      end) xs
          end
      | _ => false
      end
  end.

(* F-SWITCH-UNKNOWN-ARG / S-SWITCH-EAGER on the named operands of $switch *)
Definition branch_ok (b : value) : bool :=       (* what the library requires of a branch *)
  match b with VDoc bf => has_key "case" bf && has_key "then" bf | _ => false end.

Definition switch_unknown (sf : list (string * value)) : bool :=
  negb (forallb (fun kv => (fst kv =? "branches") || (fst kv =? "default")) sf)
  || match assoc "branches" sf with
     | Some (VArr bs) =>
         existsb (fun b => branch_ok b && match b with VDoc [_; _] => false | _ => true end) bs
     | _ => false
     end.

Fixpoint switch_eager (truths : list (value * bool)) : bool :=   (* (branch, its case is true) *)
  match truths with
  | [] => false
  | (b, t) :: l' => if branch_ok b then (if t then negb (forallb (fun bt => branch_ok (fst bt)) l') else switch_eager l')
                    else false
  end.

Fixpoint reasons (vars : list (string * value)) (doc : value) (e : value) {struct e} : Z :=
  match e with
  | VStr s =>
      if starts_dollar2 s then
        (if nested_arr (split_dots (drop1 (drop1 s))) (root_vars doc vars) then 2048 else 0)
      else if starts_dollar s then (if nested_arr (split_dots (drop1 s)) doc then 2048 else 0)
      else 0
  | VArr xs => zor_list (map (reasons vars doc) xs)
  | VDoc fs =>
      match fs with
      | [(k, arg)] =>
          if negb (starts_dollar k) then reasons vars doc arg
          else if k =? "$literal" then 0
          else if k =? "$let" then
            match arg with
            | VDoc lf =>
                let var_tbl :=
                  (fix find_vars (l : list (string * value)) : list (string * (eres * Z)) :=
                     match l with
                     | [] => []
                     | (bk, bv) :: l' =>
                         if bk =? "vars" then
                           match bv with
                           | VDoc vfs => map (fun kv : string * value =>
                                                match kv with (ck, cv) => (ck, (eval vars doc true cv, reasons vars doc cv)) end) vfs
                           | _ => []
                           end
                         else find_vars l'
                     end) lf in
                let bound := flat_map (fun kr => match fst (snd kr) with EV v => [(fst kr, v)] | _ => [] end) var_tbl in
                Z.lor (zor_list (map (fun kr => snd (snd kr)) var_tbl))
               (Z.lor (if existsb (fun kr => match fst (snd kr) with EMiss => true | _ => false end) var_tbl then 16 else 0)
                      ((fix find_in (l : list (string * value)) : Z :=
                          match l with
                          | [] => 0
                          | (bk, bv) :: l' => if bk =? "in" then reasons (vars ++ bound) doc bv else find_in l'
                          end) lf))
            | _ => 0
            end
          else if (k =? "$map") || (k =? "$filter") then
            match arg with
            | VDoc mf =>
                let body_key := if k =? "$map" then "in" else "cond" in
                let name := match assoc "as" mf with Some (VStr n) => n | _ => "this" end in
                let inp :=
                  (fix find_i (l : list (string * value)) : eres * Z :=
                     match l with
                     | [] => (EMiss, 0)
                     | (bk, bv) :: l' => if bk =? "input" then (eval vars doc true bv, reasons vars doc bv) else find_i l'
                     end) mf in
                let items := match fst inp with EV (VArr xs) => xs | _ => [] end in
                Z.lor (snd inp)
               (Z.lor (if (k =? "$filter") && nullish_e (fst inp) then 2 else 0)
                      ((fix find_b (l : list (string * value)) : Z :=
                          match l with
                          | [] => 0
                          | (bk, bv) :: l' =>
                              if bk =? body_key then
                                zor_list (map (fun item =>
                                                 Z.lor (reasons (vars ++ [(name, item)]) doc bv)
                                                       (if (k =? "$map")
                                                           && match eval (vars ++ [(name, item)]) doc true bv with
                                                              | EMiss => true | _ => false end
                                                        then 16 else 0)) items)
                              else find_b l'
                          end) mf))
            | _ => 0
            end
          else
            match arg with
            | VArr xs =>
                Z.lor (zor_list (map (reasons vars doc) xs))
                      (node_reasons k arg (map (eval vars doc true) xs))
            | VDoc afs =>
                if existsb (fun kv => starts_dollar (fst kv)) afs && negb (k =? "$switch")
                then (* one operand, itself an operator expression *)
                  Z.lor (reasons vars doc arg) (node_reasons k arg [eval vars doc true arg])
                else
                (* named operands ($cond, $switch): every value is walked under the same variables *)
                Z.lor (zor_list (map (fun kv : string * value =>
                                        match kv with (_, cv) => reasons vars doc cv end) afs))
               (Z.lor (if (k =? "$switch") && switch_unknown afs then 4096 else 0)
                      (if (k =? "$switch")
                          && match assoc "branches" afs with
                             | Some (VArr bs) =>
                                 switch_eager
                                   (map (fun b => (b, match b with
                                                      | VDoc bf =>
                                                          match assoc "case" bf with
                                                          | Some c => match to_bool (eval vars doc true c) with
                                                                      | Ok true | Err EUnmodelled => true
                                                                      | _ => false end
                                                          | None => false
                                                          end
                                                      | _ => false
                                                      end)) bs)
                             | _ => false
                             end
                       then 8192 else 0))
            | _ => Z.lor (reasons vars doc arg) (node_reasons k arg [eval vars doc true arg])
            end
      | _ => zor_list (map (fun kv : string * value => match kv with (_, cv) => reasons vars doc cv end) fs)
      end
  | _ => 0
  end.

Definition c04_reasons (e doc : value) : Z := reasons [] doc e.
