(* C16, from the statement: what two successive runs of an aggregation must leave behind
   and return.  `c16_ok` is evaluated on the OBSERVED data (worlds before / after each run,
   both answers, whether the caller's pipeline object and the index/catalog information
   were found unchanged); the model's prediction is compared separately. *)
From Coq Require Import ZArith List String Bool Ascii.
From Verif Require Import Value PyEq BsonOrder Path Update Filter Coll Expr Pipeline PipelineSpec AggState.
Import ListNotations.
Open Scope Z_scope.
Open Scope string_scope.
Open Scope list_scope.

Record c16_case := mkC16 {
  q_world : world;               (* before: collections c (aggregated), o, t *)
  q_pipeline : value;
  q_res1 : res (list value);
  q_world1 : world;              (* after the first run *)
  q_res2 : res (list value);
  q_world2 : world;              (* after the second run *)
  q_pipe_same : bool;            (* the pipeline object == its deep copy taken before *)
  q_meta_same : bool;            (* index_information of every collection and the catalog
                                    listing (target of $out aside) unchanged *)
  q_facet_iso : bool             (* when the last stage is a $facet: every field of its answer equals
                                    the answer of the same pipeline with the $facet replaced by that
                                    sub-pipeline alone (true when there is no such $facet) *)
}.

Definition world_eqb (a b : world) : bool :=
  forallb (fun n => list_eqb value_eqb (coll_docs a n) (coll_docs b n)) ["c"; "o"; "t"].

(* does an operator of that name occur anywhere in the value (at any $facet depth)? *)
Fixpoint mentions (name : string) (v : value) {struct v} : bool :=
  match v with
  | VDoc fs => (fix go (fs : list (string * value)) : bool :=
                  match fs with
                  | [] => false
                  | (k, x) :: fs' => (k =? name) || mentions name x || go fs'
                  end) fs
  | VArr xs => (fix go (xs : list value) : bool :=
                  match xs with
                  | [] => false
                  | x :: xs' => mentions name x || go xs'
                  end) xs
  | _ => false
  end.
Definition has_stage (name : string) (stages : list value) : bool := mentions name (VArr stages).

Definition res_same (a b : res (list value)) : bool :=
  match a, b with
  | Ok x, Ok y => list_eqb value_eqb x y
  | Err _, Err _ => true
  | _, _ => false
  end.

(* sub-multiset *)
Fixpoint sub_bag (a b : list value) : bool :=
  match a with
  | [] => true
  | x :: a' => match remove_first (value_eqb x) b with
               | Some b' => sub_bag a' b'
               | None => false
               end
  end.

(* the stored form of an output document: what an insert keeps of it *)
Definition c16_ok (c : c16_case) : bool :=
  match q_pipeline c with
  | VArr stages =>
      let (body, out) := split_out stages in
      q_pipe_same c && q_facet_iso c &&
      match out with
      | None =>
          (* read-only and repeatable *)
          q_meta_same c && world_eqb (q_world c) (q_world1 c) && world_eqb (q_world c) (q_world2 c)
          && (if has_stage "$sample" stages then
                (* $sample alone: a sub-multiset of the input of the requested size *)
                match stages, q_res1 c with
                | [VDoc [("$sample", VDoc [("size", VInt n)])]], Ok r =>
                    sub_bag r (coll_docs (q_world c) "c")
                    && Z.eqb (Z.of_nat (List.length r)) (Z.min (Z.max n 0) (Z.of_nat (List.length (coll_docs (q_world c) "c"))))
                | _, _ => true
                end
              else res_same (q_res1 c) (q_res2 c))
      | Some (VStr t) =>
          match q_res1 c with
          | Ok r =>
              (* the target holds exactly the output, which is passed through; nothing else moves *)
              list_eqb (fun a b => value_eqb (patch a) b) r (coll_docs (q_world1 c) t)
              && forallb (fun n => (n =? t) || list_eqb value_eqb (coll_docs (q_world c) n) (coll_docs (q_world1 c) n))
                         ["c"; "o"; "t"]
          | Err _ => true
          end
      | Some _ => true
      end
  | _ => true
  end.

(* what the run evaluates: bit 0 model /= observation, bit 1 c16_ok false, bit 3 outside the
   model, bit 4 the statement does not decide ($out after a failed or unmodelled body...) *)
Definition c16_check (c : c16_case) : Z :=
  let '((w1, r1), (w2, r2)) := agg_twice (q_world c) "c" (q_pipeline c) in
  let unm := match r1, r2 with Err EUnmodelled, _ | _, Err EUnmodelled => true | _, _ => false end in
  let mism := negb unm && negb (res_eqb (list_eqb value_eqb) r1 (q_res1 c) && world_eqb w1 (q_world1 c)
                                && res_eqb (list_eqb value_eqb) r2 (q_res2 c) && world_eqb w2 (q_world2 c)
                                && q_pipe_same c) in
  (if mism then 1 else 0) + (if c16_ok c then 0 else 2) + (if unm then 8 else 0).

Definition c16_explain (c : c16_case) := (agg_twice (q_world c) "c" (q_pipeline c), c16_ok c).
