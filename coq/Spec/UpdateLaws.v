(* C02: what an update specification must do to a document, written from the statement as
   decidable laws on the pair (document before, document after).  Definitions only. *)
From Coq Require Import ZArith List String Bool DecimalString.
From Verif Require Import Value PyEq BsonOrder Path Filter FilterSpec FilterGuard Update Project
                          Coll HistCheck HistProps ProjectSpec Cursor.
Import ListNotations.
Open Scope Z_scope.
Open Scope string_scope.
Open Scope list_scope.
Notation "a <?? b" := (Z.ltb a b) (at level 70).
Notation "a =?? b" := (Z.eqb a b) (at level 70).

(* the paths an update specification addresses: every field of every operator; $rename
   addresses source and destination *)
Definition addressed (u : value) : list (list string) :=
  match u with
  | VDoc ufs =>
      flat_map (fun kv =>
        match snd kv with
        | VDoc fields =>
            flat_map (fun f => split_dots (fst f) ::
                               (if fst kv =? "$rename"
                                then match snd f with VStr dst => [split_dots dst] | _ => [] end
                                else [])) fields
        | _ => []
        end) ufs
  | _ => []
  end.

Definition string_of_nat (n : nat) : string := NilZero.string_of_uint (Nat.to_uint n).

(* FRAME: every field (at any depth) that no addressed path reaches is left untouched, keeps
   its position among the untouched ones, and nothing is invented outside addressed paths *)
Fixpoint frame (fuel : nat) (paths : list (list string)) (d d' : value) : bool :=
  match fuel with
  | O => true
  | S fuel' =>
      match paths with
      | [] => value_eqb d d'
      | _ =>
          if names_whole paths then true else
          match d, d' with
          | VDoc fs, VDoc gs =>
              (* untouched fields: same value; addressed deeper: recursively *)
              forallb (fun kv =>
                 match below (fst kv) paths with
                 | [] => match assoc (fst kv) gs with
                         | Some v' => value_eqb (snd kv) v'
                         | None => false end
                 | sub => if names_whole sub then true
                          else match assoc (fst kv) gs with
                               | Some v' => frame fuel' sub (snd kv) v'
                               | None => false end
                 end) fs
              (* the untouched fields keep their relative order *)
              && list_eqb String.eqb
                   (List.filter (fun k => match below k paths with [] => true | _ => false end) (map fst fs))
                   (List.filter (fun k => match below k paths with [] => has_key k fs | _ => false end) (map fst gs))
              (* nothing new outside the addressed paths *)
              && forallb (fun kv => has_key (fst kv) fs
                                    || match below (fst kv) paths with [] => false | _ => true end) gs
          | VArr xs, VArr ys =>
              (* elements no addressed index reaches stay where they are *)
              (fix go (xs ys : list value) (i : nat) : bool :=
                 match xs with
                 | [] => true
                 | x :: xs' =>
                     let sub := below (string_of_nat i) paths in
                     match ys with
                     | y :: ys' =>
                         (match sub with
                          | [] => value_eqb x y
                          | _ => if names_whole sub then true else frame fuel' sub x y
                          end) && go xs' ys' (S i)
                     | [] => match sub with [] => false | _ => names_whole sub end
                     end
                 end) xs ys O
          | _, _ => value_eqb d d'          (* a scalar in the way: nothing can change below it *)
          end
      end
  end.

Fixpoint vdepth (v : value) : nat :=
  match v with
  | VDoc fs => S ((fix go (fs : list (string * value)) : nat :=
                     match fs with [] => O | (_, x) :: fs' => Nat.max (vdepth x) (go fs') end) fs)
  | VArr xs => S ((fix go (xs : list value) : nat :=
                     match xs with [] => O | x :: xs' => Nat.max (vdepth x) (go xs') end) xs)
  | _ => O
  end.

Definition frame_ok (u d d' : value) : bool :=
  frame (S (S (Nat.max (vdepth d) (vdepth d')))) (addressed u) d d'.

(* ---- operator laws, for an update made of ONE operator with ONE field ---------------- *)
(* the resolved value at a dotted path, numeric components indexing arrays *)
Definition at_path (p : string) (d : value) : option value := get_by_dot (split_dots p) d.

(* the BSON order the statement means for $min/$max: type classes first, then within *)
Definition bson_le (a b : value) : option bool :=
  match spec_cmp3 a b with
  | Some Gt => Some false
  | Some _ => Some true
  | None => None
  end.

Definition num_add (a b : value) : option value :=
  match a, b with
  | VInt x, VInt y => Some (VInt (x + y))
  | VInt x, VDbl y => Some (VDbl (8 * x + y))
  | VDbl x, VInt y => Some (VDbl (x + 8 * y))
  | VDbl x, VDbl y => Some (VDbl (x + y))
  | _, _ => None
  end.

(* $push with modifiers, as the server defines it *)
Definition push_spec (old : list value) (arg : value) : option (list value) :=
  match arg with
  | VDoc mods =>
      match assoc "$each" mods with
      | Some (VArr each) =>
          let n := Z.of_nat (List.length old) in
          let placed :=
            match assoc "$position" mods with
            | Some (VInt p) =>
                let q := if p <?? 0 then Z.max 0 (n + p) else Z.min p n in
                Some (firstn (Z.to_nat q) old ++ each ++ skipn (Z.to_nat q) old)
            | Some _ => None
            | None => Some (old ++ each)
            end in
          match placed with
          | None => None
          | Some l1 =>
              match assoc "$sort" mods with
              | Some _ => None                  (* $sort: left to the correspondence *)
              | None =>
                  match assoc "$slice" mods with
                  | None => Some l1
                  | Some (VInt z) =>
                      let m := Z.of_nat (List.length l1) in
                      if z <?? 0 then Some (skipn (Z.to_nat (Z.max 0 (m + z))) l1)
                      else Some (firstn (Z.to_nat z) l1)
                  | Some _ => None
                  end
              end
          end
      | Some _ => None
      | None => Some (old ++ [arg])
      end
  | _ => Some (old ++ [arg])
  end.

Definition remove_all (p : value -> bool) (l : list value) : list value :=
  List.filter (fun x => negb (p x)) l.

Fixpoint has_bool_or_doc (v : value) : bool :=
  match v with
  | VBool _ | VDoc _ => true
  | VArr xs => (fix go (xs : list value) : bool :=
                  match xs with [] => false | x :: xs' => has_bool_or_doc x || go xs' end) xs
  | _ => false
  end.

(* one operator, one field: what must hold of the target afterwards.  None = the law does not
   decide this case (path through an array or a scalar, type combinations the server rejects) *)
Definition op_law (op : string) (p : string) (arg : value) (now : Z) (d d' : value) : option bool :=
  let parts := split_dots p in
  if existsb (fun s => match as_index s with Some _ => true | None => false end) parts then None else
  let old := at_path p d in
  let new := at_path p d' in
  (* the parent chain must consist of sub-documents (or be missing) *)
  let parent_ok :=
    (fix go (ps : list string) (v : value) : bool :=
       match ps with
       | [] | [_] => is_doc v
       | q :: rest => match v with
                      | VDoc fs => match assoc q fs with Some x => go rest x | None => true end
                      | _ => false end
       end) parts d in
  if negb parent_ok then None else
  if op =? "$set" then Some (opt_value_eqb new (Some (patch arg)))
  else if op =? "$unset" then Some (match new with None => true | Some _ => false end)
  else if op =? "$inc" then
    match old with
    | None => Some (opt_value_eqb new (Some arg))
    | Some o => match num_add o arg with
                | Some s => Some (opt_value_eqb new (Some s))
                | None => None end
    end
  else if (op =? "$min") || (op =? "$max") then
    match old with
    | None => Some (opt_value_eqb new (Some (patch arg)))
    | Some o =>
        match bson_le o (patch arg) with
        | None => None
        | Some le =>
            let keep_old := if op =? "$min" then le else
                              match bson_le (patch arg) o with Some b => b | None => true end in
            Some (match new with
                  | Some n => bson_eq n (if keep_old then o else patch arg)
                  | None => false end)
        end
    end
  else if op =? "$pop" then
    match old, arg with
    | Some (VArr xs), VInt 1 => Some (opt_value_eqb new (Some (VArr (removelast xs))))
    | Some (VArr xs), VInt (-1) => Some (opt_value_eqb new (Some (VArr (tl xs))))
    | _, _ => None
    end
  else if op =? "$push" then
    match old with
    | Some (VArr xs) => match push_spec xs (patch arg) with
                        | Some l => Some (opt_value_eqb new (Some (VArr l)))
                        | None => None end
    | None => match push_spec [] (patch arg) with
              | Some l => Some (opt_value_eqb new (Some (VArr l)))
              | None => None end
    | Some _ => None
    end
  else if op =? "$addToSet" then
    match old, patch arg with
    | _, VDoc _ => None                       (* $each and sub-document elements: correspondence *)
    | Some (VArr xs), a =>
        Some (opt_value_eqb new (Some (VArr (if existsb (fun x => bson_eq x a) xs then xs else xs ++ [a]))))
    | None, a => Some (opt_value_eqb new (Some (VArr [a])))
    | Some _, _ => None
    end
  else if op =? "$pullAll" then
    match old, patch arg with
    | Some (VArr xs), VArr vs =>
        if existsb has_bool_or_doc (xs ++ vs) then None else
        Some (opt_value_eqb new (Some (VArr (remove_all (fun x => existsb (bson_eq x) vs) xs))))
    | None, VArr _ => Some (match new with None => true | Some _ => false end)
    | _, _ => None
    end
  else if op =? "$pull" then
    match old, patch arg with
    | _, VDoc _ => None                       (* conditions: decided by the matcher, correspondence *)
    | Some (VArr xs), a =>
        if existsb has_bool_or_doc (a :: xs) then None else
        Some (opt_value_eqb new (Some (VArr (remove_all (fun x => bson_eq x a) xs))))
    | _, _ => None
    end
  else if op =? "$currentDate" then
    Some (opt_value_eqb new (Some (VDate (floor1000 now) None)))
  else None.

(* the single (operator, field, argument) of an update document, if it has that shape *)
Definition single_op (u : value) : option (string * string * value) :=
  match u with
  | VDoc [(op, VDoc [(p, arg)])] => Some (op, p, arg)
  | _ => None
  end.

(* REPLACEMENT: exactly the _id followed by the replacement, nothing of the old body *)
Definition replace_law (r d d' : value) : bool :=
  match patch r, d' with
  | VDoc rfs, VDoc gs =>
      forallb (fun kv => match assoc (fst kv) gs with
                         | Some v' => value_eqb (snd kv) v' | None => false end) rfs
      && forallb (fun kv => (fst kv =? "_id") || has_key (fst kv) rfs) gs
      && opt_value_eqb (doc_id d) (doc_id d') 
  | _, _ => false
  end.

(* the C02 predicate on one observed update / replace step: every document that changed
   obeys the frame law (and the operator law when the update is one operator on one field) *)
Definition changed_pairs (before after : store) : list (value * value) :=
  flat_map (fun kd => match store_get (fst kd) after with
                      | Some d' => if value_eqb (snd kd) d' then [] else [(snd kd, d')]
                      | None => [] end) before.

Definition c02_step (x : ctx) (o : op) (ob : obs) : bool :=
  let '(r, after, _) := ob in
  match r with
  | Err _ => true
  | Ok _ =>
      match o with
      | OUpdate _ u _ _ =>
          forallb (fun dd =>
            frame_ok u (fst dd) (snd dd) &&
            match single_op u with
            | Some (op, p, arg) =>
                match op_law op p arg (x_now x) (fst dd) (snd dd) with
                | Some b => b
                | None => true
                end
            | None => true
            end) (changed_pairs (x_store x) after)
      | OReplace _ rdoc _ =>
          forallb (fun dd => replace_law rdoc (fst dd) (snd dd)) (changed_pairs (x_store x) after)
      | _ => true
      end
  end.

Definition c02_ok (ops : list op) (os : list obs) : bool := trace_all c02_step ctx0 ops os.

(* guard: 1 = an addressed path component is not an index although the value there is an
   array (see bit 16), or a path is addressed twice (conflicting operators) - undecided;
   4 = TTL index in the history (documents vanish); 8, 16, 32, 64, 128: see below *)
Definition pull_dotted (u : value) : bool :=
  match u with
  | VDoc ufs => match assoc "$pull" ufs with
                | Some (VDoc fields) => existsb (fun f => has_dot (fst f)) fields
                | _ => false end
  | _ => false
  end.

(* helpers of the guard bits 8, 16, 32, 64, 128 (found by the proofs, see Refuted/C02.v and
   Refuted/C02OpLaw.v); the state-dependent bits look at the documents the filter selects *)
(* a numeric path component in canonical decimal form ("1", not "01") *)
Definition canon_part (s : string) : bool :=
  match as_index s with
  | Some i => s =? string_of_nat (Z.to_nat i)
  | None => true
  end.
Definition canon_paths (u : value) : bool := forallb (forallb canon_part) (addressed u).

(* the path fits the document: wherever the value reached is an array the component is an
   index (otherwise _update_document_single_field swallows the ValueError of int(part) and
   carries on with the NEXT component on the same array) *)
Fixpoint fits (parts : list string) (d : value) : bool :=
  match parts with
  | [] => true
  | p :: rest =>
      match d with
      | VDoc fs => match assoc p fs with Some x => fits rest x | None => true end
      | VArr xs =>
          match as_index p with
          | Some i => match nth_error xs (Z.to_nat i) with Some x => fits rest x | None => true end
          | None => false
          end
      | _ => true
      end
  end.
Definition fits_all (u d : value) : bool := forallb (fun q => fits q d) (addressed u).

(* $min/$max of a field whose current value is in another BSON type class than the operand *)
Definition minmax_cross_field (p : string) (arg d : value) : bool :=
  match at_path p d with
  | Some o => negb (class_rank o =?? class_rank (patch arg))
  | None => false
  end.
Definition minmax_cross (u d : value) : bool :=
  match u with
  | VDoc ufs =>
      existsb (fun kv =>
        ((fst kv =? "$min") || (fst kv =? "$max")) &&
        match snd kv with
        | VDoc fields => existsb (fun f => minmax_cross_field (fst f) (snd f) d) fields
        | _ => false
        end) ufs
  | _ => false
  end.

(* $addToSet decides membership with Python == (True == 1, dict equality ignores key order):
   the old array and the operand mix bools and numbers, or the operand holds a sub-document *)
Definition addtoset_eq_risk (p : string) (arg d : value) : bool :=
  match at_path p d with
  | Some x => has_doc arg || negb ((negb (has_bool x) && negb (has_bool arg))
                                   || (negb (has_num x) && negb (has_num arg)))
  | None => false
  end.
Definition addtoset_cross (u d : value) : bool :=
  match u with
  | VDoc ufs =>
      existsb (fun kv =>
        (fst kv =? "$addToSet") &&
        match snd kv with
        | VDoc fields => existsb (fun f => addtoset_eq_risk (fst f) (patch (snd f)) d) fields
        | _ => false
        end) ufs
  | _ => false
  end.

(* replacement: the model keeps the replacement's _id when it carries one (only compared with
   Python == against the old one) and otherwise the value of the FILTER's "_id" key when the
   filter has one (an operator document such as {"$gt": 0} included): the law (the _id is
   kept) needs those to be structurally the document's _id *)
Definition replace_id_risk (spec r d : value) : bool :=
  match r with
  | VDoc rfs =>
      match assoc "_id" rfs with
      | Some rv => negb (opt_value_eqb (doc_id d) (Some rv))
      | None =>
          match spec with
          | VDoc sfs => match assoc "_id" sfs with
                        | Some i => negb (opt_value_eqb (doc_id d) (Some i))
                        | None => false
                        end
          | _ => false
          end
      end
  | _ => false
  end.

(* the document is selected by the (normalised) filter *)
Definition matched (f d : value) : bool :=
  match filter_applies (patch f) d with Ok true => true | _ => false end.

(* some step whose operation and pre-state satisfy p (the pre-state of a step is the store
   observed after the previous one) *)
Fixpoint any_step (p : store -> op -> bool) (s : store) (ops : list op) (os : list obs) : bool :=
  match ops, os with
  | o :: ops', (_, s', _) :: os' => p s o || any_step p s' ops' os'
  | _, _ => false
  end.

Definition c02_reasons (ops : list op) (os : list obs) : Z :=
  (if existsb (fun o => match o with
                        | OUpdate _ u _ _ => collide (addressed u)
                        | _ => false end) ops then 1 else 0)
  (* 2 = F-PULL-PATH: $pull on a dotted path whose walk stops early pulls from the parent *)
  + (if existsb (fun o => match o with OUpdate _ u _ _ => pull_dotted u | _ => false end) ops
     then 2 else 0)
  + (if existsb (fun o => match o with OCreateIndex _ _ _ (Some _) _ _ => true | _ => false end) ops
     then 4 else 0)
  (* 8 = F-INDEX-LEADING-ZERO: an addressed path has a numeric component that is not in
     canonical decimal form: {$set: {"a.01": 5}} on {a: [1,2,3]} writes a[1] (int("01") = 1),
     an element the specification does not address (the server treats "01" as a field name) *)
  + (if existsb (fun o => match o with OUpdate _ u _ _ => negb (canon_paths u) | _ => false end) ops
     then 8 else 0)
  (* 16 = F-ARRAY-SKIP: an addressed path has a non-index component where a stored document
     has an array: the component is skipped and the rest of the path is applied to the array
     itself: {$set: {"a.b.0": 5}} on {a: [1,2,3]} writes a[0] *)
  + (if any_step (fun s o => match o with
                             | OUpdate f u _ _ =>
                                 existsb (fun kd => matched f (snd kd) && negb (fits_all u (snd kd))) s
                             | _ => false end) [] ops os
     then 16 else 0)
  (* 32 = F-MINMAX: $min/$max between values of different BSON type classes use Python's
     order where it is defined (bool is a number: {$max: {a: 5}} on {a: true} stores 5; the
     BSON order ranks every bool above every number) and raise TypeError elsewhere *)
  + (if any_step (fun s o => match o with
                             | OUpdate f u _ _ =>
                                 existsb (fun kd => matched f (snd kd) && minmax_cross u (snd kd)) s
                             | _ => false end) [] ops os
     then 32 else 0)
  (* 64 = F-ADDTOSET-PYEQ: $addToSet tests membership with Python ==: {$addToSet: {a: true}} on
     {a: [1]} adds nothing (True == 1), a sub-document operand equal up to key order to an
     element is not added *)
  + (if any_step (fun s o => match o with
                             | OUpdate f u _ _ =>
                                 existsb (fun kd => matched f (snd kd) && addtoset_cross u (snd kd)) s
                             | _ => false end) [] ops os
     then 64 else 0)
  (* 128 = F-REPLACE-FILTER-ID: replace_one({_id: {$gt: 0}}, {a: 2}) stores the filter's operator
     document as the _id; {_id: 1.0} as filter turns the stored _id 1 into 1.0; a replacement
     carrying _id: true replaces _id 1 (only Python == is checked) *)
  + (if any_step (fun s o => match o with
                             | OReplace f r _ =>
                                 existsb (fun kd => matched f (snd kd)
                                                    && replace_id_risk (patch f) (patch r) (snd kd)) s
                             | _ => false end) [] ops os
     then 128 else 0).

Definition c02_check (h : hist_case) : Z :=
  let reasons := c02_reasons (h_ops h) (h_obs h) in
  hist_check h + (if c02_ok (h_ops h) (h_obs h) then 0 else 2)
  + (if reasons =?? 0 then 0 else 4) + 256 * reasons.
