(* Specification of aggregation expressions, written from the MongoDB manual (not from the
   code): what an expression evaluates to on a document.  Definitions only.
     SV v   - the value
     SMiss  - "missing" (the field is omitted from computed fields, false in conditions)
     SErr   - MongoDB rejects the expression on this document
     SUndef - this specification does not decide (ill-typed operands, operators or operand
              shapes it does not describe, results whose order MongoDB leaves open) *)
From Coq Require Import ZArith List String Bool Ascii.
From Verif Require Import Value PyEq BsonOrder Path Update Filter FilterSpec Cursor Expr.
Import ListNotations.
Open Scope Z_scope.
Open Scope string_scope.
Open Scope list_scope.

Inductive sres : Type :=
| SV (v : value)
| SMiss
| SErr
| SUndef.

Definition is_sundef (r : sres) : bool := match r with SUndef => true | _ => false end.
Definition is_serr (r : sres) : bool := match r with SErr => true | _ => false end.

(* null or missing *)
Definition nullish (r : sres) : bool :=
  match r with SV VNull | SMiss => true | _ => false end.

(* a missing operand reads as null inside arrays and argument lists *)
Definition or_null (r : sres) : sres := match r with SMiss => SV VNull | _ => r end.

Fixpoint svalues (rs : list sres) : option (list value) :=
  match rs with
  | [] => Some []
  | SV v :: rs' => match svalues rs' with Some vs => Some (v :: vs) | None => None end
  | _ :: _ => None
  end.

(* first SUndef, else first SErr, else the values *)
Definition with_all (rs : list sres) (f : list value -> sres) : sres :=
  if existsb is_sundef rs then SUndef
  else if existsb is_serr rs then SErr
  else match svalues (map or_null rs) with Some vs => f vs | None => SUndef end.

(* MongoDB truthiness: false, null, zero and missing are false, everything else true *)
Definition mtruth (r : sres) : option bool :=
  match r with
  | SMiss => Some false
  | SV VNull => Some false
  | SV (VBool b) => Some b
  | SV (VInt z) => Some (negb (z =?? 0))
  | SV (VDbl z) => Some (negb (z =?? 0))
  | SV _ => Some true
  | SErr | SUndef => None
  end.

Definition is_num (v : value) : bool := match v with VInt _ | VDbl _ => true | _ => false end.

(* the field path `$a.b.c` on a value: arrays are traversed (each sub-document element
   contributes the value the rest of the path has in it, elements without it contribute
   nothing); numeric components over arrays and arrays of arrays are left open *)
Fixpoint spath (parts : list string) (v : value) {struct parts} : sres :=
  match parts with
  | [] => SV v
  | p :: rest =>
      if p =? "" then SUndef else
      match v with
      | VDoc fs => match assoc p fs with Some x => spath rest x | None => SMiss end
      | VArr xs =>
          if all_digits p then SUndef else
          let rs := map (fun x => match x with
                                  | VDoc fs => match assoc p fs with
                                               | Some y => spath rest y
                                               | None => SMiss
                                               end
                                  | VArr _ => SUndef
                                  | _ => SMiss
                                  end) xs in
          if existsb is_sundef rs then SUndef
          else SV (VArr (flat_map (fun r => match r with SV y => [y] | _ => [] end) rs))
      | _ => SMiss
      end
  end.

(* comparison in BSON order with "missing" below everything; None = undecided *)
Definition scmp (a b : sres) : option comparison :=
  match a, b with
  | SMiss, SMiss => Some Eq
  | SMiss, SV _ => Some Lt
  | SV _, SMiss => Some Gt
  | SV x, SV y => spec_cmp3 x y
  | _, _ => None
  end.

Definition seq (a b : sres) : option bool :=
  match a, b with
  | SMiss, SMiss => Some true
  | SMiss, SV _ | SV _, SMiss => Some false
  | SV x, SV y => Some (bson_eq x y)
  | _, _ => None
  end.

Definition sbool (o : option bool) : sres := match o with Some b => SV (VBool b) | None => SUndef end.

Definition snum_add (a b : value) : value :=
  match a, b with
  | VInt x, VInt y => VInt (x + y)
  | _, _ => match num8 a, num8 b with Some x, Some y => VDbl (x + y) | _, _ => VNull end
  end.

(* sum / product of numbers; None = not decided (a non-number, an inexact double) *)
Definition ssum (vs : list value) : option value :=
  if forallb is_num vs then Some (fold_left snum_add vs (VInt 0)) else None.

Fixpoint sprod (acc : value) (vs : list value) : option value :=
  match vs with
  | [] => Some acc
  | v :: vs' =>
      match acc, v with
      | VInt x, VInt y => sprod (VInt (x * y)) vs'
      | _, _ => match num8 acc, num8 v with
                | Some x, Some y => if (x * y) mod 8 =?? 0 then sprod (VDbl ((x * y) / 8)) vs' else None
                | _, _ => None
                end
      end
  end.

(* smallest / largest in BSON order; None = undecided *)
Fixpoint sextreme (want : comparison) (best : value) (vs : list value) : option value :=
  match vs with
  | [] => Some best
  | v :: vs' =>
      match spec_cmp3 v best with
      | Some c => sextreme want (if match c, want with Lt, Lt | Gt, Gt => true | _, _ => false end
                                 then v else best) vs'
      | None => None
      end
  end.

Definition savg (vs : list value) : sres :=
  match List.filter is_num vs with
  | [] => SV VNull
  | nums =>
      match ssum nums with
      | Some s => match num8 s with
                  | Some s8 => let n := Z.of_nat (List.length nums) in
                               if s8 mod n =?? 0 then SV (VDbl (s8 / n)) else SUndef
                  | None => SUndef
                  end
      | None => SUndef
      end
  end.

(* the accumulator-style operators over a list of operand values *)
Definition sfold (op : string) (vs : list value) : sres :=
  if op =? "$sum" then match ssum (List.filter is_num vs) with Some s => SV s | None => SUndef end
  else if op =? "$avg" then savg vs
  else if (op =? "$min") || (op =? "$max") then
    match List.filter (fun v => negb (is_null v)) vs with
    | [] => SV VNull
    | v :: r => match sextreme (if op =? "$min" then Lt else Gt) v r with
                | Some m => SV m | None => SUndef end
    end
  else SUndef.

Definition dedup_bson (vs : list value) : list value :=
  fold_left (fun acc v => if existsb (bson_eq v) acc then acc else acc ++ [v]) vs [].

Definition set_sub (a b : list value) : bool := forallb (fun x => existsb (bson_eq x) b) a.

Definition sslice {A} (xs : list A) (pos : option Z) (n : Z) : list A :=
  let len := Z.of_nat (List.length xs) in
  match pos with
  | None => if n <?? 0 then skipn (Z.to_nat (Z.max 0 (len + n))) xs else firstn (Z.to_nat n) xs
  | Some p =>
      let start := if p <?? 0 then Z.max 0 (len + p) else Z.min p len in
      firstn (Z.to_nat n) (skipn (Z.to_nat start) xs)
  end.

Definition plain_name (k : string) : bool :=
  negb (starts_dollar k) && negb (k =? "") && (Z.of_nat (List.length (split_dots k)) =?? 1).

(* user variables: a name bound by $let / $map / $filter *)
Definition svars := list (string * sres).

Fixpoint var_lookup (n : string) (vars : svars) : option sres :=
  match vars with
  | [] => None
  | (k, r) :: vars' => match var_lookup n vars' with
                       | Some x => Some x            (* the innermost binding wins *)
                       | None => if k =? n then Some r else None
                       end
  end.

Definition svar (vars : svars) (doc : value) (path : list string) : sres :=
  match path with
  | [] => SUndef
  | n :: rest =>
      match var_lookup n vars with
      | Some (SV v) => spath rest v
      | Some SMiss => SMiss
      | Some other => other
      | None =>
          if (n =? "ROOT") || (n =? "CURRENT") then spath rest doc
          else if n =? "REMOVE" then SMiss
          else SUndef
      end
  end.

Definition unary_arg (arg : value) : option value :=
  match arg with VArr [x] => Some x | VArr _ => None | _ => Some arg end.

Fixpoint seval (vars : svars) (doc : value) (e : value) {struct e} : sres :=
  match e with
  | VStr s =>
      if starts_dollar2 s then svar vars doc (split_dots (drop1 (drop1 s)))
      else if starts_dollar s then
        (if drop1 s =? "" then SUndef else spath (split_dots (drop1 s)) doc)
      else SV e
  | VArr xs =>
      with_all (map (seval vars doc) xs) (fun vs => SV (VArr vs))
  | VDoc fs =>
      if (1 <?? Z.of_nat (List.length fs)) && existsb (fun kv => starts_dollar (fst kv)) fs
      then SErr else
      match fs with
      | [(k, arg)] =>
          if negb (starts_dollar k) then
            (if negb (plain_name k) then SUndef else
             match seval vars doc arg with
             | SV v => SV (VDoc [(k, v)])
             | SMiss => SV (VDoc [])
             | other => other
             end)
          else
          let args := match arg with
                      | VArr xs => map (seval vars doc) xs
                      | _ => [seval vars doc arg]
                      end in
          let one := match arg with
                     | VArr [x] => seval vars doc x
                     | VArr _ => SUndef
                     | _ => seval vars doc arg
                     end in
          if k =? "$literal" then SV arg
          else if k =? "$abs" then
            (if is_sundef one then SUndef else if nullish one then SV VNull else
             match one with
             | SV (VInt z) => SV (VInt (Z.abs z))
             | SV (VDbl z) => SV (VDbl (Z.abs z))
             | _ => SUndef
             end)
          else if (k =? "$add") || (k =? "$multiply") then
            (if existsb is_sundef args then SUndef
             else if existsb is_serr args then SUndef
             else if match args with [] => true | _ => false end then SUndef
             else if negb (forallb (fun r => nullish r || match r with SV v => is_num v | _ => false end) args)
                  then SUndef                                  (* an operand that is not a number *)
             else if existsb nullish args then SV VNull
             else match svalues args with
                  | Some vs =>
                      if negb (forallb is_num vs) then SUndef
                      else if k =? "$add" then match ssum vs with Some s => SV s | None => SUndef end
                      else match vs with
                           | v :: r => match sprod v r with Some p => SV p | None => SUndef end
                           | [] => SUndef
                           end
                  | None => SUndef
                  end)
          else if (k =? "$ceil") || (k =? "$floor") || (k =? "$trunc") then
            (if is_sundef one then SUndef else if nullish one then SV VNull else
             match one with
             | SV (VInt z) => SV (VInt z)
             | SV (VDbl z) => SV (VInt (if k =? "$floor" then z / 8
                                        else if k =? "$ceil" then - ((- z) / 8) else Z.quot z 8))
             | _ => SUndef
             end)
          else if (k =? "$divide") || (k =? "$mod") then
            match arg with
            | VArr [_; _] =>
                match args with
                | [a; b] =>
                    if is_sundef a || is_sundef b || is_serr a || is_serr b then SUndef
                    else if negb (forallb (fun r => nullish r || match r with SV v => is_num v | _ => false end) [a; b])
                    then SUndef
                    else if nullish a || nullish b then SV VNull
                    else match a, b with
                         | SV x, SV y =>
                             match num8 x, num8 y with
                             | Some p, Some q =>
                                 if q =?? 0 then SErr
                                 else if k =? "$divide" then
                                   (if (8 * p) mod q =?? 0 then SV (VDbl ((8 * p) / q)) else SUndef)
                                 else SV (VDbl (Z.rem p q))     (* the remainder has the sign of the dividend *)
                             | _, _ => SUndef
                             end
                         | _, _ => SUndef
                         end
                | _ => SUndef
                end
            | _ => SUndef
            end
          else if k =? "$subtract" then
            match arg with
            | VArr [_; _] =>
                match args with
                | [a; b] =>
                    if is_sundef a || is_sundef b || is_serr a || is_serr b then SUndef
                    else if nullish a || nullish b then SV VNull
                    else match a, b with
                         | SV (VDate ux None), SV (VDate uy None) =>
                             if (ux - uy) mod 1000 =?? 0 then SV (VInt ((ux - uy) / 1000)) else SUndef
                         | SV (VDate ux None), SV (VInt ms) => SV (VDate (ux - 1000 * ms) None)
                         | SV x, SV y =>
                             if is_num x && is_num y then
                               match x, y with
                               | VInt p, VInt q => SV (VInt (p - q))
                               | _, _ => match num8 x, num8 y with
                                         | Some p, Some q => SV (VDbl (p - q))
                                         | _, _ => SUndef
                                         end
                               end
                             else SUndef
                         | _, _ => SUndef
                         end
                | _ => SUndef
                end
            | _ => SUndef
            end
          else if (k =? "$eq") || (k =? "$ne") || (k =? "$gt") || (k =? "$gte") || (k =? "$lt") || (k =? "$lte") then
            match arg with
            | VArr [_; _] =>
                match args with
                | [a; b] =>
                    if k =? "$eq" then sbool (seq a b)
                    else if k =? "$ne" then sbool (option_map negb (seq a b))
                    else match scmp a b with
                         | Some c =>
                             SV (VBool (op_holds (if k =? "$gt" then OpGt else if k =? "$gte" then OpGe
                                                  else if k =? "$lt" then OpLt else OpLe) c))
                         | None => SUndef
                         end
                | _ => SUndef
                end
            | _ => SUndef
            end
          else if (k =? "$and") || (k =? "$or") then
            match arg with
            | VArr _ =>
                match (fix truths (l : list sres) : option (list bool) :=
                         match l with
                         | [] => Some []
                         | r :: l' => match mtruth r, truths l' with
                                      | Some b, Some bs => Some (b :: bs)
                                      | _, _ => None
                                      end
                         end) args with
                | Some bs => SV (VBool (if k =? "$and" then forallb (fun b => b) bs
                                        else existsb (fun b => b) bs))
                | None => SUndef
                end
            | _ => SUndef
            end
          else if k =? "$not" then
            match mtruth one with Some b => SV (VBool (negb b)) | None => SUndef end
          else if k =? "$cond" then
            match arg with
            | VArr [c; t; f] =>
                match mtruth (seval vars doc c) with
                | Some true => seval vars doc t
                | Some false => seval vars doc f
                | None => SUndef
                end
            | VArr _ => SUndef
            | VDoc cf =>
                let tbl := map (fun kv : string * value =>
                                  match kv with (ck, cv) => (ck, seval vars doc cv) end) cf in
                if negb (forallb (fun kv => (fst kv =? "if") || (fst kv =? "then") || (fst kv =? "else")) cf)
                then SUndef else
                match assoc "if" tbl, assoc "then" tbl, assoc "else" tbl with
                | Some c, Some t, Some f =>
                    match mtruth c with Some true => t | Some false => f | None => SUndef end
                | _, _, _ => SUndef
                end
            | _ => SUndef
            end
          else if k =? "$ifNull" then
            match arg with
            | VArr (_ :: _ :: _) =>
                (fix go (l : list sres) : sres :=
                   match l with
                   | [] => SUndef
                   | [fallback] => fallback
                   | r :: l' => if is_sundef r || is_serr r then SUndef
                                else if nullish r then go l' else r
                   end) args
            | _ => SUndef
            end
          else if k =? "$switch" then
            match arg with
            | VDoc sf =>
                let branches :=
                  (fix find_br (l : list (string * value)) : option (list (option (sres * sres))) :=
                     match l with
                     | [] => None
                     | (bk, bv) :: l' =>
                         if bk =? "branches" then
                           match bv with
                           | VArr bs =>
                               Some (map (fun b => match b with
                                                   | VDoc [("case", c); ("then", t)] =>
                                                       Some (seval vars doc c, seval vars doc t)
                                                   | VDoc [("then", t); ("case", c)] =>
                                                       Some (seval vars doc c, seval vars doc t)
                                                   | _ => None
                                                   end) bs)
                           | _ => None
                           end
                         else find_br l'
                     end) sf in
                let default :=
                  (fix find_d (l : list (string * value)) : option sres :=
                     match l with
                     | [] => None
                     | (bk, bv) :: l' => if bk =? "default" then Some (seval vars doc bv) else find_d l'
                     end) sf in
                if negb (forallb (fun kv => (fst kv =? "branches") || (fst kv =? "default")) sf) then SErr else
                match branches with
                | None | Some [] => SErr
                | Some bs =>
                    (fix go (l : list (option (sres * sres))) : sres :=
                       match l with
                       | [] => match default with Some d => d | None => SErr end
                       | None :: _ => SErr
                       | Some (c, t) :: l' =>
                           match mtruth c with
                           | Some true => t
                           | Some false => go l'
                           | None => SUndef
                           end
                       end) bs
                end
            | _ => SUndef
            end
          else if k =? "$let" then
            match arg with
            | VDoc lf =>
                let var_tbl :=
                  (fix find_vars (l : list (string * value)) : option (option (list (string * sres))) :=
                     match l with
                     | [] => None
                     | (bk, bv) :: l' =>
                         if bk =? "vars" then
                           Some (match bv with
                                 | VDoc vfs => Some (map (fun kv : string * value =>
                                                            match kv with (ck, cv) => (ck, seval vars doc cv) end) vfs)
                                 | _ => None
                                 end)
                         else find_vars l'
                     end) lf in
                let body :=
                  (fix find_in (l : list (string * value)) : option (svars -> sres) :=
                     match l with
                     | [] => None
                     | (bk, bv) :: l' => if bk =? "in" then Some (fun vs => seval vs doc bv) else find_in l'
                     end) lf in
                match var_tbl, body with
                | Some (Some bound), Some b =>
                    if existsb (fun kr => is_sundef (snd kr) || is_serr (snd kr)) bound then SUndef
                    else b (vars ++ bound)
                | _, _ => SErr
                end
            | _ => SUndef
            end
          else if (k =? "$map") || (k =? "$filter") then
            match arg with
            | VDoc mf =>
                let body_key := if k =? "$map" then "in" else "cond" in
                let inp :=
                  (fix find_i (l : list (string * value)) : option sres :=
                     match l with
                     | [] => None
                     | (bk, bv) :: l' => if bk =? "input" then Some (seval vars doc bv) else find_i l'
                     end) mf in
                let body :=
                  (fix find_b (l : list (string * value)) : option (svars -> sres) :=
                     match l with
                     | [] => None
                     | (bk, bv) :: l' => if bk =? body_key then Some (fun vs => seval vs doc bv) else find_b l'
                     end) mf in
                let name := match assoc "as" mf with
                            | None => Some "this" | Some (VStr n) => Some n | Some _ => None end in
                if negb (forallb (fun kv => (fst kv =? "input") || (fst kv =? "as") || (fst kv =? body_key)) mf)
                then SErr else
                match inp, body, name with
                | Some i, Some b, Some n =>
                    if is_sundef i then SUndef
                    else if nullish i then SV VNull
                    else match i with
                         | SV (VArr items) =>
                             let rs := map (fun item => b (vars ++ [(n, SV item)])) items in
                             if k =? "$map" then with_all rs (fun vs => SV (VArr vs))
                             else
                               match (fix truths (l : list sres) : option (list bool) :=
                                        match l with
                                        | [] => Some []
                                        | r :: l' => match mtruth r, truths l' with
                                                     | Some t, Some ts => Some (t :: ts)
                                                     | _, _ => None
                                                     end
                                        end) rs with
                               | Some ts => SV (VArr (map fst (List.filter snd (combine items ts))))
                               | None => SUndef
                               end
                         | SV _ => SErr
                         | _ => SUndef
                         end
                | None, _, _ | _, None, _ => SErr
                | _, _, None => SUndef
                end
            | _ => SUndef
            end
          else if k =? "$concat" then
            match arg with
            | VArr _ =>
                if existsb is_sundef args || existsb is_serr args then SUndef
                else if existsb nullish args then SV VNull
                else match svalues args with
                     | Some vs =>
                         if forallb is_str vs then
                           SV (VStr (fold_left (fun acc v => match v with VStr s => String.append acc s | _ => acc end)
                                               vs EmptyString))
                         else SUndef
                     | None => SUndef
                     end
            | _ => SUndef
            end
          else if (k =? "$toLower") || (k =? "$toUpper") then
            (if nullish one then SV (VStr "") else
             match one with
             | SV (VStr s) => SV (VStr (map_str (if k =? "$toLower" then lower_char else upper_char) s))
             | _ => SUndef
             end)
          else if k =? "$strcasecmp" then
            match arg with
            | VArr [_; _] =>
                match map (fun r => if nullish r then SV (VStr "") else r) args with
                | [SV (VStr s); SV (VStr t)] =>
                    SV (VInt (match String.compare (map_str upper_char s) (map_str upper_char t) with
                              | Eq => 0 | Lt => -1 | Gt => 1 end))
                | _ => SUndef
                end
            | _ => SUndef
            end
          else if k =? "$substr" then
            match arg with
            | VArr [_; _; _] =>
                match args with
                | [s; SV (VInt f); SV (VInt l)] =>
                    match (if nullish s then SV (VStr "") else s) with
                    | SV (VStr str) =>
                        if f <?? 0 then SV (VStr "")
                        else SV (VStr (str_of_list
                                        (let cs := skipn (Z.to_nat f) (list_ascii_of_string str) in
                                         if l <?? 0 then cs else firstn (Z.to_nat l) cs)))
                    | _ => SUndef
                    end
                | _ => SUndef
                end
            | _ => SUndef
            end
          else if k =? "$size" then
            match one with
            | SV (VArr xs) => SV (VInt (Z.of_nat (List.length xs)))
            | SUndef => SUndef
            | _ => SUndef
            end
          else if k =? "$arrayElemAt" then
            match arg with
            | VArr [_; _] =>
                match args with
                | [a; i] =>
                    if is_sundef a || is_sundef i || is_serr a || is_serr i then SUndef
                    else if nullish a || nullish i then SV VNull
                    else match a, i with
                         | SV (VArr xs), SV (VInt n) =>
                             let len := Z.of_nat (List.length xs) in
                             match nth_z xs (if n <?? 0 then len + n else n) with
                             | Some v => SV v
                             | None => SMiss
                             end
                         | _, _ => SUndef
                         end
                | _ => SUndef
                end
            | _ => SUndef
            end
          else if k =? "$concatArrays" then
            (if existsb is_sundef args || existsb is_serr args then SUndef
             else if existsb nullish args then SV VNull
             else match svalues args with
                  | Some vs =>
                      if forallb is_arr vs then
                        SV (VArr (flat_map (fun v => match v with VArr l => l | _ => [] end) vs))
                      else SErr
                  | None => SUndef
                  end)
          else if k =? "$slice" then
            match arg with
            | VArr [_; _] =>
                match args with
                | [a; SV (VInt n)] =>
                    if nullish a then SV VNull else
                    match a with
                    | SV (VArr xs) => SV (VArr (sslice xs None n))
                    | SUndef => SUndef
                    | _ => SErr
                    end
                | _ => SUndef
                end
            | VArr [_; _; _] =>
                match args with
                | [a; SV (VInt p); SV (VInt n)] =>
                    if nullish a then SV VNull else
                    match a with
                    | SV (VArr xs) => if Z.leb n 0 then SErr else SV (VArr (sslice xs (Some p) n))
                    | SUndef => SUndef
                    | _ => SErr
                    end
                | _ => SUndef
                end
            | _ => SUndef
            end
          else if k =? "$isArray" then
            match one with
            | SV (VArr _) => SV (VBool true)
            | SV _ | SMiss => SV (VBool false)
            | other => other
            end
          else if k =? "$isNumber" then
            match one with
            | SV (VInt _) | SV (VDbl _) => SV (VBool true)
            | SV _ | SMiss => SV (VBool false)
            | other => other
            end
          else if k =? "$in" then
            match arg with
            | VArr [_; _] =>
                match args with
                | [SV x; SV (VArr xs)] => SV (VBool (existsb (bson_eq x) xs))
                | [SV _; SV _] | [SV _; SMiss] => SErr
                | _ => SUndef
                end
            | _ => SUndef
            end
          else if k =? "$setEquals" then
            match arg with
            | VArr (_ :: _ :: _) =>
                match svalues args with
                | Some vs =>
                    if forallb is_arr vs then
                      let sets := map (fun v => match v with VArr l => l | _ => [] end) vs in
                      match sets with
                      | s :: rest => SV (VBool (forallb (fun t => set_sub s t && set_sub t s) rest))
                      | [] => SUndef
                      end
                    else SErr
                | None => SUndef
                end
            | _ => SUndef
            end
          else if (k =? "$sum") || (k =? "$avg") || (k =? "$min") || (k =? "$max") then
            match arg with
            | VArr [_] => SUndef      (* one operand in array form: traversed or not - left open *)
            | VArr (_ :: _ :: _) | VArr [] =>
                if existsb is_sundef args || existsb is_serr args then SUndef
                else match svalues (map or_null args) with
                     | Some vs => sfold k vs
                     | None => SUndef
                     end
            | _ =>
                match one with
                | SV (VArr vs) => sfold k vs
                | SV v => sfold k [v]
                | SMiss => sfold k []
                | _ => SUndef
                end
            end
          else if (k =? "$first") || (k =? "$last") then
            (if is_sundef one || is_serr one then SUndef
             else if nullish one then SV VNull
             else match one with
                  | SV (VArr []) => SMiss
                  | SV (VArr (v :: r)) => SV (if k =? "$first" then v else last r v)
                  | _ => SErr
                  end)
          else if (k =? "$hour") || (k =? "$minute") || (k =? "$second") || (k =? "$millisecond")
                  || (k =? "$dayOfWeek") then
            match arg with
            | VDoc _ => SUndef
            | _ =>
                if nullish one then SV VNull else
                match one with
                | SV (VDate us None) => match time_part k us with Some z => SV (VInt z) | None => SUndef end
                | _ => SUndef
                end
            end
          else SUndef
      | _ =>
          if negb (forallb (fun kv => plain_name (fst kv)) fs) then SUndef else
          (fix fields (l : list (string * value)) (acc : list (string * value)) : sres :=
             match l with
             | [] => SV (VDoc acc)
             | (fk, fv) :: l' =>
                 match seval vars doc fv with
                 | SV v => fields l' (set_key fk v acc)
                 | SMiss => fields l' acc
                 | other => other
                 end
             end) fs []
      end
  | _ => SV e
  end.

(* ------------------------------------------------------------ the two observations *)
Inductive sobs (A : Type) : Type :=
| OVal (a : A)      (* the answer *)
| OErr              (* some error *)
| OUndef.
Arguments OVal {A} a.
Arguments OErr {A}.
Arguments OUndef {A}.

(* $addFields: {field: e} *)
Definition spec_add_field (field : string) (e doc : value) : sobs value :=
  match doc with
  | VDoc fs =>
      match seval [] doc e with
      | SV v => OVal (VDoc (set_key field v fs))
      | SMiss => OVal doc
      | SErr => OErr
      | SUndef => OUndef
      end
  | _ => OUndef
  end.

(* {$expr: e} selects the document iff e is truthy *)
Definition spec_expr (e doc : value) : sobs bool :=
  match seval [] doc e with
  | SErr => OErr
  | r => match mtruth r with Some b => OVal b | None => OUndef end
  end.
