(* Correspondence check of C04: model vs implementation, specification vs implementation. *)
From Coq Require Import ZArith List String Bool Ascii.
From Verif Require Import Value PyEq BsonOrder Path Update Expr ExprSpec ExprGuard.
Import ListNotations.
Open Scope Z_scope.
Open Scope string_scope.
Open Scope list_scope.

Record c04_case := mkC04 {
  x_doc : value;
  x_expr : value;
  x_add : res value;      (* aggregate([{$addFields: {x: e}}]) on the one document *)
  x_match : res bool      (* find({$expr: e}) returned the document *)
}.

Definition is_unmod {A} (r : res A) : bool := match r with Err EUnmodelled => true | _ => false end.

(* the specification's answer against the observed one: Some true = agree *)
Definition agree_add (s : sobs value) (i : res value) : option bool :=
  match s, i with
  | OUndef, _ => None
  | _, Err EUnmodelled => None
  | OErr, Err _ => Some true
  | OErr, Ok _ => Some false
  | OVal _, Err _ => Some false
  | OVal a, Ok b => Some (bson_eq a b)
  end.
Definition agree_match (s : sobs bool) (i : res bool) : option bool :=
  match s, i with
  | OUndef, _ => None
  | _, Err EUnmodelled => None
  | OErr, Err _ => Some true
  | OErr, Ok _ => Some false
  | OVal _, Err _ => Some false
  | OVal a, Ok b => Some (Bool.eqb a b)
  end.

Definition c04_check (c : c04_case) : Z :=
  let ma := obs_add_field "x" (x_expr c) (x_doc c) in
  let mm := obs_expr (x_expr c) (x_doc c) in
  let unm := is_unmod ma || is_unmod mm in
  let mism := negb unm && negb (res_eqb value_eqb ma (x_add c) && res_eqb Bool.eqb mm (x_match c)) in
  let sa := agree_add (spec_add_field "x" (x_expr c) (x_doc c)) (x_add c) in
  let sm := agree_match (spec_expr (x_expr c) (x_doc c)) (x_match c) in
  let pfail := negb unm && (match sa with Some false => true | _ => false end
                            || match sm with Some false => true | _ => false end) in
  let undecided := match sa, sm with None, None => true | _, _ => false end in
  let r := c04_reasons (x_expr c) (x_doc c) in
  (if mism then 1 else 0) + (if pfail then 2 else 0) + (if Z.eqb r 0 then 0 else 4)
  + (if unm then 8 else 0) + (if undecided then 16 else 0) + 256 * r.

Definition c04_explain (c : c04_case) :=
  (obs_add_field "x" (x_expr c) (x_doc c), obs_expr (x_expr c) (x_doc c),
   spec_add_field "x" (x_expr c) (x_doc c), spec_expr (x_expr c) (x_doc c)).
