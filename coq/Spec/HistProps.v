(* The history properties as decidable predicates on an OBSERVED trace (operations, and after
   each one: outcome, store contents, index information).  They are written from the
   property statements; the harness evaluates them on the implementation's traces, and the
   theorems in Properties/ state them of the model's traces.  Definitions only. *)
From Coq Require Import ZArith List String Bool Ascii.
From Verif Require Import Value PyEq BsonOrder Path Filter FilterSpec Update Project Coll HistCheck.
Import ListNotations.
Open Scope Z_scope.
Open Scope string_scope.
Open Scope list_scope.
Notation "a <?? b" := (Z.ltb a b) (at level 70).
Notation "a =?? b" := (Z.eqb a b) (at level 70).

Definition store := list (value * value).

Definition doc_id (d : value) : option value :=
  match d with VDoc fs => assoc "_id" fs | _ => None end.

Fixpoint nodup_by {A} (eq : A -> A -> bool) (l : list A) : bool :=
  match l with
  | [] => true
  | x :: l' => negb (existsb (eq x) l') && nodup_by eq l'
  end.

Definition is_ok {A} (r : res A) : bool := match r with Ok _ => true | Err _ => false end.

(* thread (before-store, before-index-info, clock) through a trace *)
Record ctx := mkCtx { x_store : store; x_idx : value; x_now : Z }.
Definition ctx0 : ctx := mkCtx [] (VDoc []) 0.

Fixpoint trace_all (p : ctx -> op -> obs -> bool) (x : ctx) (ops : list op) (os : list obs)
  : bool :=
  match ops, os with
  | o :: ops', (r, s, i) :: os' =>
      p x o (r, s, i) &&
      trace_all p (mkCtx s i (match o with OSetClock t => t | _ => x_now x end)) ops' os'
  | [], [] => true
  | _, _ => false
  end.

(* ================================================================== C05: _id primary key *)
(* the state invariant: ids pairwise different, every document carries the id it is stored
   under *)
Definition inv_id (s : store) : bool :=
  nodup_by bson_eq (map (fun kd => patch (fst kd)) s) &&
  forallb (fun kd => match doc_id (snd kd) with
                     | Some i => bson_eq i (patch (fst kd))
                     | None => false
                     end) s.

Definition has_id (s : store) (i : value) : bool :=
  existsb (fun kd => bson_eq (patch (fst kd)) (patch i)) s.

(* every document of [before] is still there, under the same key, with the same _id, in the
   same relative order; at most [extra] documents were appended *)
Fixpoint ids_preserved (before after : store) : bool :=
  match before, after with
  | [], _ => true
  | (k, d) :: b', (k', d') :: a' =>
      value_eqb k k' && lookup_eqb (doc_id d) (doc_id d') && ids_preserved b' a'
  | _ :: _, [] => false
  end.

Definition scalar_id (v : value) : bool :=
  match v with VDoc _ | VArr _ | VDate _ (Some _) => false | _ => true end.

Definition c05_step (x : ctx) (o : op) (ob : obs) : bool :=
  let '(r, after, _) := ob in
  let before := x_store x in
  inv_id after &&
  match o with
  | OInsertOne (VDoc fs) =>
      match assoc "_id" fs, r with
      | None, Ok (VDoc [("inserted_id", i)]) =>
          (* a fresh id was generated and the document is stored under it *)
          negb (has_id before i) && has_id after i
          && Nat.eqb (List.length after) (S (List.length before))
      | Some i, Ok (VDoc [("inserted_id", j)]) =>
          (* the reported id is the (normalised) id the document is stored under *)
          negb (has_id before i) && value_eqb (patch i) j && has_id after i
      | Some i, Err e =>
          (* a duplicate is rejected with DuplicateKeyError and nothing changes *)
          if has_id before i then err_eqb e EDup && store_eqb before after else true
      | None, Err _ => true
      | _, Ok _ => false
      end
  | OUpdate _ _ _ _ | OReplace _ _ _
  | OFindAndModify _ _ _ (FamUpdate _ _ _) | OFindAndModify _ _ _ (FamReplace _ _ _) =>
      (* no update, replacement or find-and-modify changes or removes an _id *)
      ids_preserved before after
      && Nat.leb (List.length after) (S (List.length before))
  | OFind (VDoc [("_id", v)]) None [] 0 0 =>
      (* a lookup by _id returns exactly the document stored with it *)
      if scalar_id v then
        match r with
        | Ok (VArr l) =>
            list_eqb value_eqb l
              (map snd (List.filter (fun kd => bson_eq (patch (fst kd)) (patch v)) after))
        | _ => false
        end
      else true
  | _ => true
  end.

Definition c05_ok (ops : list op) (os : list obs) : bool := trace_all c05_step ctx0 ops os.

(* ================================================================== C08: failed writes *)
Definition single_doc_write (o : op) : bool :=
  match o with
  | OInsertOne _ | OReplace _ _ _ | OUpdate _ _ false _ | OFindAndModify _ _ _ _ => true
  | _ => false
  end.

Definition c08_step (x : ctx) (o : op) (ob : obs) : bool :=
  let '(r, after, idx) := ob in
  match r with
  | Err _ =>
      if single_doc_write o then store_eqb (x_store x) after && value_eqb (x_idx x) idx
      else true
  | Ok _ => true
  end.

Definition c08_ok (ops : list op) (os : list obs) : bool := trace_all c08_step ctx0 ops os.

(* ================================================================== C14: single-document ops *)
(* stores differ at most at one position (same keys, same order) *)
Fixpoint differ_at_most_one (a b : store) : bool :=
  match a, b with
  | [], [] => true
  | (k, d) :: a', (k', d') :: b' =>
      value_eqb k k' &&
      (if value_eqb d d' then differ_at_most_one a' b' else store_eqb a' b')
  | _, _ => false
  end.
(* b is a with exactly one entry removed, or equal *)
Fixpoint removed_at_most_one (a b : store) : bool :=
  match a, b with
  | [], [] => true
  | (k, d) :: a', [] => match a' with [] => true | _ => false end
  | (k, d) :: a', (k', d') :: b' =>
      if value_eqb k k' && value_eqb d d' then removed_at_most_one a' b'
      else store_eqb a' ((k', d') :: b')
  | [], _ :: _ => false
  end.

(* position of the first entry whose document differs / was removed *)
Fixpoint first_diff (a b : store) : option value :=
  match a, b with
  | (k, d) :: a', (k', d') :: b' =>
      if value_eqb k k' && value_eqb d d' then first_diff a' b' else Some k
  | (k, _) :: _, [] => Some k
  | [], _ => None
  end.

(* the first document of the store matching the filter, in natural order (model matcher) *)
Fixpoint first_match (f : value) (s : store) : option value :=
  match s with
  | [] => None
  | (k, d) :: s' => match filter_applies f d with
                    | Ok true => Some k
                    | _ => first_match f s'
                    end
  end.

Definition opt_value_eqb (a b : option value) : bool :=
  match a, b with None, None => true | Some x, Some y => value_eqb x y | _, _ => false end.

(* the target of find_one_and_*: first match in the requested sort order *)
Definition fam_target (f : value) (sort : list (string * Z)) (s : store) : option value :=
  match scan (patch f) s with
  | Ok m => match sort_docs sort (map snd m) with
            | Ok (d :: _) => doc_id d
            | _ => None
            end
  | Err _ => None
  end.

Definition c14_step (x : ctx) (o : op) (ob : obs) : bool :=
  let '(r, after, _) := ob in
  let before := x_store x in
  if negb (is_ok r) then true else
  match o with
  | OUpdate f _ false upsert | OReplace f _ upsert =>
      (* at most one document changes: the first match in natural order *)
      if Nat.eqb (List.length after) (List.length before) then
        differ_at_most_one before after &&
        match first_diff before after with
        | None => true
        | Some k => opt_value_eqb (first_match (patch f) before) (Some k)
        end
      else upsert && Nat.eqb (List.length after) (S (List.length before))
           && store_eqb before (firstn (List.length before) after)
  | ODelete f false =>
      removed_at_most_one before after &&
      match first_diff before after with
      | None => true
      | Some k => opt_value_eqb (first_match (patch f) before) (Some k)
      end
  | OFindAndModify f proj sort k =>
      let target := fam_target f sort before in
      match k with
      | FamDelete =>
          removed_at_most_one before after &&
          match first_diff before after, target with
          | None, None => true
          | Some k', Some t => bson_eq (patch k') t
          | _, _ => false
          end
      | FamUpdate _ upsert _ | FamReplace _ upsert _ =>
          if Nat.eqb (List.length after) (List.length before) then
            differ_at_most_one before after &&
            match first_diff before after, target with
            | None, _ => true
            | Some k', Some t => bson_eq (patch k') t
            | Some _, None => false
            end
          else upsert && Nat.eqb (List.length after) (S (List.length before))
               && store_eqb before (firstn (List.length before) after)
               && match target with None => true | Some _ => false end
      end
  | _ => true
  end.

Definition c14_ok (ops : list op) (os : list obs) : bool := trace_all c14_step ctx0 ops os.

(* ================================================================== C10: counts = change *)
Definition get_field (k : string) (v : value) : option value :=
  match v with VDoc fs => assoc k fs | _ => None end.

Fixpoint count_changed (a b : store) : Z :=
  match a, b with
  | (_, d) :: a', (_, d') :: b' => (if value_eqb d d' then 0 else 1) + count_changed a' b'
  | _, _ => 0
  end.

Definition new_ids (before after : store) : list value :=
  map fst (skipn (List.length before) after).

Definition c10_step (x : ctx) (o : op) (ob : obs) : bool :=
  let '(r, after, _) := ob in
  let before := x_store x in
  match r with
  | Err _ => true
  | Ok v =>
      match o with
      | ODelete _ _ =>
          (* deleted_count is the drop in collection size *)
          opt_value_eqb (get_field "deleted" v)
            (Some (VInt (Z.of_nat (List.length before) - Z.of_nat (List.length after))))
      | OInsertOne _ =>
          match get_field "inserted_id" v with
          | Some i => list_eqb value_eqb (new_ids before after) [i]
          | None => false
          end
      | OInsertMany _ _ =>
          match get_field "inserted_ids" v with
          | Some (VArr ids) => list_eqb value_eqb (new_ids before after) ids
          | _ => true     (* BulkWriteError: see C08/C15 *)
          end
      | OUpdate _ _ _ _ | OReplace _ _ _ =>
          (* modified_count is the number of documents whose content differs afterwards *)
          opt_value_eqb (get_field "modified" v) (Some (VInt (count_changed before after)))
      | _ => true
      end
  end.

Definition c10_ok (ops : list op) (os : list obs) : bool := trace_all c10_step ctx0 ops os.

(* ================================================================== C13: upsert *)
Definition any_match (f : value) (s : store) : option bool :=
  match scan (patch f) s with
  | Ok [] => Some false
  | Ok _ => Some true
  | Err _ => None
  end.

(* filter made of equality conditions only: plain keys with non-document literals or {$eq: v} *)
Definition equality_only (f : value) : bool :=
  match f with
  | VDoc fs =>
      forallb (fun kv =>
        negb (starts_dollar (fst kv)) &&
        match snd kv with
        | VDoc [("$eq", v)] => negb (is_doc v)
        | VDoc _ => false
        | _ => true
        end) fs
  | _ => false
  end.

Definition update_paths (u : value) : list string :=
  match u with
  | VDoc ufs => flat_map (fun kv => match snd kv with
                                    | VDoc fields =>
                                        map fst fields
                                        (* a $rename also writes its target path *)
                                        ++ (if String.eqb (fst kv) "$rename"
                                            then flat_map (fun f => match snd f with VStr t => [t] | _ => [] end) fields
                                            else [])
                                    | _ => [] end) ufs
  | _ => []
  end.

Fixpoint is_prefix_parts (a b : list string) : bool :=
  match a, b with
  | [], _ => true
  | x :: a', y :: b' => String.eqb x y && is_prefix_parts a' b'
  | _ :: _, [] => false
  end.
Definition paths_overlap (p q : string) : bool :=
  is_prefix_parts (split_dots p) (split_dots q) || is_prefix_parts (split_dots q) (split_dots p).

(* where does the _id of an upserted document come from: filter, then update, else fresh *)
Definition upsert_id_source (f u : value) : option value :=
  let nn (o : option value) := match o with Some i => if is_null i then None else Some i | None => None end in
  match nn (get_field "_id" (patch f)) with
  | Some i => Some i
  | None => nn (get_field "_id" (patch u))
  end.

Definition c13_upsert_ok (x : ctx) (f u : value) (is_update : bool) (r : res value) (after : store)
  : bool :=
  let before := x_store x in
  match r with
  | Err _ => true
  | Ok v =>
      match any_match f before with
      | None => true
      | Some true =>
          (* something matched: no insertion *)
          Nat.eqb (List.length after) (List.length before)
          && opt_value_eqb (get_field "upserted_id" v) (Some VNull)
      | Some false =>
          (* nothing matched: exactly one new document, appended *)
          Nat.eqb (List.length after) (S (List.length before))
          && store_eqb before (firstn (List.length before) after)
          && opt_value_eqb (get_field "matched" v) (Some (VInt 0))
          && match last after (VNull, VNull), get_field "upserted_id" v with
             | (k, d), Some uid =>
                 negb (is_null uid)
                 && opt_value_eqb (doc_id d) (Some uid)
                 && match upsert_id_source f u with
                    | Some i => (is_doc i && existsb (fun kv => starts_dollar (fst kv))
                                                    (match i with VDoc fs => fs | _ => [] end))
                                || bson_eq uid i
                    | None => match uid with VOid _ => true | _ => false end
                    end
                 && (* equality-only filter the update does not overwrite: matched afterwards *)
                    (if is_update && equality_only f
                        && negb (existsb (fun p => existsb (fun q => paths_overlap p (fst q))
                                                     (match f with VDoc fs => fs | _ => [] end))
                                         (update_paths u))
                     then match filter_applies (patch f) d with
                          | Ok b => b
                          | Err _ => true
                          end
                     else true)
             | _, None => false
             end
      end
  end.

Definition c13_step (x : ctx) (o : op) (ob : obs) : bool :=
  let '(r, after, _) := ob in
  match o with
  | OUpdate f u _ true => c13_upsert_ok x f u true r after
  | OReplace f u true => c13_upsert_ok x f u false r after
  | _ => true
  end.

Definition c13_ok (ops : list op) (os : list obs) : bool := trace_all c13_step ctx0 ops os.

(* ================================================================== C15: bulk = sequential *)
(* issue the requests one at a time through the single-operation steps *)
Definition req_step (pre5 : bool) (c : coll) (r : bulk_req) : coll * res value :=
  match r with
  | BInsert d => insert_one c d
  | BUpdate f u multi upsert => update_op pre5 c f u multi upsert
  | BReplace f u upsert => update pre5 c f u false upsert
  | BDelete f multi => delete_op c f multi
  end.

Fixpoint seq_run (pre5 : bool) (c : coll) (rs : list bulk_req) (ordered : bool)
         (acc : list (res value)) : coll * list (res value) * bool (* aborted by a non-write error *) :=
  match rs with
  | [] => (c, acc, false)
  | r :: rs' =>
      let '(c', o) := req_step pre5 c r in
      match o with
      | Ok _ => seq_run pre5 c' rs' ordered (acc ++ [o])
      | Err e =>
          if is_write_error e then
            if ordered then (c', acc ++ [o], false)
            else seq_run pre5 c' rs' ordered (acc ++ [o])
          else (c', acc ++ [o], true)
      end
  end.

Definition sum_field (k : string) (rs : list (res value)) : Z :=
  fold_right (fun r acc => match r with
                           | Ok v => match get_field k v with Some (VInt z) => z + acc | _ => acc end
                           | Err _ => acc end) 0 rs.

Definition count_ok_kind (p : bulk_req -> bool) (rs : list bulk_req) (outs : list (res value)) : Z :=
  fold_right (fun ro acc => match ro with
                            | (r, Ok _) => if p r then 1 + acc else acc
                            | _ => acc end) 0 (combine rs outs).

Definition is_upsert_result (r : res value) : bool :=
  match r with
  | Ok v => match get_field "upserted_id" v with Some u => negb (is_null u) | None => false end
  | Err _ => false
  end.

Definition error_indexes (outs : list (res value)) : list Z :=
  (fix go (outs : list (res value)) (k : Z) : list Z :=
     match outs with
     | [] => []
     | Err _ :: outs' => k :: go outs' (k + 1)
     | Ok _ :: outs' => go outs' (k + 1)
     end) outs 0.

(* the collection state before the bulk is rebuilt from the observed store (the bulk's
   effect is compared with the model's single steps run from that state) *)
Definition c15_step (pre5 : bool) (mc : coll) (o : op) (ob : obs) : bool :=
  let '(r, after, _) := ob in
  match o with
  | OBulk rs ordered =>
      match rs with [] => true | _ =>
      let '(c', outs, aborted) := seq_run pre5 mc rs ordered [] in
      if existsb (fun x => match x with Err EUnmodelled => true | _ => false end) outs then true else
      if aborted then
        (* a non-write error aborts the batch: only the state is claimed *)
        store_eqb (docs c') after
      else
        store_eqb (docs c') after &&
        match r with
        | Ok v =>
            let body := match get_field "BulkWriteError" v with Some b => b | None => v end in
            let nonup := List.filter (fun x => negb (is_upsert_result x)) outs in
            opt_value_eqb (get_field "nInserted" body)
              (Some (VInt (count_ok_kind (fun q => match q with BInsert _ => true | _ => false end) rs outs)))
            && opt_value_eqb (get_field "nMatched" body) (Some (VInt (sum_field "matched" nonup)))
            && opt_value_eqb (get_field "nModified" body) (Some (VInt (sum_field "modified" outs)))
            && opt_value_eqb (get_field "nRemoved" body) (Some (VInt (sum_field "deleted" outs)))
            && opt_value_eqb (get_field "nUpserted" body)
                 (Some (VInt (Z.of_nat (List.length (List.filter is_upsert_result outs)))))
            && opt_value_eqb (get_field "upserted" body)
                 (Some (VArr (flat_map (fun x => match x with
                                                 | Ok w => match get_field "upserted_id" w with
                                                           | Some u => if is_null u then [] else [u]
                                                           | None => [] end
                                                 | Err _ => [] end) outs)))
            && match get_field "BulkWriteError" v with
               | Some b =>
                   match get_field "writeErrors" b with
                   | Some (VArr es) =>
                       list_eqb Z.eqb (error_indexes outs)
                         (flat_map (fun e => match get_field "index" e with
                                             | Some (VInt z) => [z] | _ => [] end) es)
                   | _ => false
                   end
               | None => match error_indexes outs with [] => true | _ => false end
               end
        | Err _ => false
        end
      end
  | _ => true
  end.

(* C15 needs the model state (indexes, clock, id supply) before each step: it is obtained by
   running the model along; the check is skipped from the first unmodelled step on *)
Fixpoint c15_trace (pre5 : bool) (mc : coll) (ops : list op) (os : list obs) : bool :=
  match ops, os with
  | o :: ops', ob :: os' =>
      let '(mc', mr) := step pre5 mc o in
      if is_unmod mr then true
      else c15_step pre5 mc o ob &&
           (* continue from the OBSERVED store so that one divergence is reported once *)
           c15_trace pre5 (with_docs mc' (snd (fst ob))) ops' os'
  | _, _ => true
  end.
Definition c15_ok (pre5 : bool) (ops : list op) (os : list obs) : bool :=
  c15_trace pre5 empty_coll ops os.

(* ================================================================== C06: unique indexes *)
Definition index_specs (info : value) : list (string * value) :=
  match info with VDoc fs => List.filter (fun kv => negb (fst kv =? "_id_")) fs | _ => [] end.

Definition idx_keys (i : value) : list string :=
  match get_field "key" i with
  | Some (VArr ks) => flat_map (fun k => match k with VArr (VStr n :: _) => [n] | _ => [] end) ks
  | _ => []
  end.
Definition idx_flag (k : string) (i : value) : bool :=
  match get_field k i with Some v => truthy v | None => false end.

(* the values one indexed field contributes: missing -> null, an array -> each element *)
Definition field_keys (path : string) (d : value) : list value :=
  flat_map (fun c => match c with
                     | None => [VNull]
                     | Some (VArr xs) => xs
                     | Some v => [v]
                     end) (FilterSpec.path_values (split_dots path) d).

Fixpoint tuples (fields : list (list value)) : list (list value) :=
  match fields with
  | [] => [[]]
  | vs :: rest => flat_map (fun v => map (fun t => v :: t) (tuples rest)) vs
  end.

Definition doc_index_keys (i : value) (d : value) : list (list value) :=
  tuples (map (fun p => field_keys p d) (idx_keys i)).

Definition covered (i : value) (d : value) : bool :=
  (if idx_flag "sparse" i
   then existsb (fun p => match get_by_dot (split_dots p) d with Some _ => true | None => false end)
                (idx_keys i)
   else true) &&
  match get_field "partialFilterExpression" i with
  | Some pf => match filter_applies pf d with Ok b => b | Err _ => true end
  | None => true
  end.

Definition tuple_eq (a b : list value) : bool := list_eqb bson_eq a b.

Fixpoint no_shared_keys (ks : list (list (list value))) : bool :=
  match ks with
  | [] => true
  | k :: rest =>
      negb (existsb (fun k' => existsb (fun t => existsb (tuple_eq t) k') k) rest)
      && no_shared_keys rest
  end.

Definition inv_unique (info : value) (s : store) : bool :=
  forallb (fun ni =>
    let i := snd ni in
    if idx_flag "unique" i then
      no_shared_keys (map (fun kd => doc_index_keys i (snd kd))
                          (List.filter (fun kd => covered i (snd kd)) s))
    else true) (index_specs info).

Definition c06_step (x : ctx) (o : op) (ob : obs) : bool :=
  let '(r, after, idx) := ob in
  inv_unique idx after &&
  match o, r with
  | OCreateIndex _ true _ _ _ _, Err _ =>
      (* a failed unique index creation leaves no index behind *)
      value_eqb idx (x_idx x)
  | _, _ => true
  end.

Definition c06_ok (ops : list op) (os : list obs) : bool := trace_all c06_step ctx0 ops os.

(* ================================================================== C09: TTL *)
Definition ttl_specs (info : value) : list (string * Z) :=
  (* single-field TTL indexes with an integer-valued expireAfterSeconds: (field, seconds) *)
  flat_map (fun ni =>
    let i := snd ni in
    match get_field "expireAfterSeconds" i, idx_keys i with
    | Some s, [field] =>
        match ttl_seconds s with
        | Ok (Some n) => [(field, n)]
        | _ => []
        end
    | _, _ => []
    end) (index_specs info).

(* the date a document expires by: earliest date of the (top-level) field *)
Definition doc_expired (now : Z) (spec : string * Z) (d : value) : bool :=
  meets_expiry (match d with VDoc fs => assoc (fst spec) fs | _ => None end) (snd spec) now.

Definition expired_any (now : Z) (info : value) (d : value) : bool :=
  existsb (fun sp => doc_expired now sp d) (ttl_specs info).

Definition triggers_expiry (o : op) : bool :=
  match o with
  | OSetClock _ | ODropIndexes | OIndexInfo | ODrop => false
  | OCreateIndex _ unique _ _ _ _ => unique
  | _ => true
  end.

Definition may_remove (o : op) : bool :=
  match o with
  | ODelete _ _ | ODrop | OBulk _ _ | OFindAndModify _ _ _ FamDelete => true
  | _ => false
  end.

Definition key_in (k : value) (s : store) : bool := existsb (fun kd => value_eqb (fst kd) k) s.

Definition c09_step (x : ctx) (o : op) (ob : obs) : bool :=
  let '(r, after, idx) := ob in
  let before := x_store x in
  let now := x_now x in
  (* (a) whatever disappears without being deleted had expired *)
  (if may_remove o then true
   else forallb (fun kd => key_in (fst kd) after || expired_any now (x_idx x) (snd kd)) before)
  &&
  (* (b) after an operation that reads the store, no surviving old document is expired *)
  (if triggers_expiry o && is_ok r
   then forallb (fun kd => negb (key_in (fst kd) before && expired_any now (x_idx x) (snd kd))) after
   else true)
  &&
  (* (c) reads return only visible documents *)
  match o, r with
  | OFind _ None _ _ _, Ok (VArr l) => forallb (fun d => negb (expired_any now (x_idx x) d)) l
  | _, _ => true
  end.

Definition c09_ok (ops : list op) (os : list obs) : bool := trace_all c09_step ctx0 ops os.
