(* C18: datetimes are stored as naive UTC milliseconds.  Definitions only. *)
From Coq Require Import ZArith List String Bool.
From Verif Require Import Value PyEq BsonOrder Path Filter Update Project Coll HistCheck HistProps.
Import ListNotations.
Open Scope Z_scope.

(* every datetime inside the value is naive and a whole number of milliseconds *)
Fixpoint dates_normal (v : value) : bool :=
  match v with
  | VDate us None => Z.eqb (us mod 1000) 0
  | VDate _ (Some _) => false
  | VDoc fs => (fix go (fs : list (string * value)) : bool :=
                  match fs with [] => true | (_, x) :: fs' => dates_normal x && go fs' end) fs
  | VArr xs => (fix go (xs : list value) : bool :=
                  match xs with [] => true | x :: xs' => dates_normal x && go xs' end) xs
  | _ => true
  end.

(* two datetimes denote the same millisecond *)
Definition same_ms (a b : value) : bool :=
  match a, b with
  | VDate x tx, VDate y ty => Z.eqb (date_key x tx / 1000) (date_key y ty / 1000)
  | _, _ => false
  end.

(* helpers.make_datetime_timezone_aware_in_document: tz_aware=True clients *)
Fixpoint make_aware (v : value) : value :=
  match v with
  | VDate us _ => VDate us (Some 0)
  | VDoc fs => VDoc ((fix go (fs : list (string * value)) :=
                        match fs with [] => [] | (k, x) :: fs' => (k, make_aware x) :: go fs' end) fs)
  | VArr xs => VArr ((fix go (xs : list value) :=
                        match xs with [] => [] | x :: xs' => make_aware x :: go xs' end) xs)
  | _ => v
  end.

(* every datetime is UTC-aware, at every depth *)
Fixpoint dates_aware_utc (v : value) : bool :=
  match v with
  | VDate _ (Some 0) => true
  | VDate _ _ => false
  | VDoc fs => (fix go (fs : list (string * value)) : bool :=
                  match fs with [] => true | (_, x) :: fs' => dates_aware_utc x && go fs' end) fs
  | VArr xs => (fix go (xs : list value) : bool :=
                  match xs with [] => true | x :: xs' => dates_aware_utc x && go xs' end) xs
  | _ => true
  end.
Fixpoint dates_naive (v : value) : bool :=
  match v with
  | VDate _ None => true
  | VDate _ (Some _) => false
  | VDoc fs => (fix go (fs : list (string * value)) : bool :=
                  match fs with [] => true | (_, x) :: fs' => dates_naive x && go fs' end) fs
  | VArr xs => (fix go (xs : list value) : bool :=
                  match xs with [] => true | x :: xs' => dates_naive x && go xs' end) xs
  | _ => true
  end.

Definition returns_documents (o : op) : bool :=
  match o with
  | OFind _ _ _ _ _ | OFindAndModify _ _ _ _ | ODistinct _ _ => true
  | _ => false
  end.

(* the C18 predicate on an observed trace of a client created with tz_aware = aware *)
Definition c18_step (aware : bool) (x : ctx) (o : op) (ob : obs) : bool :=
  let '(r, after, _) := ob in
  forallb (fun kd => dates_normal (snd kd)) after &&
  match r with
  | Ok v => if returns_documents o then (if aware then dates_aware_utc v else dates_naive v) else true
  | Err _ => true
  end.
Definition c18_ok (aware : bool) (ops : list op) (os : list obs) : bool :=
  trace_all (c18_step aware) ctx0 ops os.

(* correspondence for tz_aware clients: the model's outcome with returned documents made aware *)
Definition aware_outcome (aware : bool) (o : op) (r : res value) : res value :=
  match r with
  | Ok v => if aware && returns_documents o then Ok (make_aware v) else r
  | Err _ => r
  end.

Fixpoint compare_run18 (aware pre5 : bool) (c : coll) (ops : list op) (os : list obs) (k : Z)
  : option Z * option Z :=
  match ops, os with
  | o :: ops', (ir, istore, iidx) :: os' =>
      let '(c', mr) := step pre5 c o in
      if is_unmod mr then (None, Some k)
      else if outcome_eqb (aware_outcome aware o mr) ir && store_eqb (docs c') istore
           then compare_run18 aware pre5 c' ops' os' (k + 1)
           else (Some k, None)
  | [], [] => (None, None)
  | _, _ => (Some k, None)
  end.

Record c18_case := mkC18 { t_aware : bool; t_hist : hist_case }.

Definition c18_check (c : c18_case) : Z :=
  let h := t_hist c in
  let cr := compare_run18 (t_aware c) (h_pre5 h) empty_coll (h_ops h) (h_obs h) 0 in
  (match fst cr with Some _ => 1 | None => 0 end)
  + (if c18_ok (t_aware c) (h_ops h) (h_obs h) then 0 else 2)
  + (match snd cr with Some _ => 8 | None => 0 end).

Definition c18_explain (c : c18_case) :=
  (compare_run18 (t_aware c) (h_pre5 (t_hist c)) empty_coll (h_ops (t_hist c)) (h_obs (t_hist c)) 0,
   run (h_pre5 (t_hist c)) empty_coll (h_ops (t_hist c))).
