(* C07: what the run evaluates on an observed history.  The harness runs the real library
   WITHOUT copying anything it passes in or gets back, and records after every call: the
   outcome, the store, the Python object identities (id()) reachable from every stored
   document, from the argument objects and from the returned object, whether the arguments
   still equal the deep copies taken before the call (an insert may add _id), and whether
   scribbling on every argument and returned object left the store unchanged. *)
From Coq Require Import ZArith List String Bool.
From Verif Require Import Value PyEq BsonOrder Path Filter Update Coll Expr Pipeline Heap HistCheck.
Import ListNotations.
Open Scope Z_scope.

Record hobs := mkHObs {
  b_result : res value;
  b_store : list (value * value);
  b_store_ids : list ids;
  b_args_ids : ids;
  b_result_ids : ids;
  b_args_ok : bool;
  b_scribble_ok : bool
}.

Record c07_case := mkC07 {
  w_pre5 : bool;
  w_ops : list (hop * ids);       (* the operation and the identities of its argument objects *)
  w_obs : list hobs
}.

(* the statement, on what was observed after one call *)
Definition c07_step_ok (b : hobs) : bool :=
  pairwise_apart (b_store_ids b)
  && forallb (fun s => negb (meets s (b_args_ids b)) && negb (meets s (b_result_ids b))) (b_store_ids b)
  && b_args_ok b && b_scribble_ok b.

(* who shares with whom: stored documents pairwise, each with the arguments, each with the result *)
Fixpoint pair_rel (l : list ids) : list bool :=
  match l with
  | [] => []
  | s :: l' => map (meets s) l' ++ pair_rel l'
  end.
Definition share_rel (store : list ids) (args result : ids) : list bool :=
  pair_rel store ++ map (fun s => meets s args) store ++ map (fun s => meets s result) store.

Fixpoint c07_walk (pre5 : bool) (s : hstate) (ops : list (hop * ids)) (os : list hobs)
  : bool * bool * bool :=      (* mismatch, predicate false, left the model *)
  match ops, os with
  | (h, args) :: ops', b :: os' =>
      let out := hstep here pre5 s h args in
      match ho_result out with
      | Err EUnmodelled => (false, false, true)
      | mr =>
          let s' := ho_state out in
          let same := outcome_eqb mr (b_result b) && store_eqb (docs (h_coll s')) (b_store b)
                      && list_eqb Bool.eqb (share_rel (map snd (h_own s')) args (ho_result_ids out))
                                           (share_rel (b_store_ids b) (b_args_ids b) (b_result_ids b)) in
          let pbad := negb (c07_step_ok b) in
          if negb same then (true, pbad, false)
          else let '(m, p, u) := c07_walk pre5 s' ops' os' in (m, pbad || p, u)
      end
  | _, _ => (false, false, false)
  end.

Definition c07_check (c : c07_case) : Z :=
  let '(m, p, u) := c07_walk (w_pre5 c) h_init (w_ops c) (w_obs c) in
  (* the predicate is evaluated on every observed step, whatever the model says *)
  let p_all := negb (forallb c07_step_ok (w_obs c)) in
  (if m then 1 else 0) + (if p_all then 2 else 0) + (if u then 8 else 0).

Definition c07_explain (c : c07_case) :=
  (c07_walk (w_pre5 c) h_init (w_ops c) (w_obs c), map c07_step_ok (w_obs c)).
