(* C13: histories on which the model's own trace violates c13_ok, found while proving
   C13_history.  Part A: classes now rejected by the guard (c13_reasons bits 1, 2, 4); on
   these even the weakened predicate c13w_ok (Proofs/C13Proofs.v) is false.  Part B: histories
   INSIDE the guard on which the two clauses left out of C13_history_partial are false: where the
   upserted _id comes from, and "the new document matches an equality-only filter".  These are
   why the full statement C13_history is not a theorem. *)
From Coq Require Import ZArith List String Bool Ascii.
From Verif Require Import Value PyEq BsonOrder Path Filter Update Project Coll HistCheck HistProps
  HistGuards HistPropCheck.
From Verif.Proofs Require Import C13Proofs.
Import ListNotations.
Open Scope Z_scope.
Open Scope string_scope.

Definition verdict (ops : list op) : bool * bool * Z :=
  let os := model_obs false empty_coll ops in (c13_ok ops os, c13w_ok ops os, c13_reasons ops os).
Definition last_step (ops : list op) : option (res value * list (value * value)) :=
  match rev (model_obs false empty_coll ops) with
  | (r, s, _) :: _ => Some (r, s)
  | [] => None end.

(* ------------------------------------------------------------------ A: guarded classes *)
(* A1 (bit 1).  The only matching document has expired: the upsert first removes it, then
   matches nothing and inserts, although "something matched" in the store as it was before the
   operation.  TTL semantics, not a defect. *)
Definition cex_ttl : list op :=
  [OInsertOne (VDoc [("_id", VInt 1); ("t", VDate 0 None)]);
   OCreateIndex [("t", VInt 1)] false false (Some (VInt 1)) None None;
   OSetClock 5000000;
   OUpdate (VDoc [("_id", VInt 1)]) (VDoc [("$set", VDoc [("x", VInt 1)])]) false true].
Example refuted_ttl :
  verdict cex_ttl = (false, false, 1) /\
  last_step cex_ttl =
  Some (Ok (VDoc [("matched", VInt 0); ("modified", VInt 0); ("upserted_id", VInt 1)]),
        [(VInt 1, VDoc [("_id", VInt 1); ("x", VInt 1)])]).
Proof. vm_compute. split; reflexivity. Qed.

(* A2 (bit 2).  An _id sub-document with duplicate keys is not == to itself (py_eq follows the
   first occurrence of a key), yet it can be == to another document: updating the _id to that
   one passes the "same _id" check, and store_set, not finding the key, appends a second entry.
   Values with duplicate keys are not Python dicts: a model artefact, no library behaviour. *)
Definition cex_v1 := VDoc [("p", VInt 1); ("p", VInt 1)].
Definition cex_v2 := VDoc [("p", VInt 1); ("q", VInt 1)].
Definition cex_selfneq : list op :=
  [OInsertOne (VDoc [("_id", VDoc [("a", cex_v1); ("a", cex_v2)])]);
   OUpdate (VDoc []) (VDoc [("$set", VDoc [("_id", VDoc [("a", cex_v2); ("z", VInt 0)])])])
           false true].
Example refuted_selfneq :
  verdict cex_selfneq = (false, false, 2) /\
  option_map (fun rs => (fst rs, List.length (snd rs))) (last_step cex_selfneq) =
  Some (Ok (VDoc [("matched", VInt 1); ("modified", VInt 1); ("upserted_id", VNull)]), 2%nat).
Proof. vm_compute. split; reflexivity. Qed.

(* A3 (bit 4).  The filter's _id condition is an operator document (dropped from the seed) and
   the update sets _id to None: a document is inserted under _id None, the result says
   upserted_id None (= "no upsert") and matched_count 1.  pymongo's UpdateResult has the same
   reading of a null upserted id; a curiosity rather than a mongomock defect. *)
Definition cex_null_id : list op :=
  [OUpdate (VDoc [("_id", VDoc [("$gt", VInt 5)])]) (VDoc [("$set", VDoc [("_id", VNull)])])
           false true].
Example refuted_null_id :
  verdict cex_null_id = (false, false, 4) /\
  last_step cex_null_id =
  Some (Ok (VDoc [("matched", VInt 1); ("modified", VInt 0); ("upserted_id", VNull)]),
        [(VNull, VDoc [("_id", VNull)])]).
Proof. vm_compute. split; reflexivity. Qed.

(* A4 (WAS bit 8, now removed from the guard).  $currentDate on _id with a clock that has
   sub-millisecond precision: the result (and the store key) used to carry the microsecond
   value, the stored document the value truncated to milliseconds, so that upserted_id was not
   the _id of the stored document and even c13w_ok failed.  The library now keys the store
   by, and returns, the normalised _id: c13w_ok holds and the history is inside the guard.
   (c13_ok itself is still false on it, for the reason of part B: the _id comes from
   $currentDate, neither from the filter nor from the update document nor fresh.) *)
Definition cex_submilli : list op :=
  [OSetClock 1234567;
   OUpdate (VDoc [("a", VInt 1)]) (VDoc [("$currentDate", VDoc [("_id", VBool true)])]) false true].
Example submilli_now_holds_weak :
  verdict cex_submilli = (false, true, 0) /\
  last_step cex_submilli =
  Some (Ok (VDoc [("matched", VInt 0); ("modified", VInt 0);
                  ("upserted_id", VDate 1234000 None)]),
        [(VDate 1234000 None, VDoc [("a", VInt 1); ("_id", VDate 1234000 None)])]).
Proof. vm_compute. split; reflexivity. Qed.

(* ------------------------------------------------------------------ B: the omitted clauses *)
(* In each case: c13_ok false, c13w_ok true, inside the guard. *)

(* B1.  The update overwrites the _id taken from the filter: {_id: 5} / {$set: {_id: 7}} inserts
   {_id: 7} (MongoDB rejects this upsert).  Defect candidate. *)
Definition cex_set_id : list op :=
  [OUpdate (VDoc [("_id", VInt 5)]) (VDoc [("$set", VDoc [("_id", VInt 7)])]) false true].
Example refuted_set_id :
  verdict cex_set_id = (false, true, 0) /\
  last_step cex_set_id =
  Some (Ok (VDoc [("matched", VInt 0); ("modified", VInt 0); ("upserted_id", VInt 7)]),
        [(VInt 7, VDoc [("_id", VInt 7)])]).
Proof. vm_compute. split; reflexivity. Qed.

(* B2 (WAS a counterexample, now handled correctly).  replace_one({_id: 0}, {}, upsert=True):
   the empty replacement used to keep the filter's _id only when it was truthy, so for a falsy
   _id (0, False, "", 0.0) a document with a FRESH ObjectId was inserted, the filter still
   matched nothing afterwards and a second identical call inserted again.  The library now
   keeps the _id unless it is None: the first call inserts {_id: 0}, the second one matches
   it; c13_ok holds. *)
Definition cex_falsy_id : list op :=
  [OReplace (VDoc [("_id", VInt 0)]) (VDoc []) true;
   OReplace (VDoc [("_id", VInt 0)]) (VDoc []) true].
Example falsy_id_now_holds :
  verdict cex_falsy_id = (true, true, 0) /\
  map (fun ob : obs => (fst (fst ob), snd (fst ob))) (model_obs false empty_coll cex_falsy_id) =
  [ (Ok (VDoc [("matched", VInt 0); ("modified", VInt 0); ("upserted_id", VInt 0)]),
     [(VInt 0, VDoc [("_id", VInt 0)])]);
    (Ok (VDoc [("matched", VInt 1); ("modified", VInt 0); ("upserted_id", VNull)]),
     [(VInt 0, VDoc [("_id", VInt 0)])]) ].
Proof. vm_compute. split; reflexivity. Qed.

(* B3.  An _id sub-document whose only content is a nested operator: _discard_operators drops
   the whole _id from the seed and a fresh ObjectId is used.  (The statement only excuses
   operators at the top level of the _id condition.) *)
Definition cex_nested_op_id : list op :=
  [OUpdate (VDoc [("_id", VDoc [("a", VDoc [("$gt", VInt 1)])])])
           (VDoc [("$set", VDoc [("x", VInt 7)])]) false true].
Example refuted_nested_op_id :
  verdict cex_nested_op_id = (false, true, 0) /\
  last_step cex_nested_op_id =
  Some (Ok (VDoc [("matched", VInt 0); ("modified", VInt 0); ("upserted_id", VOid 1000)]),
        [(VOid 1000, VDoc [("x", VInt 7); ("_id", VOid 1000)])]).
Proof. vm_compute. split; reflexivity. Qed.

(* B4.  The replacement's _id is checked against the filter's with Python ==: True == 1, so
   {_id: 1} / {_id: True} inserts {_id: True}, which is not BSON-equal to 1. *)
Definition cex_bool_id : list op :=
  [OReplace (VDoc [("_id", VInt 1)]) (VDoc [("_id", VBool true)]) true].
Example refuted_bool_id :
  verdict cex_bool_id = (false, true, 0) /\
  last_step cex_bool_id =
  Some (Ok (VDoc [("matched", VInt 0); ("modified", VInt 0); ("upserted_id", VBool true)]),
        [(VBool true, VDoc [("_id", VBool true)])]).
Proof. vm_compute. split; reflexivity. Qed.

(* B5.  Last clause: an equality-only filter on a path with a component starting with "$":
   _expand_dots builds {a: {$x: 1}}, _discard_operators drops it; the new document does not
   match the filter. *)
Definition cex_dollar_part : list op :=
  [OUpdate (VDoc [("a.$x", VInt 1)]) (VDoc [("$set", VDoc [("b", VInt 1)])]) false true].
Example refuted_dollar_part :
  verdict cex_dollar_part = (false, true, 0) /\
  last_step cex_dollar_part =
  Some (Ok (VDoc [("matched", VInt 0); ("modified", VInt 0); ("upserted_id", VOid 1000)]),
        [(VOid 1000, VDoc [("_id", VOid 1000); ("b", VInt 1)])]).
Proof. vm_compute. split; reflexivity. Qed.

(* B6.  Last clause: a path with a trailing dot: the seed gets {a: {"": 1}} while the matcher
   reads "a." as the parent value (C01 finding: trailing empty component). *)
Definition cex_trailing_dot : list op :=
  [OUpdate (VDoc [("a.", VInt 1)]) (VDoc [("$set", VDoc [("b", VInt 1)])]) false true].
Example refuted_trailing_dot_upsert :
  verdict cex_trailing_dot = (false, true, 0) /\
  last_step cex_trailing_dot =
  Some (Ok (VDoc [("matched", VInt 0); ("modified", VInt 0); ("upserted_id", VOid 1000)]),
        [(VOid 1000, VDoc [("a", VDoc [("", VInt 1)]); ("_id", VOid 1000); ("b", VInt 1)])]).
Proof. vm_compute. split; reflexivity. Qed.

(* ------------------------------------------------------------------ C: two more classes *)
(* Found while proving the clause "where the upserted _id comes from" and probing the clause
   "the new document matches an equality-only filter": histories on which c13_ok is false
   although c13_reasons (bits 1, 2, 4) was 0 AND the syntactic screen c13_undecided
   (Spec/HistPropCheck.v) was false.  Each is now reported by a new bit of c13_reasons. *)
Definition undecided_verdict (ops : list op) : bool * bool * Z * bool * bool :=
  let os := model_obs false empty_coll ops in
  (c13_ok ops os, c13w_ok ops os, c13_reasons ops os, HistPropCheck.c13_undecided ops,
   modelled false empty_coll ops).

(* C1 (bit 32, F-UPSERT-ID-SUBFIELD).  The update addresses a path BELOW _id: the seed takes
   _id {a: 1} from the filter, {$set: {"_id.x": 1}} then rewrites it: the document is inserted
   under _id {a: 1, x: 1}, which is not the filter's _id, and the filter does not match the
   upserted document.  The server rejects the update (_id is immutable).  Defect candidate (same
   family as B1, which c13_undecided screens because the path is "_id" itself). *)
Definition cex_id_subfield : list op :=
  [OUpdate (VDoc [("_id", VDoc [("a", VInt 1)])]) (VDoc [("$set", VDoc [("_id.x", VInt 1)])])
           false true].
Example refuted_id_subfield :
  undecided_verdict cex_id_subfield = (false, true, 32, false, true) /\
  last_step cex_id_subfield =
  Some (Ok (VDoc [("matched", VInt 0); ("modified", VInt 0);
                  ("upserted_id", VDoc [("a", VInt 1); ("x", VInt 1)])]),
        [(VDoc [("a", VInt 1); ("x", VInt 1)], VDoc [("_id", VDoc [("a", VInt 1); ("x", VInt 1)])])]).
Proof. vm_compute. split; reflexivity. Qed.

(* C2 (bit 64, F-UPSERT-NULL-ID).  The filter binds _id to None: the seed's None _id is replaced
   by a fresh ObjectId, so the upserted document does not match the equality-only filter, and
   the same call inserts a new document every time (the server inserts _id None once and
   matches it afterwards).  Defect candidate. *)
Definition cex_null_id_filter : list op :=
  [OUpdate (VDoc [("_id", VNull); ("a", VInt 1)]) (VDoc [("$set", VDoc [("b", VInt 1)])]) false true;
   OUpdate (VDoc [("_id", VNull); ("a", VInt 1)]) (VDoc [("$set", VDoc [("b", VInt 1)])]) false true].
Example refuted_null_id_filter :
  undecided_verdict cex_null_id_filter = (false, true, 64, false, true) /\
  last_step cex_null_id_filter =
  Some (Ok (VDoc [("matched", VInt 0); ("modified", VInt 0); ("upserted_id", VOid 1001)]),
        [(VOid 1000, VDoc [("_id", VOid 1000); ("a", VInt 1); ("b", VInt 1)]);
         (VOid 1001, VDoc [("_id", VOid 1001); ("a", VInt 1); ("b", VInt 1)])]).
Proof. vm_compute. split; reflexivity. Qed.

(* ------------------------------------------------------------------ D: arguments that are not dicts *)
(* Found while proving the last clause for dotted filter keys (Proofs/C13Dotted.v).  The
   theorems C13_history_flat_partial / C13_history_dotted_partial / C13_history_wf_partial /
   C13_history_args_partial assume well-formed arguments (no repeated key in any sub-document
   of the filter and the update).  That premise cannot be dropped from the FULL statement
   C13_history: with guard 0 and the screen c13_undecided false, the last clause is false on
   the model when the filter's literal contains a sub-document with a repeated key, because
   such a value is not == to itself (py_eq follows the first occurrence of a key), so the
   upserted document, which holds exactly the filter's literal, is not matched by the filter.
   Such values are not Python dicts: a model-only artefact, no library behaviour (same family
   as A2); nothing is added to c13_reasons, the premise c13_wf_args (decidable, on the
   operations alone, true of every Python value) excludes the class.  The weakened predicate
   c13w_ok (clauses (1)-(2)) is true.  D2 is the same with a dotted key. *)
Definition cex_dup := VDoc [("x", VInt 1); ("x", VInt 2)].
Definition cex_nondict_literal : list op :=
  [OUpdate (VDoc [("a", VArr [cex_dup])]) (VDoc [("$set", VDoc [("z", VInt 1)])]) false true].
Example refuted_nondict_literal :
  undecided_verdict cex_nondict_literal = (false, true, 0, false, true) /\
  wf_value (VDoc [("a", VArr [cex_dup])]) = false /\
  last_step cex_nondict_literal =
  Some (Ok (VDoc [("matched", VInt 0); ("modified", VInt 0); ("upserted_id", VOid 1000)]),
        [(VOid 1000, VDoc [("a", VArr [cex_dup]); ("_id", VOid 1000); ("z", VInt 1)])]) /\
  filter_applies (VDoc [("a", VArr [cex_dup])])
                 (VDoc [("a", VArr [cex_dup]); ("_id", VOid 1000); ("z", VInt 1)]) = Ok false.
Proof. vm_compute. repeat split; reflexivity. Qed.

Definition cex_nondict_literal_dotted : list op :=
  [OUpdate (VDoc [("a.b", VArr [cex_dup])]) (VDoc [("$set", VDoc [("a.c", VInt 1)])]) false true].
Example refuted_nondict_literal_dotted :
  undecided_verdict cex_nondict_literal_dotted = (false, true, 0, false, true) /\
  last_step cex_nondict_literal_dotted =
  Some (Ok (VDoc [("matched", VInt 0); ("modified", VInt 0); ("upserted_id", VOid 1000)]),
        [(VOid 1000, VDoc [("a", VDoc [("b", VArr [cex_dup]); ("c", VInt 1)]); ("_id", VOid 1000)])]).
Proof. vm_compute. split; reflexivity. Qed.
