(* C02: histories on which the model's own trace violates the laws of Spec/UpdateLaws.v while
   the original guard (bits 1, 2, 4) is silent.  Each is excluded by a new bit of
   [c02_reasons] (8, 16, 32, 128; bit 64 and further instances at the level of one
   apply_update are in Refuted/C02OpLaw.v).  The model agrees with the implementation on such histories, so
   these are candidate defects of the library. *)
From Coq Require Import ZArith List String Bool.
From Verif Require Import Value PyEq Path Filter Update Coll HistCheck HistProps ProjectSpec
                          UpdateLaws.
Import ListNotations.
Open Scope Z_scope.
Open Scope string_scope.

(* ---- bit 8, F-INDEX-LEADING-ZERO: {$set: {"a.01": 5}} on {a: [1, 2, 3]} writes a[1]: int("01")
   = 1.  The specification addresses the field named "01" (the server refuses to create a
   field "01" in an array); the element at index 1 is not addressed, yet it changes. *)
Definition u_zero := VDoc [("$set", VDoc [("a.01", VInt 5)])].
Definition d_zero := VDoc [("_id", VInt 1); ("a", VArr [VInt 1; VInt 2; VInt 3])].
Definition ops_zero := [OInsertOne d_zero; OUpdate (VDoc []) u_zero false false].

Example refuted_frame_leading_zero :
  apply_update (VDoc []) u_zero false 0 d_zero
    = Ok (VDoc [("_id", VInt 1); ("a", VArr [VInt 1; VInt 5; VInt 3])])
  /\ frame_ok u_zero d_zero (VDoc [("_id", VInt 1); ("a", VArr [VInt 1; VInt 5; VInt 3])]) = false
  /\ modelled false empty_coll ops_zero = true
  /\ c02_ok ops_zero (model_obs false empty_coll ops_zero) = false
  /\ c02_reasons ops_zero (model_obs false empty_coll ops_zero) = 8.
Proof. repeat split; vm_compute; reflexivity. Qed.

(* ---- bit 16, F-ARRAY-SKIP: {$set: {"a.b.0": 5}} on {a: [1, 2, 3]}: "b" is not an index, the
   ValueError of int("b") is swallowed and the walk goes on with "0" on the same array: a[0]
   is overwritten although only a.b.0 is addressed ($inc behaves alike). *)
Definition u_skip := VDoc [("$set", VDoc [("a.b.0", VInt 5)])].
Definition ops_skip := [OInsertOne d_zero; OUpdate (VDoc []) u_skip false false].

Example refuted_frame_array_skip :
  apply_update (VDoc []) u_skip false 0 d_zero
    = Ok (VDoc [("_id", VInt 1); ("a", VArr [VInt 5; VInt 2; VInt 3])])
  /\ frame_ok u_skip d_zero (VDoc [("_id", VInt 1); ("a", VArr [VInt 5; VInt 2; VInt 3])]) = false
  /\ modelled false empty_coll ops_skip = true
  /\ c02_ok ops_skip (model_obs false empty_coll ops_skip) = false
  /\ c02_reasons ops_skip (model_obs false empty_coll ops_skip) = 16.
Proof. repeat split; vm_compute; reflexivity. Qed.

(* ---- bit 32, F-MINMAX: {$max: {a: 5}} on {a: true} stores 5 (Python: True < 5) where the BSON
   order ranks every bool above every number (the field must stay true); {$min: {a: false}}
   on {a: 5} stores false. *)
Definition u_max := VDoc [("$max", VDoc [("a", VInt 5)])].
Definition d_max := VDoc [("_id", VInt 1); ("a", VBool true)].
Definition ops_max := [OInsertOne d_max; OUpdate (VDoc []) u_max false false].

Example refuted_op_law_max_bool :
  apply_update (VDoc []) u_max false 0 d_max = Ok (VDoc [("_id", VInt 1); ("a", VInt 5)])
  /\ op_law "$max" "a" (VInt 5) 0 d_max (VDoc [("_id", VInt 1); ("a", VInt 5)]) = Some false
  /\ modelled false empty_coll ops_max = true
  /\ c02_ok ops_max (model_obs false empty_coll ops_max) = false
  /\ c02_reasons ops_max (model_obs false empty_coll ops_max) = 32.
Proof. repeat split; vm_compute; reflexivity. Qed.

Definition u_min := VDoc [("$min", VDoc [("a", VBool false)])].
Definition d_min := VDoc [("_id", VInt 1); ("a", VInt 5)].
Definition ops_min := [OInsertOne d_min; OUpdate (VDoc []) u_min false false].

Example refuted_op_law_min_bool :
  apply_update (VDoc []) u_min false 0 d_min = Ok (VDoc [("_id", VInt 1); ("a", VBool false)])
  /\ op_law "$min" "a" (VBool false) 0 d_min (VDoc [("_id", VInt 1); ("a", VBool false)]) = Some false
  /\ modelled false empty_coll ops_min = true
  /\ c02_ok ops_min (model_obs false empty_coll ops_min) = false
  /\ c02_reasons ops_min (model_obs false empty_coll ops_min) = 32.
Proof. repeat split; vm_compute; reflexivity. Qed.

(* ---- bit 128, F-REPLACE-FILTER-ID: the replacement USED TO take its _id from the FILTER when the
   filter has an "_id" key: replace_one({_id: 1.0}, {a: 2}) on {_id: 1, a: 1} stored
   {_id: 1.0, a: 2}: the _id was retyped (only Python == is checked).
   repaired in the library: the _id is taken from the document being replaced; the history now
   stores {_id: 1, a: 2} and c02_ok holds (the guard bit 128 still fires: it is conservative
   now for the filter part).
   STILL OPEN: a replacement carrying _id: true replaces the _id 1 by true. *)
Definition d_rep := VDoc [("_id", VInt 1); ("a", VInt 1)].
Definition ops_rep_filter :=
  [OInsertOne d_rep; OReplace (VDoc [("_id", VDbl 8)]) (VDoc [("a", VInt 2)]) false].

(* repaired in the library: was  [...; [(VInt 1, VDoc [("_id", VDbl 8); ("a", VInt 2)])]]  with
   c02_ok = false *)
Example refuted_replace_filter_id :
  modelled false empty_coll ops_rep_filter = true
  /\ map (fun o => snd (fst o)) (model_obs false empty_coll ops_rep_filter)
     = [[(VInt 1, d_rep)]; [(VInt 1, VDoc [("_id", VInt 1); ("a", VInt 2)])]]
  /\ c02_ok ops_rep_filter (model_obs false empty_coll ops_rep_filter) = true
  /\ c02_reasons ops_rep_filter (model_obs false empty_coll ops_rep_filter) = 128.
Proof. repeat split; vm_compute; reflexivity. Qed.

Definition ops_rep_bool :=
  [OInsertOne d_rep; OReplace (VDoc [("a", VInt 1)]) (VDoc [("a", VInt 2); ("_id", VBool true)]) false].

Example refuted_replace_id_bool :
  modelled false empty_coll ops_rep_bool = true
  /\ map (fun o => snd (fst o)) (model_obs false empty_coll ops_rep_bool)
     = [[(VInt 1, d_rep)]; [(VInt 1, VDoc [("_id", VBool true); ("a", VInt 2)])]]
  /\ c02_ok ops_rep_bool (model_obs false empty_coll ops_rep_bool) = false
  /\ c02_reasons ops_rep_bool (model_obs false empty_coll ops_rep_bool) = 128.
Proof. repeat split; vm_compute; reflexivity. Qed.

(* ---- remarks: where the new bits are conservative at the level of histories.
   Bit 64 ($addToSet with Python ==): the operator law fails on (d, d' = d) (Refuted/C02OpLaw.v)
   but c02_step only looks at documents that changed, so no history violates c02_ok this way;
   the bit is needed by the proof route (through the operator law) only. *)
Definition ops_ats :=
  [OInsertOne (VDoc [("_id", VInt 1); ("a", VArr [VInt 1])]);
   OUpdate (VDoc []) (VDoc [("$addToSet", VDoc [("a", VBool true)])]) false false].
Example remark_addtoset_conservative :
  c02_ok ops_ats (model_obs false empty_coll ops_ats) = true
  /\ c02_reasons ops_ats (model_obs false empty_coll ops_ats) = 64.
Proof. split; vm_compute; reflexivity. Qed.

(* replace_one({_id: {$gt: 0}}, {a: 2}): apply_update USED TO put the operator document in the
   _id (Refuted/C02OpLaw.v) and the collection then rejected the write (the _id changed): the
   step failed with WriteError.
   repaired in the library: the filter is not consulted, the replacement succeeds and keeps the
   _id 1; c02_ok holds, bit 128 is conservative here. *)
Definition ops_rep_op :=
  [OInsertOne d_rep; OReplace (VDoc [("_id", VDoc [("$gt", VInt 0)])]) (VDoc [("a", VInt 2)]) false].
Example remark_replace_operator_id :
  map (fun o => fst (fst o)) (model_obs false empty_coll ops_rep_op)
    = [Ok (VDoc [("inserted_id", VInt 1)]);
       Ok (VDoc [("matched", VInt 1); ("modified", VInt 1); ("upserted_id", VNull)])]
  /\ map (fun o => snd (fst o)) (model_obs false empty_coll ops_rep_op)
     = [[(VInt 1, d_rep)]; [(VInt 1, VDoc [("_id", VInt 1); ("a", VInt 2)])]]
  /\ c02_ok ops_rep_op (model_obs false empty_coll ops_rep_op) = true
  /\ c02_reasons ops_rep_op (model_obs false empty_coll ops_rep_op) = 128.
Proof. repeat split; vm_compute; reflexivity. Qed.

(* ---- why the history theorem asks every argument document to be well-formed (op_wf in
   Proofs/C02History.v, not a guard bit): a value of the model is an association list, and an
   inserted "document" that repeats a key is not a Python dict.  On such a value $unset
   removes the first binding only and the field is still there afterwards.  This is an
   artefact of the model's value type, NOT a defect of the library. *)
Definition d_dup := VDoc [("_id", VInt 1); ("a", VInt 1); ("a", VInt 2)].
Definition ops_dup :=
  [OInsertOne d_dup; OUpdate (VDoc []) (VDoc [("$unset", VDoc [("a", VInt 1)])]) false false].

Example refuted_duplicate_key_insert :
  wf_value d_dup = false
  /\ modelled false empty_coll ops_dup = true
  /\ c02_reasons ops_dup (model_obs false empty_coll ops_dup) = 0
  /\ c02_ok ops_dup (model_obs false empty_coll ops_dup) = false.
Proof. repeat split; vm_compute; reflexivity. Qed.

(* the same through the filter of an upsert, whose equality fields seed the new document *)
Definition f_dup := VDoc [("b", VDoc [("x", VInt 1); ("x", VInt 2)])].
Definition ops_dup_filter :=
  [OUpdate f_dup (VDoc [("$set", VDoc [("c", VInt 1)])]) false true;
   OUpdate (VDoc []) (VDoc [("$unset", VDoc [("b.x", VInt 1)])]) false false].

Example refuted_duplicate_key_filter :
  wf_value f_dup = false
  /\ modelled false empty_coll ops_dup_filter = true
  /\ c02_reasons ops_dup_filter (model_obs false empty_coll ops_dup_filter) = 0
  /\ c02_ok ops_dup_filter (model_obs false empty_coll ops_dup_filter) = false.
Proof. repeat split; vm_compute; reflexivity. Qed.
