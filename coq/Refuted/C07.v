(* C07, checked counterexamples.

   Part A - every copying flag matters.  For each flag but one, a flag record with only that
   flag off and a short history on which apart_after becomes false.  The exception is
   f_update_doc: in this model an update that works on the stored document in place (instead
   of on a deep copy) hands the old objects to the rewritten document of the SAME key, whose
   old entry disappears in the same step, and the "before" document returned by
   find_one_and_update is not tracked as sharing with the store - so no history can produce
   sharing from this flag alone; C07Proofs.no_aliasing_needed proves the statement for every
   flag record with copy_needed fl = true, which leaves f_update_doc free
   (update_doc_not_needed below).

   Part B - the premise run_keys_wf of C07_no_aliasing cannot be dropped.  On store keys that
   no Python program can build (a sub-document _id with the same key twice) the modelled
   Python == is not symmetric; two stored documents become equal under two different keys,
   and restore gives both the objects of one old entry.  This is an artefact of the value
   type of the model (association lists may repeat a key, Python dicts cannot), not a defect
   of the library. *)
From Coq Require Import ZArith List String Bool.
From Verif Require Import Value PyEq Coll Expr Pipeline Heap.
From Verif Require Import C07Base C07Proofs.
Import ListNotations.
Open Scope Z_scope.
Open Scope string_scope.
Open Scope list_scope.

Definition aparts (fl : cpflags) (hs : list (hop * ids)) : list bool :=
  map (fun p => apart_after (h_own (ho_state (snd p))) (snd (fst p)) (ho_result_ids (snd p)))
      (combine hs (snd (hrun fl false h_init hs))).
Definition owns (fl : cpflags) (hs : list (hop * ids)) : list (list (value * ids) * ids) :=
  map (fun out => (h_own (ho_state out), ho_result_ids out)) (snd (hrun fl false h_init hs)).

Definition no_insert := mkFlags false true true true true true true true true.
Definition no_update_operands := mkFlags true false true true true true true true true.
Definition no_update_doc := mkFlags true true false true true true true true true.
Definition no_replace := mkFlags true true true false true true true true true.
Definition no_read := mkFlags true true true true false true true true true.
Definition no_proj_ops := mkFlags true true true true true false true true true.
Definition no_proj_id := mkFlags true true true true true true false true true.
Definition no_aggregate := mkFlags true true true true true true true false true.
Definition no_lookup := mkFlags true true true true true true true true false.

Definition doc1 := VDoc [("_id", VInt 1); ("t", VArr [])].
Definition doc2 := VDoc [("_id", VInt 2); ("t", VArr [])].
Definition ins2 : hop * ids := (HColl (OInsertMany [doc1; doc2] true), [-1; -2; -3; -4; -5]).
Definition push : hop * ids :=
  (HColl (OUpdate (VDoc []) (VDoc [("$push", VDoc [("t", VDoc [("x", VInt 1)])])]) true false),
   [-6; -7; -8; -9; -10]).
Definition repl : hop * ids :=
  (HColl (OReplace (VDoc [("_id", VInt 1)]) (VDoc [("t", VArr [VInt 5])]) false), [-11; -12; -13; -14]).
Definition find : hop * ids := (HColl (OFind (VDoc []) None [] 0 0), [-15]).
Definition findp : hop * ids :=
  (HColl (OFind (VDoc []) (Some (VDoc [("t", VInt 1)])) [] 0 0), [-15; -16]).
Definition fam : hop * ids :=
  (HColl (OFindAndModify (VDoc [("_id", VInt 1)]) None []
            (FamUpdate (VDoc [("$set", VDoc [("z", VDoc [("w", VInt 1)])])]) false false)),
   [-20; -21; -22; -23]).
Definition agg : hop * ids := (HAggregate (VArr [VDoc [("$match", VDoc [])]]), [-17; -18; -19]).

(* ---------------------------------------------------------------- Part A *)
(* f_insert off: the stored documents are the caller's objects *)
Example insert_flag_matters :
  all_copy no_insert = false /\ aparts no_insert [ins2] = [false]
  /\ owns no_insert [ins2]
     = [([(VInt 1, [1; -1; -2; -3; -4; -5]); (VInt 2, [2; -1; -2; -3; -4; -5])], [3])].
Proof. vm_compute. repeat split. Qed.

(* f_update_operands off: update_many $push puts the same operand object into two stored
   documents - they share with one another and with the argument *)
Example update_operands_flag_matters :
  all_copy no_update_operands = false /\ aparts no_update_operands [ins2; push] = [true; false]
  /\ map (fun oi => pairwise_apart (map snd (fst oi))) (owns no_update_operands [ins2; push])
     = [true; false].
Proof. vm_compute. repeat split. Qed.

(* f_replace off: the replacement document is stored as it was passed in *)
Example replace_flag_matters :
  all_copy no_replace = false /\ aparts no_replace [ins2; repl] = [true; false].
Proof. vm_compute. repeat split. Qed.

(* f_read off: find hands out the stored objects *)
Example read_flag_matters :
  all_copy no_read = false /\ aparts no_read [ins2; find] = [true; false].
Proof. vm_compute. repeat split. Qed.

(* f_proj_ops off / f_proj_id off: a find with a projection hands out stored sub-objects *)
Example proj_ops_flag_matters :
  all_copy no_proj_ops = false /\ aparts no_proj_ops [ins2; findp] = [true; false]
  /\ aparts no_proj_ops [ins2; find] = [true; true].
Proof. vm_compute. repeat split. Qed.
Example proj_id_flag_matters :
  all_copy no_proj_id = false /\ aparts no_proj_id [ins2; findp] = [true; false]
  /\ aparts no_proj_id [ins2; find] = [true; true].
Proof. vm_compute. repeat split. Qed.

(* f_aggregate off / f_lookup off: aggregate hands out stored objects *)
Example aggregate_flag_matters :
  all_copy no_aggregate = false /\ aparts no_aggregate [ins2; agg] = [true; false].
Proof. vm_compute. repeat split. Qed.
Example lookup_flag_matters :
  all_copy no_lookup = false /\ aparts no_lookup [ins2; agg] = [true; false].
Proof. vm_compute. repeat split. Qed.

(* f_update_doc off: no sharing can be produced in this model.  The rewritten document takes
   over the objects of its own old entry (identities 1 and 2 below travel with their keys) *)
Example update_doc_flag_alone :
  all_copy no_update_doc = false /\ copy_needed no_update_doc = true
  /\ aparts no_update_doc [ins2; push; fam; repl; find; findp; agg]
     = [true; true; true; true; true; true; true]
  /\ owns no_update_doc [ins2; push; fam]
     = [([(VInt 1, [1]); (VInt 2, [2])], [3]);
        ([(VInt 1, [4; 1]); (VInt 2, [5; 2])], [6]);
        ([(VInt 1, [7; 4; 1]); (VInt 2, [5; 2])], [8])].
Proof. vm_compute. repeat split. Qed.

Theorem update_doc_not_needed : forall pre5 (hs : list (hop * ids)),
  Forall (fun ha => Forall (fun x => x < 0) (snd ha)) hs ->
  run_keys_wf pre5 empty_coll hs = true ->
  Forall2 (fun ha out => apart_after (h_own (ho_state out)) (snd ha) (ho_result_ids out) = true)
          hs (snd (hrun no_update_doc pre5 h_init hs)).
Proof. apply (no_aliasing_needed no_update_doc). vm_compute. reflexivity. Qed.

(* ---------------------------------------------------------------- Part B *)
(* two keys that are not well-formed values: a repeated field name *)
Definition key_a := VDoc [("a", VInt 1); ("a", VInt 2)].
Definition key_b := VDoc [("a", VInt 1); ("a", VInt 1)].

Example nonwf_keys_eq :
  (wf_value key_a, wf_value key_b) = (false, false)
  /\ (py_eq key_a key_b, py_eq key_b key_a, py_eq key_a key_a, py_eq key_b key_b)
     = (false, true, false, true).
Proof. vm_compute. split; reflexivity. Qed.

Definition hist_nonwf : list (hop * ids) :=
  [ (HColl (OInsertOne (VDoc [("_id", key_a)])), [-1]);
    (HColl (OInsertOne (VDoc [("_id", key_b)])), [-2]);
    (* $set of the _id to a value the old _id is == to (one way round only) *)
    (HColl (OUpdate (VDoc [("_id", key_b)]) (VDoc [("$set", VDoc [("_id", key_a)])]) false false),
     [-3; -4]);
    (HColl (OFind (VDoc []) None [] 0 0), [-5]) ].

(* every flag on, negative arguments, and yet after the find both stored documents own the
   identity 7: the statement of C07_no_aliasing without its premise run_keys_wf is false *)
Example nonwf_keys_alias :
  all_copy (mkFlags true true true true true true true true true) = true
  /\ run_keys_wf false empty_coll hist_nonwf = false
  /\ aparts (mkFlags true true true true true true true true true) hist_nonwf
     = [true; true; true; false]
  /\ map fst (owns (mkFlags true true true true true true true true true) hist_nonwf)
     = [ [(key_a, [1])];
         [(key_a, [3]); (key_b, [4])];
         [(key_a, [6]); (key_b, [7])];
         [(key_a, [7]); (key_b, [7])] ]
  /\ map (fun out => docs (h_coll (ho_state out)))
         (snd (hrun (mkFlags true true true true true true true true true) false h_init hist_nonwf))
     = [ [(key_a, VDoc [("_id", key_a)])];
         [(key_a, VDoc [("_id", key_a)]); (key_b, VDoc [("_id", key_b)])];
         [(key_a, VDoc [("_id", key_a)]); (key_b, VDoc [("_id", key_a)])];
         [(key_a, VDoc [("_id", key_a)]); (key_b, VDoc [("_id", key_a)])] ].
Proof. vm_compute. repeat split. Qed.
