(* C14 without its guard is false on the model's own traces: one checked counterexample per
   guard bit of c14_reasons (Spec/HistGuards.v). *)
From Coq Require Import ZArith List String Bool.
From Verif Require Import Value PyEq Filter Update Coll HistCheck HistProps HistGuards.
Import ListNotations.
Open Scope Z_scope.
Open Scope string_scope.

Definition c14_holds (ops : list op) : bool * Z :=
  (c14_ok ops (model_obs false empty_coll ops), c14_reasons ops (model_obs false empty_coll ops)).

(* bit 1, TTL: {_id: 1} has expired when update_one({_id: 2}) runs; the store goes from two
   documents to one during a non-upserting update_one *)
Definition c14_ce_ttl : list op :=
  [OCreateIndex [("t", VInt 1)] false false (Some (VInt 1)) None None;
   OInsertOne (VDoc [("_id", VInt 1); ("t", VDate 5000000 None)]);
   OInsertOne (VDoc [("_id", VInt 2); ("x", VInt 0)]);
   OSetClock 100000000;
   OUpdate (VDoc [("_id", VInt 2)]) (VDoc [("$set", VDoc [("x", VInt 1)])]) false false].
Example c14_refuted_ttl : c14_holds c14_ce_ttl = (false, 1).
Proof. vm_compute. reflexivity. Qed.

(* WAS a counterexample for bit 2, F-ID-ALIAS (defect of the library, now repaired): datetime
   _ids with sub-millisecond precision.  The second insert used to be accepted (the store key
   was the raw datetime 1500us, not equal to 1000us) while the stored document was patched to
   _id = 1000us, the first document's _id; delete_one({x: 2}) then deleted the FIRST document.
   The store is now keyed by the normalised _id: the second insert is a DuplicateKeyError,
   delete_one({x: 2}) matches nothing, the predicate holds, inside the guard. *)
Definition c14_ce_alias : list op :=
  [OInsertOne (VDoc [("_id", VDate 1000 None); ("x", VInt 1)]);
   OInsertOne (VDoc [("_id", VDate 1500 None); ("x", VInt 2)]);
   ODelete (VDoc [("x", VInt 2)]) false].
Example c14_alias_now_holds : c14_holds c14_ce_alias = (true, 0).
Proof. vm_compute. reflexivity. Qed.
Example c14_alias_now_holds_store :
  map (fun ob : obs => snd (fst ob)) (model_obs false empty_coll c14_ce_alias) =
  [ [(VDate 1000 None, VDoc [("_id", VDate 1000 None); ("x", VInt 1)])];
    [(VDate 1000 None, VDoc [("_id", VDate 1000 None); ("x", VInt 1)])];
    [(VDate 1000 None, VDoc [("_id", VDate 1000 None); ("x", VInt 1)])] ].
Proof. vm_compute. reflexivity. Qed.

(* bit 2, what is left of F-ID-ALIAS (the C05 finding F-ID-RETYPE seen through C14): an update
   may rewrite _id with a ==-equal value (1 -> True).  find_one_and_delete then addresses the
   document by {_id: True}; it removes the right entry (True == 1), but the entry removed is
   stored under 1, which is not BSON-equal to the _id (True) of the target document. *)
Definition c14_ce_retype : list op :=
  [OInsertOne (VDoc [("_id", VInt 1); ("x", VInt 1)]);
   OUpdate (VDoc [("x", VInt 1)])
           (VDoc [("$set", VDoc [("_id", VBool true); ("x", VInt 2)])]) false false;
   OFindAndModify (VDoc []) None [] FamDelete].
Example c14_refuted_retype : c14_holds c14_ce_retype = (false, 2).
Proof. vm_compute. reflexivity. Qed.
Example c14_refuted_retype_store :
  map (fun ob : obs => snd (fst ob)) (model_obs false empty_coll c14_ce_retype) =
  [ [(VInt 1, VDoc [("_id", VInt 1); ("x", VInt 1)])];
    [(VInt 1, VDoc [("_id", VBool true); ("x", VInt 2)])];
    [] ].
Proof. vm_compute. reflexivity. Qed.

(* bit 4, model-only: an _id sub-document with a repeated field name is not == to itself;
   find_one_and_delete finds the document but its {_id: id} query matches nothing, so the
   call succeeds without deleting anything *)
Definition c14_ce_illformed : list op :=
  [OInsertOne (VDoc [("_id", VDoc [("a", VInt 1); ("a", VInt 2)])]);
   OFindAndModify (VDoc []) None [] FamDelete].
Example c14_refuted_illformed : c14_holds c14_ce_illformed = (false, 4).
Proof. vm_compute. reflexivity. Qed.

(* bit 8: an _id sub-document with a '$' field.  find_one_and_delete({}) finds the document,
   then deletes by {_id: {$gt: 5}}, an operator query that does not match it: the call
   succeeds and nothing is removed.  With upsert=True, find_one_and_update inserts a NEW
   document although a target existed. *)
Definition c14_ce_dollar_id : list op :=
  [OInsertOne (VDoc [("_id", VDoc [("$gt", VInt 5)]); ("x", VInt 1)]);
   OFindAndModify (VDoc []) None [] FamDelete].
Example c14_refuted_dollar_id : c14_holds c14_ce_dollar_id = (false, 8).
Proof. vm_compute. reflexivity. Qed.
Definition c14_ce_dollar_id_upsert : list op :=
  [OInsertOne (VDoc [("_id", VDoc [("$gt", VInt 5)]); ("x", VInt 1)]);
   OFindAndModify (VDoc []) None []
     (FamUpdate (VDoc [("$set", VDoc [("x", VInt 2)])]) true false)].
Example c14_refuted_dollar_id_upsert : c14_holds c14_ce_dollar_id_upsert = (false, 8).
Proof. vm_compute. reflexivity. Qed.
