(* C09 without its guard is false on the model's own traces: checked counterexamples for the
   guard bits 1, 2, 4 of c09_reasons (Spec/HistGuards.v).  Bit 8 is conservative (no
   counterexample known).  Each example shows (c09_ok, c09_reasons) of the model's trace. *)
From Coq Require Import ZArith List String Bool.
From Verif Require Import Value PyEq Filter Update Coll HistCheck HistProps HistGuards.
Import ListNotations.
Open Scope Z_scope.
Open Scope string_scope.

Definition c09_holds (ops : list op) : bool * Z :=
  (c09_ok ops (model_obs false empty_coll ops), c09_reasons ops (model_obs false empty_coll ops)).

Definition ttl_t_10s : op := OCreateIndex [("t", VInt 1)] false false (Some (VInt 10)) None None.

(* bit 2, F-TTL-REWRITE (clause b): update_one moves the date of a live document into the
   past.  The update has read (and purged) the store, yet the expired new image stays *)
Definition c09_ce_update : list op :=
  [ttl_t_10s;
   OSetClock 100000000;
   OInsertOne (VDoc [("_id", VInt 1); ("t", VDate 99000000 None)]);
   OUpdate (VDoc []) (VDoc [("$set", VDoc [("t", VDate 0 None)])]) false false].
Example c09_refuted_update : c09_holds c09_ce_update = (false, 2).
Proof. vm_compute. reflexivity. Qed.
(* what the model's store holds after the update: the expired image *)
Example c09_refuted_update_store :
  map (fun ob : obs => snd (fst ob)) (model_obs false empty_coll c09_ce_update)
  = [ []; [];
      [(VInt 1, VDoc [("_id", VInt 1); ("t", VDate 99000000 None)])];
      [(VInt 1, VDoc [("_id", VInt 1); ("t", VDate 0 None)])] ].
Proof. vm_compute. reflexivity. Qed.

(* the same with replace_one *)
Definition c09_ce_replace : list op :=
  [ttl_t_10s;
   OSetClock 100000000;
   OInsertOne (VDoc [("_id", VInt 1); ("t", VDate 99000000 None)]);
   OReplace (VDoc []) (VDoc [("t", VDate 0 None)]) false].
Example c09_refuted_replace : c09_holds c09_ce_replace = (false, 2).
Proof. vm_compute. reflexivity. Qed.

(* bit 2, F-TTL-REWRITE (clause a): with a unique index the uniqueness check of the update
   purges the expired NEW image: the document, whose stored image was alive, disappears
   during an update that reports modified = 1 *)
Definition c09_ce_update_unique : list op :=
  [ttl_t_10s;
   OCreateIndex [("u", VInt 1)] true false None None None;
   OSetClock 100000000;
   OInsertOne (VDoc [("_id", VInt 1); ("u", VInt 1); ("t", VDate 99000000 None)]);
   OUpdate (VDoc []) (VDoc [("$set", VDoc [("t", VDate 0 None)])]) false false].
Example c09_refuted_update_unique : c09_holds c09_ce_update_unique = (false, 2).
Proof. vm_compute. reflexivity. Qed.
Example c09_refuted_update_unique_trace :
  map (fun ob : obs => (fst (fst ob), snd (fst ob)))
      (skipn 3 (model_obs false empty_coll c09_ce_update_unique))
  = [ (Ok (VDoc [("inserted_id", VInt 1)]),
       [(VInt 1, VDoc [("_id", VInt 1); ("u", VInt 1); ("t", VDate 99000000 None)])]);
      (Ok (VDoc [("matched", VInt 1); ("modified", VInt 1); ("upserted_id", VNull)]), []) ].
Proof. vm_compute. reflexivity. Qed.

(* bit 2: an upsert stores an already expired document under an _id that an expired document
   held before *)
Definition c09_ce_upsert : list op :=
  [ttl_t_10s;
   OSetClock 100000000;
   OInsertOne (VDoc [("_id", VInt 1); ("t", VDate 99000000 None)]);
   OSetClock 200000000;
   OUpdate (VDoc [("_id", VInt 1)]) (VDoc [("$set", VDoc [("t", VDate 0 None)])]) false true].
Example c09_refuted_upsert : c09_holds c09_ce_upsert = (false, 2).
Proof. vm_compute. reflexivity. Qed.

(* bit 2 through bulk_write *)
Definition c09_ce_bulk_update : list op :=
  [ttl_t_10s;
   OSetClock 100000000;
   OInsertOne (VDoc [("_id", VInt 1); ("t", VDate 99000000 None)]);
   OBulk [BUpdate (VDoc []) (VDoc [("$set", VDoc [("t", VDate 0 None)])]) false false] true].
Example c09_refuted_bulk_update : c09_holds c09_ce_bulk_update = (false, 2).
Proof. vm_compute. reflexivity. Qed.

(* bit 2 through find_one_and_update *)
Definition c09_ce_fam_update : list op :=
  [ttl_t_10s;
   OSetClock 100000000;
   OInsertOne (VDoc [("_id", VInt 1); ("t", VDate 99000000 None)]);
   OFindAndModify (VDoc []) None [] (FamUpdate (VDoc [("$set", VDoc [("t", VDate 0 None)])]) false false)].
Example c09_refuted_fam_update : c09_holds c09_ce_fam_update = (false, 2).
Proof. vm_compute. reflexivity. Qed.

(* an update that keeps the dates alive is inside the guard *)
Definition c09_ok_update : list op :=
  [ttl_t_10s;
   OSetClock 100000000;
   OInsertOne (VDoc [("_id", VInt 1); ("t", VDate 99000000 None)]);
   OUpdate (VDoc []) (VDoc [("$set", VDoc [("t", VDate 98000000 None)])]) true false].
Example c09_inside_update : c09_holds c09_ok_update = (true, 0).
Proof. vm_compute. reflexivity. Qed.

(* bit 4, F-TTL-INSERT-EXPIRED: an expired document is inserted (accepted, stored); the second
   insert_one of the same _id purges it, succeeds, and again leaves an expired document, now
   under a key that was there before the operation *)
Definition c09_ce_insert : list op :=
  [ttl_t_10s;
   OSetClock 100000000;
   OInsertOne (VDoc [("_id", VInt 1); ("t", VDate 0 None)]);
   OInsertOne (VDoc [("_id", VInt 1); ("t", VDate 0 None)])].
Example c09_refuted_insert : c09_holds c09_ce_insert = (false, 4).
Proof. vm_compute. reflexivity. Qed.
Example c09_refuted_insert_trace :
  map (fun ob : obs => (fst (fst ob), snd (fst ob)))
      (skipn 2 (model_obs false empty_coll c09_ce_insert))
  = [ (Ok (VDoc [("inserted_id", VInt 1)]), [(VInt 1, VDoc [("_id", VInt 1); ("t", VDate 0 None)])]);
      (Ok (VDoc [("inserted_id", VInt 1)]), [(VInt 1, VDoc [("_id", VInt 1); ("t", VDate 0 None)])]) ].
Proof. vm_compute. reflexivity. Qed.

(* bit 1: a TTL index created under the name "_id_" is not listed as a TTL spec, yet expires *)
Definition c09_ce_idname : list op :=
  [OCreateIndex [("t", VInt 1)] false false (Some (VInt 10)) None (Some "_id_");
   OInsertOne (VDoc [("_id", VInt 1); ("t", VDate 0 None)]);
   OSetClock 100000000;
   OFind (VDoc []) None [] 0 0].
Example c09_refuted_idname : c09_holds c09_ce_idname = (false, 1).
Proof. vm_compute. reflexivity. Qed.
