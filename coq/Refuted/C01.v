(* C01: inputs on which the model of the matcher and the specification disagree and which
   the guard accepted before the proof of C01_filter_match was attempted.  Each is now
   rejected by the guard (reason in the comment). *)
From Coq Require Import ZArith List String Bool Ascii.
From Verif Require Import Value PyEq BsonOrder Path Filter FilterSpec FilterGuard.
Import ListNotations.
Open Scope Z_scope.
Open Scope string_scope.

Definition disagree (f : filter) (d : value) : bool :=
  negb (res_eqb Bool.eqb (matches f d) (Ok (spec_matches f d))).

(* 1. trailing empty path component: iter_key_candidates("a.") yields the parent value.
      Now R_NOT_FRAGMENT (ends_empty). *)
Example refuted_trailing_dot :
  let f := parse_filter (VDoc [("a.", VInt 5)]) in
  let d := VDoc [("a", VInt 5)] in
  disagree f d = true /\ guard_reasons f d = [R_NOT_FRAGMENT].
Proof. vm_compute. split; reflexivity. Qed.

(* 2. {$all: [...], <another operator>} on an array whose first element is an array but not
      all of them: the per-candidate $all is outside the model (Err EUnmodelled).
      Now R_NOT_FRAGMENT (all_unmodelled_cand). *)
Example refuted_all_multi_nested :
  let f := parse_filter (VDoc [("a", VDoc [("$all", VArr [VInt 2]); ("$exists", VBool true)])]) in
  let d := VDoc [("a", VArr [VArr [VInt 1]; VInt 2])] in
  disagree f d = true /\ guard_reasons f d = [R_NOT_FRAGMENT].
Proof. vm_compute. split; reflexivity. Qed.

(* 3. {$exists: null} (falsy but != False) on a path without candidates: the
      `search == {'$exists': False}` shortcut does not fire and the clause fails.
      Now R_EXISTS_FALSE. *)
Example refuted_exists_null_nocand :
  let f := parse_filter (VDoc [("a.b", VDoc [("$exists", VNull)])]) in
  let d := VDoc [("a", VInt 5)] in
  disagree f d = true /\ guard_reasons f d = [R_EXISTS_FALSE].
Proof. vm_compute. split; reflexivity. Qed.

(* 4. an AST the parser never produces: $elemMatch whose filter reading does not raise
      although its search reading is an operator dict.  Now R_NOT_FRAGMENT (emq_falls_back). *)
Example refuted_emq_ast :
  let f := FAnd (CField "a" (SOps (FCons (OElemMatch
              (EmQ FEnd (SOps (FCons (OEq (VInt 1)) FNil)))) FNil))) FEnd in
  let d := VDoc [("a", VArr [VInt 2])] in
  disagree f d = true /\ guard_reasons f d = [R_NOT_FRAGMENT].
Proof. vm_compute. split; reflexivity. Qed.

(* 5. {$elemMatch: {$not: {...}}}: read as a filter the operand starts with a top-level $not,
      which the model does not cover (Err EUnmodelled).  Now R_NOT_FRAGMENT (emq_falls_back). *)
Example refuted_emq_not :
  let f := parse_filter
             (VDoc [("a", VDoc [("$elemMatch", VDoc [("$not", VDoc [("$gt", VInt 5)])])])]) in
  let d := VDoc [("a", VArr [VInt 1])] in
  disagree f d = true /\ guard_reasons f d = [R_NOT_FRAGMENT].
Proof. vm_compute. split; reflexivity. Qed.
