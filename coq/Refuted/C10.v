(* C10 without its guard is false on the model's own traces: one checked counterexample per
   guard bit of c10_reasons (Spec/HistGuards.v). *)
From Coq Require Import ZArith List String Bool.
From Verif Require Import Value PyEq Filter Update Coll HistCheck HistProps HistGuards.
Import ListNotations.
Open Scope Z_scope.
Open Scope string_scope.

Definition c10_holds (ops : list op) : bool * Z :=
  (c10_ok ops (model_obs false empty_coll ops), c10_reasons ops (model_obs false empty_coll ops)).

(* bit 1, TTL: {_id: 1} has expired when delete_one({_id: 2}) runs: deleted_count = 1 but the
   collection shrinks by 2 *)
Definition c10_ce_ttl : list op :=
  [OCreateIndex [("t", VInt 1)] false false (Some (VInt 1)) None None;
   OInsertOne (VDoc [("_id", VInt 1); ("t", VDate 5000000 None)]);
   OInsertOne (VDoc [("_id", VInt 2); ("x", VInt 0)]);
   OSetClock 100000000;
   ODelete (VDoc [("_id", VInt 2)]) false].
Example c10_refuted_ttl : c10_holds c10_ce_ttl = (false, 1).
Proof. vm_compute. reflexivity. Qed.

(* the same with update_many: the expired document shifts the positions, every surviving
   position is compared with the wrong document *)
Definition c10_ce_ttl_update : list op :=
  [OCreateIndex [("t", VInt 1)] false false (Some (VInt 1)) None None;
   OInsertOne (VDoc [("_id", VInt 1); ("t", VDate 5000000 None)]);
   OInsertOne (VDoc [("_id", VInt 2); ("x", VInt 0)]);
   OInsertOne (VDoc [("_id", VInt 3); ("x", VInt 0)]);
   OSetClock 100000000;
   OUpdate (VDoc [("_id", VInt 3)]) (VDoc [("$set", VDoc [("x", VInt 1)])]) true false].
Example c10_refuted_ttl_update : c10_holds c10_ce_ttl_update = (false, 1).
Proof. vm_compute. reflexivity. Qed.

(* bit 2, model-only: a document holding a sub-document with a repeated field name is not ==
   to itself, so an update that changes nothing is reported as one modification *)
Definition c10_ce_illformed : list op :=
  [OInsertOne (VDoc [("_id", VInt 1); ("x", VInt 1);
                     ("a", VDoc [("b", VInt 1); ("b", VInt 2)])]);
   OUpdate (VDoc []) (VDoc [("$set", VDoc [("x", VInt 1)])]) false false].
Example c10_refuted_illformed : c10_holds c10_ce_illformed = (false, 2).
Proof. vm_compute. reflexivity. Qed.
