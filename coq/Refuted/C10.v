(* C10 without its guard is false on the model's own traces: one checked counterexample per
   guard bit of c10_reasons (Spec/HistGuards.v). *)
From Coq Require Import ZArith List String Bool.
From Verif Require Import Value PyEq Filter Update Coll HistCheck HistProps HistGuards.
Import ListNotations.
Open Scope Z_scope.
Open Scope string_scope.

Definition c10_holds (ops : list op) : bool * Z :=
  (c10_ok ops (model_obs false empty_coll ops), c10_reasons ops (model_obs false empty_coll ops)).

(* bit 1, TTL: {_id: 1} has expired when delete_one({_id: 2}) runs: deleted_count = 1 but the
   collection shrinks by 2 *)
Definition c10_ce_ttl : list op :=
  [OCreateIndex [("t", VInt 1)] false false (Some (VInt 1)) None None;
   OInsertOne (VDoc [("_id", VInt 1); ("t", VDate 5000000 None)]);
   OInsertOne (VDoc [("_id", VInt 2); ("x", VInt 0)]);
   OSetClock 100000000;
   ODelete (VDoc [("_id", VInt 2)]) false].
Example c10_refuted_ttl : c10_holds c10_ce_ttl = (false, 1).
Proof. vm_compute. reflexivity. Qed.

(* the same with update_many: the expired document shifts the positions, every surviving
   position is compared with the wrong document *)
Definition c10_ce_ttl_update : list op :=
  [OCreateIndex [("t", VInt 1)] false false (Some (VInt 1)) None None;
   OInsertOne (VDoc [("_id", VInt 1); ("t", VDate 5000000 None)]);
   OInsertOne (VDoc [("_id", VInt 2); ("x", VInt 0)]);
   OInsertOne (VDoc [("_id", VInt 3); ("x", VInt 0)]);
   OSetClock 100000000;
   OUpdate (VDoc [("_id", VInt 3)]) (VDoc [("$set", VDoc [("x", VInt 1)])]) true false].
Example c10_refuted_ttl_update : c10_holds c10_ce_ttl_update = (false, 1).
Proof. vm_compute. reflexivity. Qed.

(* bit 2, model-only: a document holding a sub-document with a repeated field name is not ==
   to itself, so an update that changes nothing is reported as one modification *)
Definition c10_ce_illformed : list op :=
  [OInsertOne (VDoc [("_id", VInt 1); ("x", VInt 1);
                     ("a", VDoc [("b", VInt 1); ("b", VInt 2)])]);
   OUpdate (VDoc []) (VDoc [("$set", VDoc [("x", VInt 1)])]) false false].
Example c10_refuted_illformed : c10_holds c10_ce_illformed = (false, 2).
Proof. vm_compute. reflexivity. Qed.

(* ------------------------------------------------------------------------------------------
   First half (entry-point agreement, Properties/C10.v C10_find_is_scan ... ): one checked
   counterexample for each premise on the state. *)
From Verif Require Import C14Base C14Ops C10Entry.
Open Scope list_scope.

(* premise self_keyed of C10_delete_many_is_scan / C10_delete_one_is_scan / C10_entry_points_agree
   (model-only): a hashdict _id with a repeated field name is not == to itself, so looking the
   found document up by its _id misses its own entry: count / find / update see one match,
   delete_many and delete_one raise KeyError.  Reachable from the empty collection. *)
Definition c10_ce_selfkey_ops : list op :=
  [OInsertOne (VDoc [("_id", VDoc [("b", VInt 1); ("b", VInt 2)]); ("x", VInt 1)])].
Definition c10_ce_selfkey : coll := final false empty_coll c10_ce_selfkey_ops.
Example c10_refuted_self_keyed :
  (exists m, iter_documents c10_ce_selfkey (patch (VDoc [])) = Ok (c10_ce_selfkey, m)
             /\ List.length m = 1%nat)
  /\ self_keyedb (docs c10_ce_selfkey) = false
  /\ snd (count_op c10_ce_selfkey (VDoc []) 0 None) = Ok (VInt 1)
  /\ snd (delete_op c10_ce_selfkey (VDoc []) true) = Err EKey
  /\ snd (delete_op c10_ce_selfkey (VDoc []) false) = Err EKey.
Proof.
  split; [eexists; split; [vm_compute; reflexivity|reflexivity]|].
  vm_compute. repeat split; reflexivity.
Qed.

Example c10_self_keyed_fails : ~ self_keyed (docs c10_ce_selfkey).
Proof.
  intro H.
  destruct (H [] (VDoc [("b", VInt 1); ("b", VInt 2)])
              (VDoc [("_id", VDoc [("b", VInt 1); ("b", VInt 2)]); ("x", VInt 1)]) [] eq_refl)
    as (id & Hid & Hk & _).
  vm_compute in Hid. injection Hid as <-. vm_compute in Hk. discriminate.
Qed.

(* premise docs_only of C10_find_is_scan / C10_distinct_is_scan_gen (model-only, not reachable
   through the operations): a store entry that is not a document is counted by
   count_documents({}) but find and delete crash on it *)
Definition c10_ce_nondoc : coll := mkColl [(VInt 1, VInt 5)] [] true 1000 0 [].
Example c10_refuted_docs_only :
  iter_documents c10_ce_nondoc (patch (VDoc [])) = Ok (c10_ce_nondoc, [(VInt 1, VInt 5)])
  /\ snd (count_op c10_ce_nondoc (VDoc []) 0 None) = Ok (VInt 1)
  /\ snd (find_op c10_ce_nondoc (VDoc []) None [] 0 0) = Err ECrash
  /\ snd (delete_op c10_ce_nondoc (VDoc []) true) = Err ECrash.
Proof. vm_compute. repeat split; reflexivity. Qed.

(* premise "the update succeeds" of C10_update_many_matched: the scan matches two documents,
   the update raises on the second one; update_many fails AFTER having modified the first
   (no rollback), so no matched count is reported at all *)
Definition c10_ce_partial_ops : list op :=
  [OInsertOne (VDoc [("_id", VInt 1); ("x", VInt 1)]);
   OInsertOne (VDoc [("_id", VInt 2); ("x", VStr "s")])].
Definition c10_ce_partial : coll := final false empty_coll c10_ce_partial_ops.
Example c10_update_many_partial :
  snd (count_op c10_ce_partial (VDoc []) 0 None) = Ok (VInt 2)
  /\ (let '(c', r) := update_op false c10_ce_partial (VDoc [])
                        (VDoc [("$inc", VDoc [("x", VInt 1)])]) true false in
      (r, docs c'))
     = (Err EType, [(VInt 1, VDoc [("_id", VInt 1); ("x", VInt 2)]);
                     (VInt 2, VDoc [("_id", VInt 2); ("x", VStr "s")])]).
Proof. vm_compute. split; reflexivity. Qed.

(* premise "the scan succeeds" (iter_documents c f = Ok ...): the entry points do NOT agree
   on a filter that raises on some document only.  The matcher validates operators lazily
   ($or stops at the first true clause), so {$or: [{_id: 1}, {x: {$bogus: 1}}]} is accepted on
   document 1 and raises OperationFailure on document 2.  count_documents, find_one,
   delete_one scan the whole store and raise; update_one stops at its first match and
   succeeds (matched 1, document 1 modified). *)
Definition c10_ce_lazy_ops : list op :=
  [OInsertOne (VDoc [("_id", VInt 1); ("x", VInt 1)]);
   OInsertOne (VDoc [("_id", VInt 2); ("x", VInt 5)])].
Definition c10_ce_lazy : coll := final false empty_coll c10_ce_lazy_ops.
Definition c10_ce_lazy_f : value :=
  VDoc [("$or", VArr [VDoc [("_id", VInt 1)]; VDoc [("x", VDoc [("$bogus", VInt 1)])]])].
Example c10_lazy_update_one_disagrees :
  iter_documents c10_ce_lazy (patch c10_ce_lazy_f) = Err EOpFail
  /\ snd (count_op c10_ce_lazy c10_ce_lazy_f 0 None) = Err EOpFail
  /\ snd (find_one c10_ce_lazy c10_ce_lazy_f None []) = Err EOpFail
  /\ snd (delete_op c10_ce_lazy c10_ce_lazy_f false) = Err EOpFail
  /\ snd (update_op false c10_ce_lazy c10_ce_lazy_f (VDoc [("$inc", VDoc [("x", VInt 1)])]) true false)
     = Err EOpFail
  /\ (let '(c', r) := update_op false c10_ce_lazy c10_ce_lazy_f
                        (VDoc [("$inc", VDoc [("x", VInt 1)])]) false false in (r, docs c'))
     = (Ok (VDoc [("matched", VInt 1); ("modified", VInt 1); ("upserted_id", VNull)]),
        [(VInt 1, VDoc [("_id", VInt 1); ("x", VInt 2)]);
         (VInt 2, VDoc [("_id", VInt 2); ("x", VInt 5)])]).
Proof. vm_compute. repeat split; reflexivity. Qed.
