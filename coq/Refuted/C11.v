(* C11: inputs on which the unguarded statements fail (each checked by computation).
   They motivate the extra hypotheses c11_spec_ok / c11_docs_ok / c11_meths_ok. *)
From Coq Require Import ZArith List String Bool.
From Verif Require Import Value Coll Cursor.
Import ListNotations.
Open Scope Z_scope.
Open Scope string_scope.

Definition r_l1 := [VDoc [("x", VInt 2)]; VDoc [("x", VInt 1)]].
Definition r_l2 := [VDoc [("a", VDoc [("x", VInt 2)])]; VDoc [("a", VDoc [("x", VInt 1)])]].

(* 1. a sort key whose last dotted component is empty ("" or "a."): iter_key_candidates
   returns the parent itself, so mongomock sorts by the whole (sub-)document, while the
   statement reads the key as a field that no document has (all tie, natural order kept).
   [a real server rejects such sort keys] *)
Example refuted_sort_radix_empty_key :
  spec_sort [("", 1)] r_l1 = Some r_l1 /\ sort_docs [("", 1)] r_l1 = Ok (rev r_l1).
Proof. vm_compute. split; reflexivity. Qed.
Example refuted_sort_radix_trailing_dot :
  spec_sort [("a.", 1)] r_l2 = Some r_l2 /\ sort_docs [("a.", 1)] r_l2 = Ok (rev r_l2).
Proof. vm_compute. split; reflexivity. Qed.

(* 2. a path component that Python's int() accepts but that is not plain digits (" 1") is
   outside the model (limitation of the model, not of the library) *)
Example refuted_sort_radix_unmodelled :
  spec_sort [("a. 1", 1)] r_l2 = Some r_l2 /\ sort_docs [("a. 1", 1)] r_l2 = Err EUnmodelled.
Proof. vm_compute. split; reflexivity. Qed.

(* 3. the specification recognises its validation probe (the empty document) by value, so a
   stored empty document is dropped by the specification (artefact of the specification:
   stored documents always carry an _id) *)
Example refuted_count_empty_doc :
  count_spec [VDoc []] (VDoc []) 0 None = Some 0 /\
  count_run [VDoc []] (VDoc []) 0 None = Ok (VInt 1).
Proof. vm_compute. split; reflexivity. Qed.
Example refuted_cursor_empty_doc :
  cursor_spec [VDoc []] (VDoc []) [] 0 0 [] = Some [] /\
  cursor_run [VDoc []] (VDoc []) [] 0 0 [] = Ok [VDoc []].
Proof. vm_compute. split; reflexivity. Qed.

(* 4. cursor.sort([]) raises ValueError; the specification reads it as "no sort" *)
Example refuted_cursor_sort_empty :
  cursor_spec r_l1 (VDoc []) [] 0 0 [MSort []] = Some r_l1 /\
  cursor_run r_l1 (VDoc []) [] 0 0 [MSort []] = Err EValue.
Proof. vm_compute. split; reflexivity. Qed.

(* 5. count_documents(limit <= 0) is rejected (hence the hypothesis of C11_count) *)
Example refuted_count_limit_zero :
  count_spec r_l1 (VDoc []) 0 (Some 0) = Some 0 /\
  count_run r_l1 (VDoc []) 0 (Some 0) = Err EOpFail.
Proof. vm_compute. split; reflexivity. Qed.
