(* C12: the projection statement without the hypothesis "the specification is a dict"
   (wf_value p = true) is false in the model: a specification value with the same operator
   field twice.  The specification applies every operator to the array of the ORIGINAL
   document (the last one wins: [1;2]), the code applies them one after the other to the copy
   ([1;2;3] -> [1] -> [1]).  Not a defect of the library: a Python dict cannot hold a key
   twice, so no such projection can be passed to find(); the hypothesis wf_value p = true of
   C12_projection excludes exactly these values. *)
From Coq Require Import ZArith List String Bool.
From Verif Require Import Value Project ProjectSpec.
Import ListNotations.
Open Scope Z_scope.
Open Scope string_scope.

Definition c12_cex_d : value :=
  VDoc [("_id", VInt 7); ("a", VArr [VInt 1; VInt 2; VInt 3]); ("b", VInt 1)].
Definition c12_cex_p : value :=
  VDoc [("a", VDoc [("$slice", VInt 1)]); ("a", VDoc [("$slice", VInt 2)]); ("b", VInt 1)].

Example refuted_projection_duplicate_operator_field :
  project_spec c12_cex_d c12_cex_p
  = Some (VDoc [("_id", VInt 7); ("a", VArr [VInt 1; VInt 2]); ("b", VInt 1)]) /\
  c12_reasons c12_cex_d c12_cex_p = 0 /\
  wf_value c12_cex_d = true /\
  wf_value c12_cex_p = false /\
  copy_only_fields c12_cex_d (Some c12_cex_p)
  = Ok (VDoc [("b", VInt 1); ("_id", VInt 7); ("a", VArr [VInt 1])]) /\
  doc_eq_top (VDoc [("_id", VInt 7); ("a", VArr [VInt 1; VInt 2]); ("b", VInt 1)])
             (VDoc [("b", VInt 1); ("_id", VInt 7); ("a", VArr [VInt 1])]) = false.
Proof. vm_compute. repeat split; reflexivity. Qed.
