(* C16: no counterexample to a target theorem was found - C16_model_satisfies_spec holds without
   any premise.  What is kept here are the checked runs that delimit the premises that ARE stated
   in Properties/C16.v (each premise is needed), and one behaviour of the modelled library worth
   knowing: an aggregation with $out that FAILS still rewrites the target. *)
From Coq Require Import ZArith List String Bool.
From Verif Require Import Value PyEq Update Coll Expr Pipeline AggState AggStateSpec.
From Verif Require Import C16Base C16Facet C16Proofs.
Import ListNotations.
Open Scope Z_scope.
Open Scope string_scope.
Open Scope list_scope.

Definition wr : world :=
  [("c", [VDoc [("_id", VInt 1); ("k", VStr "a")]; VDoc [("_id", VInt 2); ("k", VStr "b")];
          VDoc [("_id", VInt 3); ("k", VStr "a")]]);
   ("t", [VDoc [("_id", VInt 9)]])].

(* (1) C16_read_only / C16_repeatable need "no final $out": with {$out: "c"} - the source
   itself - the first run rewrites c, and the second run returns a different answer.  c16_ok
   does not claim repeatability in the $out case, and accepts this pair of runs. *)
Definition p_self : value := VArr [VDoc [("$skip", VInt 1)]; VDoc [("$out", VStr "c")]].

Example C16_out_to_source_not_repeatable :
  agg_twice wr "c" p_self =
  (([("c", [VDoc [("_id", VInt 2); ("k", VStr "b")]; VDoc [("_id", VInt 3); ("k", VStr "a")]]);
     ("t", [VDoc [("_id", VInt 9)]])],
    Ok [VDoc [("_id", VInt 2); ("k", VStr "b")]; VDoc [("_id", VInt 3); ("k", VStr "a")]]),
   ([("c", [VDoc [("_id", VInt 3); ("k", VStr "a")]]);
     ("t", [VDoc [("_id", VInt 9)]])],
    Ok [VDoc [("_id", VInt 3); ("k", VStr "a")]]))
  /\ fst (fst (agg_twice wr "c" p_self)) <> wr
  /\ snd (fst (agg_twice wr "c" p_self)) <> snd (snd (agg_twice wr "c" p_self))
  /\ (let '((w1, r1), (w2, r2)) := agg_twice wr "c" p_self in
      c16_check (mkC16 wr p_self r1 w1 r2 w2 true true true)) = 0.
Proof. vm_compute. repeat split; try reflexivity; discriminate. Qed.

(* (2) C16_out_replaces needs ids_distinct: a $project that maps _id to k (a, b, a) makes the
   third insert collide.  The answer is Err EBulk, and the world is NOT the one before the
   call: the target t has been emptied and holds the two documents before the duplicate.
   So "the call raised" does not imply "nothing was written" (agg_world_moves_only_by_out
   is the exact statement); MongoDB's own $out replaces the target atomically and leaves it
   untouched on failure, mongomock (drop, then insert_many) does not. *)
Definition p_dup : value :=
  VArr [VDoc [("$project", VDoc [("_id", VStr "$k")])]; VDoc [("$out", VStr "t")]].

Example C16_failed_out_rewrites_target :
  agg_world wr "c" p_dup =
  ([("c", coll_docs wr "c"); ("t", [VDoc [("_id", VStr "a")]; VDoc [("_id", VStr "b")]])], Err EBulk)
  /\ ids_distinct_b [VDoc [("_id", VStr "a")]; VDoc [("_id", VStr "b")]; VDoc [("_id", VStr "a")]] = false
  /\ coll_docs (fst (agg_world wr "c" p_dup)) "t" <> coll_docs wr "t".
Proof. vm_compute. repeat split; try reflexivity; discriminate. Qed.

(* (3) C16_out_replaces needs `storable`: an output document without _id would get a fresh
   ObjectId, which the model does not predict (Err EUnmodelled, the harness skips the run) *)
Example C16_out_without_id_unmodelled :
  snd (agg_world wr "c" (VArr [VDoc [("$project", VDoc [("_id", VInt 0); ("k", VInt 1)])];
                               VDoc [("$out", VStr "t")]])) = Err EUnmodelled.
Proof. vm_compute. reflexivity. Qed.

(* (4) C16_facet_field needs pairwise different titles: a repeated title keeps its first
   position and the LAST branch's value, so the first branch's own answer is not in the field *)
Definition dup_titles : list (string * value) :=
  [("a", VArr [VDoc [("$limit", VInt 1)]]); ("a", VArr [VDoc [("$skip", VInt 2)]])].

Example C16_facet_duplicate_title_last_wins :
  run_stage wr "$facet" (VDoc dup_titles) (coll_docs wr "c")
  = Ok [VDoc [("a", VArr [VDoc [("_id", VInt 3); ("k", VStr "a")]])]]
  /\ run_pipeline wr [VDoc [("$limit", VInt 1)]] (coll_docs wr "c") = Ok [VDoc [("_id", VInt 1); ("k", VStr "a")]]
  /\ run_pipeline wr [VDoc [("$skip", VInt 2)]] (coll_docs wr "c") = Ok [VDoc [("_id", VInt 3); ("k", VStr "a")]].
Proof. vm_compute. repeat split; reflexivity. Qed.

(* (5) the $sample clause of c16_ok is never exercised by the model: a lone $sample is outside
   the model, so C16_model_satisfies_spec needs no "no $sample" premise *)
Example C16_sample_unmodelled :
  agg_world wr "c" (VArr [VDoc [("$sample", VDoc [("size", VInt 2)])]]) = (wr, Err EUnmodelled)
  /\ c16_ok (mkC16 wr (VArr [VDoc [("$sample", VDoc [("size", VInt 2)])]])
                   (Err EUnmodelled) wr (Err EUnmodelled) wr true true true) = true.
Proof. vm_compute. split; reflexivity. Qed.
