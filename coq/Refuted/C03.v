(* C03: pipelines on which the model (= the library, on these cases) and the specification
   disagree and which the guard accepted before the proof of the guarded equivalence was
   attempted (c03_reasons was 0 on each of them).  Each is now rejected by the guard (the new
   bit is shown).  All are candidate defects of the library: MongoDB rejects these pipelines
   (1-3) or orders the documents differently (4). *)
From Coq Require Import ZArith List String Bool Ascii.
From Verif Require Import Value PyEq Path Update Filter Coll Expr Pipeline PipelineSpec PipelineGuard.
Import ListNotations.
Open Scope Z_scope.
Open Scope string_scope.

Definition verdict (db : dbmap) (docs : list value) (p : value) :=
  (aggregate db docs p, spec_aggregate db docs p,
   agrees (spec_aggregate db docs p) (aggregate db docs p), c03_reasons db docs p).

Definition r_docs : list value :=
  [VDoc [("_id", VInt 1); ("a", VArr [VInt 1; VInt 2])]; VDoc [("_id", VInt 2); ("a", VArr [VInt 3])]].

(* 1. {$match: 5} on an empty input (an empty collection, or after a stage that lets nothing
   through): the filter is only looked at when a document reaches it, so the pipeline
   answers [] where MongoDB rejects it ("the match filter must be an expression in an
   object").  Now bit 32 = F-MATCH-NONDOC-EMPTY. *)
Example refuted_match_nondoc_empty :
  verdict [] [] (VArr [VDoc [("$match", VInt 5)]]) = (Ok [], PErr, Some false, 32).
Proof. vm_compute. reflexivity. Qed.

Example refuted_match_nondoc_after_filter :
  verdict [] r_docs (VArr [VDoc [("$match", VDoc [("_id", VInt 9)])]; VDoc [("$match", VStr "x")]])
  = (Ok [], PErr, Some false, 32).
Proof. vm_compute. reflexivity. Qed.

(* 2. {$sort: {}} is accepted as "no sort" where MongoDB rejects it ("$sort stage must have
   at least one sort key").  Now bit 64 = F-SORT-EMPTY-SPEC. *)
Example refuted_sort_empty_spec :
  verdict [] r_docs (VArr [VDoc [("$sort", VDoc [])]]) = (Ok r_docs, PErr, Some false, 64).
Proof. vm_compute. reflexivity. Qed.

(* 3. a $unwind option document with an unknown name is accepted where MongoDB rejects it
   ("unrecognized option to $unwind stage").  Now bit 256 = F-UNWIND-OPTION. *)
Example refuted_unwind_unknown_option :
  verdict [] r_docs (VArr [VDoc [("$unwind", VDoc [("path", VStr "$a"); ("foo", VInt 1)])]])
  = (Ok [VDoc [("_id", VInt 1); ("a", VInt 1)]; VDoc [("_id", VInt 1); ("a", VInt 2)];
         VDoc [("_id", VInt 2); ("a", VInt 3)]], PErr, Some false, 256).
Proof. vm_compute. reflexivity. Qed.

(* 4. a $sort key whose last dotted component is empty ("" or "a."): the documents are ordered
   by the whole (sub-)document, where the statement reads the key as a field no document
   has (all tie, input order kept; a real server rejects such keys).  The finding of C11
   (Refuted/C11.v) reached through $sort.  Now bit 128 = F-SORT-EMPTY-COMPONENT. *)
Example refuted_sort_empty_component :
  verdict [] [VDoc [("x", VInt 2)]; VDoc [("x", VInt 1)]] (VArr [VDoc [("$sort", VDoc [("", VInt 1)])]])
  = (Ok [VDoc [("x", VInt 1)]; VDoc [("x", VInt 2)]],
     PV (mkStream [VDoc [("x", VInt 2)]; VDoc [("x", VInt 1)]] true []), Some false, 128).
Proof. vm_compute. reflexivity. Qed.

Example refuted_sort_trailing_dot :
  verdict [] [VDoc [("a", VDoc [("x", VInt 2)])]; VDoc [("a", VDoc [("x", VInt 1)])]]
          (VArr [VDoc [("$sort", VDoc [("a.", VInt 1)])]])
  = (Ok [VDoc [("a", VDoc [("x", VInt 1)])]; VDoc [("a", VDoc [("x", VInt 2)])]],
     PV (mkStream [VDoc [("a", VDoc [("x", VInt 2)])]; VDoc [("a", VDoc [("x", VInt 1)])]] true []),
     Some false, 128).
Proof. vm_compute. reflexivity. Qed.

(* 5. a $project field computed from an expression that Python reads as false ("", [], {}):
   the library decides inclusion / exclusion from the truth value of every field value, the
   computed ones too.  After an included field the pipeline is rejected ("Bad projection
   specification"); on its own the stage runs in exclusion mode and the answer loses _id.
   The statement (and a server) computes the field.  Found while proving the $project stage
   lemma with computed fields.  Now bit 512 = F-PROJECT-FALSY-COMPUTED. *)
Definition r_docs5 : list value :=
  [VDoc [("a", VInt 1); ("_id", VInt 7); ("b", VStr "x")]; VDoc [("b", VInt 2)]].

Example refuted_project_falsy_after_flag :
  verdict [] r_docs5 (VArr [VDoc [("$project", VDoc [("a", VInt 1); ("x", VStr "")])]])
  = (Err EOpFail,
     PV (mkStream [VDoc [("_id", VInt 7); ("a", VInt 1); ("x", VStr "")]; VDoc [("x", VStr "")]] true []),
     Some false, 512).
Proof. vm_compute. reflexivity. Qed.

Example refuted_project_falsy_array_after_flag :
  verdict [] r_docs5 (VArr [VDoc [("$project", VDoc [("a", VInt 1); ("x", VArr [])])]])
  = (Err EOpFail,
     PV (mkStream [VDoc [("_id", VInt 7); ("a", VInt 1); ("x", VArr [])]; VDoc [("x", VArr [])]] true []),
     Some false, 512).
Proof. vm_compute. reflexivity. Qed.

Example refuted_project_falsy_alone :
  verdict [] r_docs5 (VArr [VDoc [("$project", VDoc [("x", VStr "")])]])
  = (Ok [VDoc [("x", VStr "")]; VDoc [("x", VStr "")]],
     PV (mkStream [VDoc [("_id", VInt 7); ("x", VStr "")]; VDoc [("x", VStr "")]] true []),
     Some false, 512).
Proof. vm_compute. reflexivity. Qed.

(* 6. $lookup whose local value is a sub-document with a "$" key: the library builds the
   filter {foreignField: local value} from the raw value, so the sub-document is run as an
   operator query: {a: {$gt: 1}} joins the foreign documents with b > 1.  The statement (and a
   server) compares the local value as a value: nothing is joined.  Found while proving the
   $lookup stage lemma (the specification wraps sub-documents in $eq, the library does not).
   Now bit 1024 = F-LOOKUP-OPERATOR-VALUE. *)
Definition r_db6 : dbmap := [("f", [VDoc [("_id", VInt 1); ("b", VInt 5)]; VDoc [("_id", VInt 2); ("b", VInt 0)]])].
Definition r_lookup6 : value :=
  VArr [VDoc [("$lookup", VDoc [("from", VStr "f"); ("localField", VStr "a"); ("foreignField", VStr "b");
                                ("as", VStr "j")])]].

Example refuted_lookup_operator_value :
  verdict r_db6 [VDoc [("_id", VInt 1); ("a", VDoc [("$gt", VInt 1)])]] r_lookup6
  = (Ok [VDoc [("_id", VInt 1); ("a", VDoc [("$gt", VInt 1)]); ("j", VArr [VDoc [("_id", VInt 1); ("b", VInt 5)]])]],
     PV (mkStream [VDoc [("_id", VInt 1); ("a", VDoc [("$gt", VInt 1)]); ("j", VArr [])]] true []),
     Some false, 1024).
Proof. vm_compute. reflexivity. Qed.

(* 7. $group by a field holding ObjectIds: the library sorts the documents by key before
   grouping them (itertools.groupby), and mongomock's own ObjectId (the one used when the bson
   package is absent, which is what the model describes) defines no ordering: as soon as two
   keys are ObjectIds the stage raises TypeError, even for equal ids.  The statement groups
   them.  Found while probing the $group stage lemma with keys other than null.
   Now bit 2048 = F-GROUP-KEY-OBJECTID. *)
Definition r_group7 : value :=
  VArr [VDoc [("$group", VDoc [("_id", VStr "$k"); ("n", VDoc [("$sum", VInt 1)])])]].

Example refuted_group_objectid_keys :
  verdict [] [VDoc [("k", VOid 1)]; VDoc [("k", VOid 2)]] r_group7
  = (Err EType,
     PV (mkStream [VDoc [("_id", VOid 1); ("n", VInt 1)]; VDoc [("_id", VOid 2); ("n", VInt 1)]] false []),
     Some false, 2048).
Proof. vm_compute. reflexivity. Qed.

Example refuted_group_objectid_same_key :
  verdict [] [VDoc [("k", VOid 1)]; VDoc [("k", VOid 1)]] r_group7
  = (Err EType, PV (mkStream [VDoc [("_id", VOid 1); ("n", VInt 2)]] true []), Some false, 2048).
Proof. vm_compute. reflexivity. Qed.
