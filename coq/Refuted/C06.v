(* C06: histories on which the MODEL's own trace violates c06_ok and which the guard accepted
   (c06_reasons = 0, bits 1, 2, 4, 8 only) before the proof of C06_history was attempted.
   Each is now rejected by the guard; the new bit is shown next to the old value. *)
From Coq Require Import ZArith List String Bool Ascii.
From Verif Require Import Value PyEq BsonOrder Path Filter FilterSpec FilterGuard Update Project
  Coll HistCheck HistProps HistGuards.
Import ListNotations.
Open Scope Z_scope.
Open Scope string_scope.
Open Scope list_scope.

(* the guard as it was *)
Definition c06_doc_reasons_old (info : value) (d : value) : Z :=
  fold_right Z.lor 0
    (flat_map (fun ni =>
       let i := snd ni in
       if idx_flag "unique" i then
         map (fun p =>
                let parts := split_dots p in
                let C := candidates parts d in
                (if existsb (fun c => match c with Some (VArr _) => true | _ => false end) C
                    || Nat.ltb 1 (List.length C) then 1 else 0)
                + (if Z.eqb (dead_end parts d) 1 then 2 else 0)
                + (if Z.eqb (dead_end parts d) 2 then 4 else 0)
                + (if idx_flag "sparse" i
                      && existsb (fun c => match c with Some VNull => true | _ => false end) C
                   then 8 else 0)) (idx_keys i)
       else []) (index_specs info)).
Definition c06_reasons_old (ops : list op) (os : list obs) : Z :=
  fold_right Z.lor 0
    (map (fun ob => match ob with
                    | (_, s, info) =>
                        fold_right Z.lor 0 (map (fun kd => c06_doc_reasons_old info (snd kd)) s)
                    end) os).

(* (predicate on the model's trace, old guard, new guard) *)
Definition verdict (ops : list op) : bool * Z * Z :=
  let os := model_obs false empty_coll ops in
  (c06_ok ops os, c06_reasons_old ops os, c06_reasons ops os).

(* outcome and store after the last step *)
Definition last_step (ops : list op) : option (res value * list (value * value)) :=
  match rev (model_obs false empty_coll ops) with
  | (r, s, _) :: _ => Some (r, s)
  | _ => None
  end.

Definition uidx (k : string) : op := OCreateIndex [(k, VInt 1)] true false None None None.

(* 1. F-MULTIKEY through a one-element array of sub-documents: the indexed path "a.b" has one
      candidate (1), which is not an array, so bit 1 is clear; _ensure_uniques reads the new
      document with get_value_by_dot, which raises KeyError on the list, and re-queries for
      {a.b: None}: nothing matches and the duplicate is stored.  Bit 16. *)
Definition ops_traverse : list op :=
  [ uidx "a.b";
    OInsertOne (VDoc [("_id", VInt 1); ("a", VArr [VDoc [("b", VInt 1)]])]);
    OInsertOne (VDoc [("_id", VInt 2); ("a", VArr [VDoc [("b", VInt 1)]])]) ].
Example refuted_traverse :
  verdict ops_traverse = (false, 0, 16) /\
  last_step ops_traverse =
    Some (Ok (VDoc [("inserted_id", VInt 2)]),
          [(VInt 1, VDoc [("_id", VInt 1); ("a", VArr [VDoc [("b", VInt 1)]])]);
           (VInt 2, VDoc [("_id", VInt 2); ("a", VArr [VDoc [("b", VInt 1)]])])]).
Proof. vm_compute. split; reflexivity. Qed.

(* 2. an index path with an empty last component: the re-query {"a.": 1} is resolved by
      iter_key_candidates to the parent {"": 1}, which is not == 1.  Bit 32. *)
Definition ops_trailing_dot : list op :=
  [ uidx "a.";
    OInsertOne (VDoc [("_id", VInt 1); ("a", VDoc [("", VInt 1)])]);
    OInsertOne (VDoc [("_id", VInt 2); ("a", VDoc [("", VInt 1)])]) ].
Example refuted_trailing_dot :
  verdict ops_trailing_dot = (false, 0, 32) /\
  last_step ops_trailing_dot =
    Some (Ok (VDoc [("inserted_id", VInt 2)]),
          [(VInt 1, VDoc [("_id", VInt 1); ("a", VDoc [("", VInt 1)])]);
           (VInt 2, VDoc [("_id", VInt 2); ("a", VDoc [("", VInt 1)])])]).
Proof. vm_compute. split; reflexivity. Qed.

(* 3. the indexed value is a sub-document whose keys start with '$': the re-query
      {a: {$gt: 1}} is an operator query, which the stored sub-document does not satisfy.
      Bit 64. *)
Definition ops_dollar_value : list op :=
  [ uidx "a";
    OInsertOne (VDoc [("_id", VInt 1); ("a", VDoc [("$gt", VInt 1)])]);
    OInsertOne (VDoc [("_id", VInt 2); ("a", VDoc [("$gt", VInt 1)])]) ].
Example refuted_dollar_value :
  verdict ops_dollar_value = (false, 0, 64) /\
  last_step ops_dollar_value =
    Some (Ok (VDoc [("inserted_id", VInt 2)]),
          [(VInt 1, VDoc [("_id", VInt 1); ("a", VDoc [("$gt", VInt 1)])]);
           (VInt 2, VDoc [("_id", VInt 2); ("a", VDoc [("$gt", VInt 1)])])]).
Proof. vm_compute. split; reflexivity. Qed.

(* 4. model-only: an _id sub-document with a repeated field name is not == to itself, so the
      rollback `del self._store[_id]` of the rejected insert removes nothing and the
      duplicate stays, although DuplicateKeyError is raised.  Not a Python dict.  Bit 128. *)
Definition ops_bad_id : list op :=
  [ uidx "x";
    OInsertOne (VDoc [("_id", VInt 1); ("x", VInt 1)]);
    OInsertOne (VDoc [("_id", VDoc [("a", VInt 1); ("a", VInt 2)]); ("x", VInt 1)]) ].
Example refuted_bad_id :
  verdict ops_bad_id = (false, 0, 128) /\
  last_step ops_bad_id =
    Some (Err EDup,
          [(VInt 1, VDoc [("_id", VInt 1); ("x", VInt 1)]);
           (VDoc [("a", VInt 1); ("a", VInt 2)],
            VDoc [("_id", VDoc [("a", VInt 1); ("a", VInt 2)]); ("x", VInt 1)])]).
Proof. vm_compute. split; reflexivity. Qed.

(* 5. the uniqueness check of an update raises something else than DuplicateKeyError (here the
      partialFilterExpression uses $regex, outside the model: EUnmodelled; in the library any
      exception of the matcher): Collection._update has already stored the new image and only
      rolls back on DuplicateKeyError, so both documents now carry a = 1.  The model's own
      outcome is EUnmodelled: bit 256 (see C08 F-UPDATE-NO-ROLLBACK for the library side). *)
Definition ops_no_rollback : list op :=
  [ OInsertOne (VDoc [("_id", VInt 1); ("a", VInt 1)]);
    OInsertOne (VDoc [("_id", VInt 2); ("a", VInt 2)]);
    OCreateIndex [("a", VInt 1)] true false None
                 (Some (VDoc [("b", VDoc [("$regex", VStr "x")])])) None;
    OUpdate (VDoc [("_id", VInt 2)]) (VDoc [("$set", VDoc [("a", VInt 1)])]) false false ].
Example refuted_no_rollback :
  verdict ops_no_rollback = (false, 0, 256) /\
  last_step ops_no_rollback =
    Some (Err EUnmodelled,
          [(VInt 1, VDoc [("_id", VInt 1); ("a", VInt 1)]);
           (VInt 2, VDoc [("_id", VInt 2); ("a", VInt 1)])]).
Proof. vm_compute. split; reflexivity. Qed.

(* 6. model-only: an indexed value that is a sub-document with a repeated field name (not a
      Python dict) is not == to itself, so the re-query does not even find the new document;
      BSON equality (positional) identifies the two values.  Bit 64. *)
Definition ops_bad_value : list op :=
  [ uidx "a";
    OInsertOne (VDoc [("_id", VInt 1); ("a", VDoc [("x", VInt 1); ("x", VInt 2)])]);
    OInsertOne (VDoc [("_id", VInt 2); ("a", VDoc [("x", VInt 1); ("x", VInt 2)])]) ].
Example refuted_bad_value :
  verdict ops_bad_value = (false, 0, 64) /\
  last_step ops_bad_value =
    Some (Ok (VDoc [("inserted_id", VInt 2)]),
          [(VInt 1, VDoc [("_id", VInt 1); ("a", VDoc [("x", VInt 1); ("x", VInt 2)])]);
           (VInt 2, VDoc [("_id", VInt 2); ("a", VDoc [("x", VInt 1); ("x", VInt 2)])])]).
Proof. vm_compute. split; reflexivity. Qed.

(* Not refuted, for the record: plain sub-document values and sub-document _ids are inside the
   guard (the duplicate {p: 1.0} of {p: 1} is rejected, key order in an _id is ignored). *)
Definition ops_subdoc_ok : list op :=
  [ uidx "a";
    OInsertOne (VDoc [("_id", VDoc [("k", VInt 1); ("m", VInt 2)]); ("a", VDoc [("p", VInt 1)])]);
    OInsertOne (VDoc [("_id", VDoc [("k", VInt 2)]); ("a", VDoc [("p", VDbl 8)])]) ].
Example subdoc_inside_guard :
  verdict ops_subdoc_ok = (true, 0, 0) /\
  last_step ops_subdoc_ok =
    Some (Err EDup,
          [(VDoc [("k", VInt 1); ("m", VInt 2)],
            VDoc [("_id", VDoc [("k", VInt 1); ("m", VInt 2)]); ("a", VDoc [("p", VInt 1)])])]).
Proof. vm_compute. split; reflexivity. Qed.
