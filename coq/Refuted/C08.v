(* C08: histories on which the MODEL's own trace violates c08_ok and which the guard accepted
   (c08_reasons = 0, only bit 1 existed) before the proof of C08_history was attempted.
   Each is now rejected by the guard; the new bit is shown next to the old value. *)
From Coq Require Import ZArith List String Bool Ascii.
From Verif Require Import Value PyEq BsonOrder Path Filter Update Project Coll HistCheck HistProps
  HistGuards.
Import ListNotations.
Open Scope Z_scope.
Open Scope string_scope.
Open Scope list_scope.

(* the guard as it was *)
Definition c08_reasons_old (ops : list op) (os : list obs) : Z :=
  if existsb (fun o => match o with
                       | OFindAndModify _ (Some _) _ _ => true
                       | _ => false end) ops then 1 else 0.

(* (predicate on the model's trace, old guard, new guard) *)
Definition verdict (ops : list op) : bool * Z * Z :=
  let os := model_obs false empty_coll ops in
  (c08_ok ops os, c08_reasons_old ops os, c08_reasons ops os).

(* outcome and store after the last step, store before it *)
Definition last_step (ops : list op) : option (res value * list (value * value) * list (value * value)) :=
  let os := model_obs false empty_coll ops in
  match rev os with
  | (r, s, _) :: (_, s0, _) :: _ => Some (r, s0, s)
  | _ => None
  end.

(* 1. lazy TTL expiry: insert_one of an existing _id raises DuplicateKeyError, but the expired
      document {_id: 1} was purged by the call.  Bit 2. *)
Definition ops_ttl_lazy : list op :=
  [ OInsertOne (VDoc [("_id", VInt 1); ("t", VDate 0 None)]);
    OInsertOne (VDoc [("_id", VInt 2)]);
    OCreateIndex [("t", VInt 1)] false false (Some (VInt 10)) None None;
    OSetClock 100000000;
    OInsertOne (VDoc [("_id", VInt 2)]) ].
Example refuted_ttl_lazy :
  verdict ops_ttl_lazy = (false, 0, 2) /\
  last_step ops_ttl_lazy =
    Some (Err EDup,
          [(VInt 1, VDoc [("_id", VInt 1); ("t", VDate 0 None)]); (VInt 2, VDoc [("_id", VInt 2)])],
          [(VInt 2, VDoc [("_id", VInt 2)])]).
Proof. vm_compute. split; reflexivity. Qed.

(* 2. TTL expiry of the temporary image: update_one sets u (unique) to a value two other
      documents already match (multikey, so they coexist) and t to an expired date.  The unique
      check purges the new image, still finds two matches and raises DuplicateKeyError; the
      rollback `store[k] = old` then re-creates the entry at the END: order 1,2,3 -> 2,3,1.
      Nothing was expired before the call.  Bit 2. *)
Definition ops_ttl_reorder : list op :=
  [ OInsertOne (VDoc [("_id", VInt 1); ("u", VInt 1)]);
    OInsertOne (VDoc [("_id", VInt 2); ("u", VArr [VInt 1; VInt 2])]);
    OInsertOne (VDoc [("_id", VInt 3); ("u", VArr [VInt 2; VInt 3])]);
    OCreateIndex [("u", VInt 1)] true false None None None;
    OCreateIndex [("t", VInt 1)] false false (Some (VInt 10)) None None;
    OSetClock 100000000;
    OUpdate (VDoc [("_id", VInt 1)])
            (VDoc [("$set", VDoc [("u", VInt 2); ("t", VDate 0 None)])]) false false ].
Example refuted_ttl_reorder :
  verdict ops_ttl_reorder = (false, 0, 2) /\
  last_step ops_ttl_reorder =
    Some (Err EDup,
          [(VInt 1, VDoc [("_id", VInt 1); ("u", VInt 1)]);
           (VInt 2, VDoc [("_id", VInt 2); ("u", VArr [VInt 1; VInt 2])]);
           (VInt 3, VDoc [("_id", VInt 3); ("u", VArr [VInt 2; VInt 3])])],
          [(VInt 2, VDoc [("_id", VInt 2); ("u", VArr [VInt 1; VInt 2])]);
           (VInt 3, VDoc [("_id", VInt 3); ("u", VArr [VInt 2; VInt 3])]);
           (VInt 1, VDoc [("_id", VInt 1); ("u", VInt 1)])]).
Proof. vm_compute. split; reflexivity. Qed.

(* 3. WAS a counterexample (F-UPDATE-NO-ROLLBACK, former meaning of bit 4): replace_one stores
      the new image {a: {$foo: 1}}, the unique check queries {a: {$foo: 1}}, the matcher
      rejects the operator (OperationFailure).  The library used to roll back on
      DuplicateKeyError only, and the new image stayed.  It now rolls back on every exception
      of the unique check: the history is handled correctly and is inside the guard. *)
Definition ops_norollback_value : list op :=
  [ OInsertOne (VDoc [("_id", VInt 1); ("a", VInt 1)]);
    OCreateIndex [("a", VInt 1)] true false None None None;
    OReplace (VDoc [("_id", VInt 1)]) (VDoc [("a", VDoc [("$foo", VInt 1)])]) false ].
Example norollback_value_now_holds :
  verdict ops_norollback_value = (true, 0, 0) /\
  last_step ops_norollback_value =
    Some (Err EOpFail,
          [(VInt 1, VDoc [("_id", VInt 1); ("a", VInt 1)])],
          [(VInt 1, VDoc [("_id", VInt 1); ("a", VInt 1)])]).
Proof. vm_compute. split; reflexivity. Qed.

(* 4. WAS a counterexample (same finding) through a partialFilterExpression the matcher
      rejects: every later update_one that changes a document raised AND was applied.  Now
      rolled back; inside the guard. *)
Definition ops_norollback_partial : list op :=
  [ OInsertOne (VDoc [("_id", VInt 1); ("a", VInt 1)]);
    OCreateIndex [("a", VInt 1)] true false None
                 (Some (VDoc [("a", VDoc [("$foo", VInt 1)])])) None;
    OUpdate (VDoc [("_id", VInt 1)]) (VDoc [("$set", VDoc [("a", VInt 2)])]) false false ].
Example norollback_partial_now_holds :
  verdict ops_norollback_partial = (true, 0, 0) /\
  last_step ops_norollback_partial =
    Some (Err EOpFail,
          [(VInt 1, VDoc [("_id", VInt 1); ("a", VInt 1)])],
          [(VInt 1, VDoc [("_id", VInt 1); ("a", VInt 1)])]).
Proof. vm_compute. split; reflexivity. Qed.

(* 4a. the rollback on a non-duplicate error meets the TTL purge exactly like the rollback on
      DuplicateKeyError (2. above): the new image {a: {$foo: 1}, t: <expired>} is purged by the
      unique check, whose query is then rejected (OperationFailure); in the library the rollback
      re-creates the old document at the END: order 1,2 -> 2,1.  Nothing was expired before the
      call.  This is why the second class of bit 2 is no longer restricted to
      DuplicateKeyError.
      Since iter_documents answers EUnmodelled when the read fails after its expiry pass purged
      documents (the library keeps the purge, the model's callers do not), the MODEL no longer
      plays the library's rollback on this history: the unique check leaves the model, the
      step answers EUnmodelled and keeps the new image (as in 4b), and bit 4 is raised next to
      bit 2.  The history is still rejected by the guard through bit 2 alone (and by the
      `modelled` premise of the history theorem). *)
Definition ops_ttl_reorder_opfail : list op :=
  [ OInsertOne (VDoc [("_id", VInt 1); ("a", VInt 1)]);
    OInsertOne (VDoc [("_id", VInt 2); ("a", VInt 2)]);
    OCreateIndex [("a", VInt 1)] true false None None None;
    OCreateIndex [("t", VInt 1)] false false (Some (VInt 10)) None None;
    OSetClock 100000000;
    OReplace (VDoc [("_id", VInt 1)])
             (VDoc [("a", VDoc [("$foo", VInt 1)]); ("t", VDate 0 None)]) false ].
Example refuted_ttl_reorder_opfail :
  verdict ops_ttl_reorder_opfail = (false, 0, 6) /\
  last_step ops_ttl_reorder_opfail =
    Some (Err EUnmodelled,
          [(VInt 1, VDoc [("_id", VInt 1); ("a", VInt 1)]);
           (VInt 2, VDoc [("_id", VInt 2); ("a", VInt 2)])],
          [(VInt 1, VDoc [("_id", VInt 1); ("a", VDoc [("$foo", VInt 1)]); ("t", VDate 0 None)]);
           (VInt 2, VDoc [("_id", VInt 2); ("a", VInt 2)])]).
Proof. vm_compute. split; reflexivity. Qed.

(* 4b. artefact of the model, not of the library (present meaning of bit 4): the unique check
      itself leaves the model ($regex is not modelled by the matcher): the model answers
      EUnmodelled and keeps the new image, its state being meaningless from there on. *)
Definition ops_unmodelled_check : list op :=
  [ OInsertOne (VDoc [("_id", VInt 1); ("a", VInt 1)]);
    OCreateIndex [("a", VInt 1)] true false None None None;
    OReplace (VDoc [("_id", VInt 1)]) (VDoc [("a", VDoc [("$regex", VStr "x")])]) false ].
Example refuted_unmodelled_check :
  verdict ops_unmodelled_check = (false, 0, 4) /\
  last_step ops_unmodelled_check =
    Some (Err EUnmodelled,
          [(VInt 1, VDoc [("_id", VInt 1); ("a", VInt 1)])],
          [(VInt 1, VDoc [("_id", VInt 1); ("a", VDoc [("$regex", VStr "x")])])]).
Proof. vm_compute. split; reflexivity. Qed.

(* 5. find_one_and_update(upsert=True, return_document=AFTER) whose update sets _id to an
      operator document: the upsert is applied, then the document is re-read with
      {_id: {$foo: 1}} and that read raises.  No projection, no index.  Bit 8. *)
Definition ops_fam_after : list op :=
  [ OFindAndModify (VDoc [("x", VInt 1)]) None []
      (FamUpdate (VDoc [("$set", VDoc [("_id", VDoc [("$foo", VInt 1)])])]) true true) ].
Example refuted_fam_after :
  verdict ops_fam_after = (false, 0, 8) /\
  model_obs false empty_coll ops_fam_after =
    [(Err EOpFail,
      [(VDoc [("$foo", VInt 1)], VDoc [("x", VInt 1); ("_id", VDoc [("$foo", VInt 1)])])],
      VDoc [("_id_", VDoc [("key", VArr [VArr [VStr "_id"; VInt 1]]); ("v", VInt 2)])])].
Proof. vm_compute. split; reflexivity. Qed.

(* 6. artefact of the model, not of the library: an _id with a duplicate key in a sub-document
      (no Python dict can hold one) is not == to itself, so the rollback `del store[_id]` of a
      rejected insert does not find the entry.  Bit 16. *)
Definition ops_bad_key : list op :=
  [ OInsertOne (VDoc [("_id", VInt 2); ("u", VInt 2)]);
    OCreateIndex [("u", VInt 1)] true false None None None;
    OInsertOne (VDoc [("_id", VDoc [("a", VInt 1); ("a", VInt 2)]); ("u", VInt 2)]) ].
Example refuted_bad_key : verdict ops_bad_key = (false, 0, 16).
Proof. vm_compute. reflexivity. Qed.
