(* C05: histories on which the MODEL's own trace violates the predicate c05_ok, found while
   proving Properties/C05.v.  The unguarded statement
     forall pre5 ops, c05_ok ops (model_obs pre5 empty_coll ops) = true
   is therefore false; every class below is now rejected by c05_reasons (bit in the comment).
   [refutes ops bit]: the predicate is false on the model's trace, the history is inside the
   model, and the guard answers exactly [bit]. *)
From Coq Require Import ZArith List String Bool Ascii.
From Verif Require Import Value PyEq BsonOrder Path Filter Update Project Coll HistCheck HistProps
  HistGuards.
Import ListNotations.
Open Scope Z_scope.
Open Scope string_scope.

Definition refutes (ops : list op) (bit : Z) : Prop :=
  c05_ok ops (model_obs false empty_coll ops) = false /\
  modelled false empty_coll ops = true /\
  c05_reasons ops (model_obs false empty_coll ops) = bit.

Definition now_holds (ops : list op) : Prop :=
  c05_ok ops (model_obs false empty_coll ops) = true /\
  modelled false empty_coll ops = true /\
  c05_reasons ops (model_obs false empty_coll ops) = 0.

(* 4 = F-ID-RETYPE (genuine defect of the library).  _update refuses to change _id only when
   old != new under Python ==, so {$set: {_id: 1.0}} / {_id: True} on {_id: 1} succeeds: the
   document now carries an _id that differs (type / BSON value) from the key it is stored
   under; find({_id: true}) then returns it, MongoDB would have raised ImmutableField. *)
Example refuted_retype_double :
  refutes [OInsertOne (VDoc [("_id", VInt 1); ("x", VInt 0)]);
           OUpdate (VDoc [("_id", VInt 1)])
                   (VDoc [("$set", VDoc [("_id", VDbl 8); ("x", VInt 1)])]) false false] 4.
Proof. vm_compute. repeat split; reflexivity. Qed.

Example refuted_retype_bool :
  refutes [OInsertOne (VDoc [("_id", VInt 1); ("x", VInt 0)]);
           OUpdate (VDoc [("_id", VInt 1)])
                   (VDoc [("$set", VDoc [("_id", VBool true); ("x", VInt 1)])]) false false] 4.
Proof. vm_compute. repeat split; reflexivity. Qed.

(* WAS the same class through a replacement (refutes ... 4): the new document took its _id from
   the FILTER, so replace_one({_id: 1.0}, {x: 1}) turned {_id: 1} into {_id: 1.0, x: 1}.
   repaired in the library: the _id is taken from the document being replaced; the history now
   stores {_id: 1, x: 1} under the key 1, the predicate holds and the history is inside the
   guard (c05_reasons = 0). *)
Example refuted_retype_replace_filter :
  let ops := [OInsertOne (VDoc [("_id", VInt 1); ("x", VInt 0)]);
              OReplace (VDoc [("_id", VDbl 8)]) (VDoc [("x", VInt 1)]) false] in
  now_holds ops /\
  map (fun ob : obs => snd (fst ob)) (model_obs false empty_coll ops)
  = [[(VInt 1, VDoc [("_id", VInt 1); ("x", VInt 0)])];
     [(VInt 1, VDoc [("_id", VInt 1); ("x", VInt 1)])]].
Proof. vm_compute. repeat split; reflexivity. Qed.

(* same class with a sub-document _id whose keys are reordered (dict == ignores order) *)
Example refuted_retype_key_order :
  refutes [OInsertOne (VDoc [("_id", VDoc [("a", VInt 1); ("b", VInt 2)]); ("x", VInt 0)]);
           OUpdate (VDoc [("x", VInt 0)])
                   (VDoc [("$set", VDoc [("_id", VDoc [("b", VInt 2); ("a", VInt 1)]);
                                         ("x", VInt 1)])]) false false] 4.
Proof. vm_compute. repeat split; reflexivity. Qed.

(* WAS a counterexample, bit 1 = F-ID-SUBMS (genuine defect of the library, now repaired).
   _insert used to key the store by the _id as given and only then truncate datetimes to
   milliseconds in the stored copy: two datetimes in the same millisecond were two keys, and
   both stored documents carried the same _id.  The store is now keyed by the normalised _id:
   the second insert is rejected with DuplicateKeyError, the predicate holds and the history
   is inside the guard. *)
Example submillisecond_ids_now_holds :
  now_holds [OInsertOne (VDoc [("_id", VDate 1000 None)]);
             OInsertOne (VDoc [("_id", VDate 1001 None)])] /\
  map (fun ob : obs => fst (fst ob))
      (model_obs false empty_coll [OInsertOne (VDoc [("_id", VDate 1000 None)]);
                                   OInsertOne (VDoc [("_id", VDate 1001 None)])])
  = [Ok (VDoc [("inserted_id", VDate 1000 None)]); Err EDup].
Proof. vm_compute. repeat split; reflexivity. Qed.

(* WAS a counterexample, bit 1 (what was left of it): a SUCCESSFUL insert_one of an _id that
   the normalisation changes (sub-millisecond, or aware datetime) returns the normalised _id,
   which is not the _id as given.  The library is consistent here (the id handed out is the id
   stored); the predicate now compares inserted_id with the normalised _id (patch i), so it
   holds, and bit 1 was removed from the guard altogether. *)
Example inserted_id_normalised_now_holds :
  now_holds [OInsertOne (VDoc [("_id", VDate 1001 None)])] /\
  model_obs false empty_coll [OInsertOne (VDoc [("_id", VDate 1001 None)])] =
  [(Ok (VDoc [("inserted_id", VDate 1000 None)]),
    [(VDate 1000 None, VDoc [("_id", VDate 1000 None)])],
    VDoc [("_id_", VDoc [("key", VArr [VArr [VStr "_id"; VInt 1]]); ("v", VInt 2)])])].
Proof. vm_compute. repeat split; reflexivity. Qed.

Example inserted_id_aware_now_holds :
  now_holds [OInsertOne (VDoc [("_id", VDate 0 (Some 0))])].
Proof. vm_compute. repeat split; reflexivity. Qed.

(* 8 = F-ID-BOOL-NUM (the C01 finding F-BOOL-NUM seen through C05): True == 1 in the matcher,
   so a lookup by {_id: true} returns the document stored under 1. *)
Example refuted_lookup_bool :
  refutes [OInsertOne (VDoc [("_id", VInt 1)]);
           OFind (VDoc [("_id", VBool true)]) None [] 0 0] 8.
Proof. vm_compute. repeat split; reflexivity. Qed.

(* 16 = TTL.  Every store access first removes expired documents, so an insert_one can shrink
   the collection (the count clause fails), a rejected insert or an update can change/remove
   other documents.  The C05 clauses are stated for histories without TTL index; expiry is C09. *)
Example refuted_ttl_expiry_in_insert :
  refutes [OCreateIndex [("t", VInt 1)] false false (Some (VInt 10)) None None;
           OInsertOne (VDoc [("_id", VInt 1); ("t", VDate 0 None)]);
           OSetClock 100000000;
           OInsertOne (VDoc [("x", VInt 1)])] 16.
Proof. vm_compute. repeat split; reflexivity. Qed.

(* with a unique index the duplicate check reads the store, which expires the document that
   was just inserted: insert_one acknowledges an _id that is not in the collection *)
Example refuted_ttl_insert_vanishes :
  refutes [OCreateIndex [("t", VInt 1)] false false (Some (VInt 10)) None None;
           OCreateIndex [("u", VInt 1)] true false None None None;
           OSetClock 100000000;
           OInsertOne (VDoc [("_id", VInt 1); ("t", VDate 0 None); ("u", VInt 1)])] 16.
Proof. vm_compute. repeat split; reflexivity. Qed.

(* 2 = not a Python value (model artefact): a sub-document _id with a repeated field name is
   not == to itself, so it can be inserted twice. *)
Example refuted_non_wf_id :
  refutes [OInsertOne (VDoc [("_id", VDoc [("a", VInt 1); ("a", VInt 2)])]);
           OInsertOne (VDoc [("_id", VDoc [("a", VInt 1); ("a", VInt 2)])])] 2.
Proof. vm_compute. repeat split; reflexivity. Qed.

(* WAS bit 32 (+1), outside the model: an aware datetime _id, on which the model answered
   EUnmodelled where the predicate wants DuplicateKeyError.  The _id is now normalised (to the
   naive UTC instant) before it is used as a key: the model decides the history, the duplicate
   is rejected, the predicate holds, inside the guard. *)
Example aware_id_now_holds :
  now_holds [OInsertOne (VDoc [("_id", VDate 0 None)]);
             OInsertOne (VDoc [("_id", VDate 0 (Some 0))])].
Proof. vm_compute. repeat split; reflexivity. Qed.

(* the other former member of bit 32: an array inside a sub-document _id.  Still outside the
   model (EUnmodelled, store untouched), but the predicate holds on it and the guard no
   longer excludes it. *)
Example array_in_id_holds :
  let ops := [OInsertOne (VDoc [("_id", VDoc [("a", VArr [VInt 1])])])] in
  c05_ok ops (model_obs false empty_coll ops) = true /\
  modelled false empty_coll ops = false /\
  c05_reasons ops (model_obs false empty_coll ops) = 0.
Proof. vm_compute. repeat split; reflexivity. Qed.
