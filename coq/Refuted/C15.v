(* C15: a history on which the model's own trace violates c15_ok, found while proving
   C15_history.  It is now rejected by the guard (c15_reasons bit 1). *)
From Coq Require Import ZArith List String Bool Ascii.
From Verif Require Import Value PyEq BsonOrder Path Filter Update Project Coll HistCheck HistProps
  HistGuards.
Import ListNotations.
Open Scope Z_scope.
Open Scope string_scope.

(* A bulk whose second request is an update with an empty update document.  The bulk builder
   validates every request when it is registered (validate_ok_for_update): bulk_write raises
   ValueError and executes NOTHING, so the insert is not performed; issued one at a time the
   insert is performed and only the update raises.  Not a defect of the library (pymongo
   validates UpdateOne/UpdateMany arguments up front as well): the statement "a bulk is its
   requests one at a time" does not hold for requests that fail argument validation. *)
Definition c15_cex : list op :=
  [OBulk [BInsert (VDoc [("_id", VInt 1)]);
          BUpdate (VDoc []) (VDoc []) false false] true].

Example refuted_bulk_invalid_request :
  c15_ok false c15_cex (model_obs false empty_coll c15_cex) = false /\
  model_obs false empty_coll c15_cex = [(Err EValue, [], VDoc [])] /\
  (let '(c2, outs, aborted) :=
     seq_run false empty_coll
       [BInsert (VDoc [("_id", VInt 1)]); BUpdate (VDoc []) (VDoc []) false false] true [] in
   (docs c2, outs, aborted)) =
  ([(VInt 1, VDoc [("_id", VInt 1)])],
   [Ok (VDoc [("inserted_id", VInt 1)]); Err EValue], true) /\
  c15_reasons c15_cex (model_obs false empty_coll c15_cex) = 1.
Proof. vm_compute. repeat split; reflexivity. Qed.
