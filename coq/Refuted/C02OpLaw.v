(* C02: checked counterexamples showing that each extra hypothesis of op_law_sound
   (Proofs/C02OpLaw.v) and replace_law_sound (Proofs/C02Replace.v) is necessary: on each
   instance the model's own apply_update succeeds, all OTHER hypotheses hold, and the law
   evaluates to false. *)
From Coq Require Import ZArith List String Bool Ascii.
From Verif Require Import Value PyEq BsonOrder Path Filter FilterSpec FilterGuard Update Project Coll
                          HistCheck HistProps ProjectSpec Cursor UpdateLaws.
From Verif.Proofs Require Import C02OpLawD C02Replace.
Import ListNotations.
Open Scope Z_scope.
Open Scope string_scope.
Open Scope list_scope.

Definition others_ok (op p : string) (arg d : value) : bool :=
  value_eqb (patch arg) arg && value_eqb (patch d) d && wf_value d
  && negb (((op =? "$min") || (op =? "$max")) && minmax_cross_field p arg d).

(* ---- $addToSet: Python == decides membership ---------------------------------------- *)
(* True == 1: {$addToSet: {a: true}} on {a: [1]} adds nothing; the law (BSON equality: a bool is
   not a number) demands [1, true] *)
Example addToSet_bool_number :
  let d := VDoc [("a", VArr [VInt 1])] in
  apply_update (VDoc []) (VDoc [("$addToSet", VDoc [("a", VBool true)])]) false 0 d = Ok d /\
  op_law "$addToSet" "a" (VBool true) 0 d d = Some false /\
  others_ok "$addToSet" "a" (VBool true) d = true /\
  addtoset_risk "a" (VBool true) d = true /\ addtoset_eq_risk "a" (VBool true) d = true.
Proof. vm_compute. repeat split; reflexivity. Qed.

(* dict equality ignores key order: {$addToSet: {a: [{x:1,y:2}]}} on {a: [[{y:2,x:1}]]} adds
   nothing; the law (sub-documents are ordered) demands the element be added *)
Example addToSet_key_order :
  let arg := VArr [VDoc [("x", VInt 1); ("y", VInt 2)]] in
  let d := VDoc [("a", VArr [VArr [VDoc [("y", VInt 2); ("x", VInt 1)]]])] in
  apply_update (VDoc []) (VDoc [("$addToSet", VDoc [("a", arg)])]) false 0 d = Ok d /\
  op_law "$addToSet" "a" arg 0 d d = Some false /\
  others_ok "$addToSet" "a" arg d = true /\
  addtoset_risk "a" arg d = true /\ addtoset_eq_risk "a" arg d = true.
Proof. vm_compute. repeat split; reflexivity. Qed.

(* a stored aware datetime never == the (naive) operand: the same instant is added again.
   Only possible on an unpatched stored document (patch d <> d) *)
Example addToSet_aware :
  let arg := VDate 5000 None in
  let d := VDoc [("a", VArr [VDate 5000 (Some 0)])] in
  apply_update (VDoc []) (VDoc [("$addToSet", VDoc [("a", arg)])]) false 0 d
    = Ok (VDoc [("a", VArr [VDate 5000 (Some 0); VDate 5000 None])]) /\
  op_law "$addToSet" "a" arg 0 d (VDoc [("a", VArr [VDate 5000 (Some 0); VDate 5000 None])]) = Some false /\
  value_eqb (patch arg) arg = true /\ wf_value d = true /\ value_eqb (patch d) d = false /\
  addtoset_risk "a" arg d = true /\ addtoset_eq_risk "a" arg d = false.
Proof. vm_compute. repeat split; reflexivity. Qed.

(* ---- $pull / $pullAll: aware datetimes in the stored array --------------------------- *)
Example pull_aware :
  let arg := VDate 5000 None in
  let d := VDoc [("a", VArr [VDate 5000 (Some 0)])] in
  apply_update (VDoc []) (VDoc [("$pull", VDoc [("a", arg)])]) false 0 d = Ok d /\
  op_law "$pull" "a" arg 0 d d = Some false /\
  value_eqb (patch arg) arg = true /\ wf_value d = true /\ value_eqb (patch d) d = false /\
  aware_risk "a" d = true.
Proof. vm_compute. repeat split; reflexivity. Qed.

Example pullAll_aware :
  let arg := VArr [VDate 5000 None] in
  let d := VDoc [("a", VArr [VDate 5000 (Some 0)])] in
  apply_update (VDoc []) (VDoc [("$pullAll", VDoc [("a", arg)])]) false 0 d = Ok d /\
  op_law "$pullAll" "a" arg 0 d d = Some false /\
  value_eqb (patch arg) arg = true /\ wf_value d = true /\ value_eqb (patch d) d = false /\
  aware_risk "a" d = true.
Proof. vm_compute. repeat split; reflexivity. Qed.

(* ---- $unset on a document with a duplicate key (not a Python dict) -------------------- *)
Example unset_duplicate_key :
  let d := VDoc [("a", VInt 1); ("a", VInt 2)] in
  apply_update (VDoc []) (VDoc [("$unset", VDoc [("a", VInt 1)])]) false 0 d
    = Ok (VDoc [("a", VInt 2)]) /\
  op_law "$unset" "a" (VInt 1) 0 d (VDoc [("a", VInt 2)]) = Some false /\
  wf_value d = false /\ value_eqb (patch d) d = true.
Proof. vm_compute. repeat split; reflexivity. Qed.

(* ---- $min/$max across type classes (guard bit 32 of c02_reasons) ---------------------- *)
Example max_bool_number :
  let d := VDoc [("a", VBool true)] in
  apply_update (VDoc []) (VDoc [("$max", VDoc [("a", VInt 5)])]) false 0 d
    = Ok (VDoc [("a", VInt 5)]) /\
  op_law "$max" "a" (VInt 5) 0 d (VDoc [("a", VInt 5)]) = Some false /\
  minmax_cross_field "a" (VInt 5) d = true /\ wf_value d = true /\ value_eqb (patch d) d = true.
Proof. vm_compute. repeat split; reflexivity. Qed.

Example min_number_bool :
  let d := VDoc [("a", VInt 5)] in
  apply_update (VDoc []) (VDoc [("$min", VDoc [("a", VBool false)])]) false 0 d
    = Ok (VDoc [("a", VBool false)]) /\
  op_law "$min" "a" (VBool false) 0 d (VDoc [("a", VBool false)]) = Some false /\
  minmax_cross_field "a" (VBool false) d = true.
Proof. vm_compute. repeat split; reflexivity. Qed.

(* ---- replacement: the _id --------------------------------------------------------------- *)
(* the replacement branch USED TO take the _id from the FILTER when the filter has an "_id" key:
   an operator document was stored as the _id
   (d' was VDoc [("_id", VDoc [("$gt", VInt 0)]); ("a", VInt 2)], replace_law = false).
   repaired in the library: the _id is that of the document being replaced, the law holds
   (replace_id_risk is conservative here). *)
Example replace_filter_id_operator :
  let spec := VDoc [("_id", VDoc [("$gt", VInt 0)])] in
  let r := VDoc [("a", VInt 2)] in
  let d := VDoc [("_id", VInt 1); ("a", VInt 1)] in
  let d' := VDoc [("_id", VInt 1); ("a", VInt 2)] in
  apply_update spec r false 0 d = Ok d' /\ replace_law r d d' = true /\
  value_eqb (patch r) r = true /\ wf_value r = true /\ replace_id_risk spec r d = true.
Proof. vm_compute. repeat split; reflexivity. Qed.

(* a filter _id that only == the stored one USED TO replace it: 1 became 1.0
   (d' was VDoc [("_id", VDbl 8); ("a", VInt 2)], replace_law = false).
   repaired in the library: the _id 1 is kept, the law holds. *)
Example replace_filter_id_float :
  let spec := VDoc [("_id", VDbl 8)] in
  let r := VDoc [("a", VInt 2)] in
  let d := VDoc [("_id", VInt 1); ("a", VInt 1)] in
  let d' := VDoc [("_id", VInt 1); ("a", VInt 2)] in
  apply_update spec r false 0 d = Ok d' /\ replace_law r d d' = true /\
  value_eqb (patch r) r = true /\ wf_value r = true /\ replace_id_risk spec r d = true.
Proof. vm_compute. repeat split; reflexivity. Qed.

(* a replacement carrying an _id that only == the stored one (True == 1) replaces it, and moves
   it to the replacement's position *)
Example replace_own_id_bool :
  let spec := VDoc [("a", VInt 1)] in
  let r := VDoc [("a", VInt 2); ("_id", VBool true)] in
  let d := VDoc [("_id", VInt 1); ("a", VInt 1)] in
  let d' := VDoc [("_id", VBool true); ("a", VInt 2)] in
  apply_update spec r false 0 d = Ok d' /\ replace_law r d d' = false /\
  value_eqb (patch r) r = true /\ wf_value r = true /\ replace_id_risk spec r d = true.
Proof. vm_compute. repeat split; reflexivity. Qed.

(* duplicate keys in the replacement (not a Python dict): wf_value r is needed *)
Example replace_duplicate_key :
  let spec := VDoc [] in
  let r := VDoc [("a", VInt 1); ("a", VInt 2)] in
  let d := VDoc [("_id", VInt 1)] in
  let d' := VDoc [("_id", VInt 1); ("a", VInt 2)] in
  apply_update spec r false 0 d = Ok d' /\ replace_law r d d' = false /\
  wf_value r = false /\ replace_id_risk spec r d = false.
Proof. vm_compute. repeat split; reflexivity. Qed.
