(* C04: checked counterexamples to the theorem of Properties/C04.v WITHOUT the guard bits that
   were added while proving it (bits 256 .. 8192 of c04_reasons, Spec/ExprGuard.v).  In each one
   the model (= the library on the tested inputs) is defined (not EUnmodelled), the
   specification decides, and the two disagree; the only reason the guard gives is the new bit.
   (1)-(5) are deviations of the library from MongoDB; (6) is an artefact of the specification
   (MongoDB and the library agree). *)
From Coq Require Import ZArith List String Bool Ascii.
From Verif Require Import Value PyEq BsonOrder Path Update Expr ExprSpec ExprGuard.
Import ListNotations.
Open Scope Z_scope.
Open Scope string_scope.
Open Scope list_scope.

Definition r_doc : value :=
  VDoc [("_id", VInt 1); ("a", VInt 1);
        ("arr", VArr [VInt 1; VInt 2]);
        ("dd", VArr [VDoc [("x", VArr [VDoc [("y", VInt 1)]; VDoc [("y", VInt 2)]])]; VDoc [("x", VArr [VInt 1])]])].

Definition op (k : string) (a : value) : value := VDoc [(k, a)].

Definition obs3 (e : value) :=
  (c04_reasons e r_doc, obs_add_field "x" e r_doc, spec_add_field "x" e r_doc).

Definition with_x (v : value) : value :=
  match r_doc with VDoc fs => VDoc (set_key "x" v fs) | d => d end.

(* (1) 256 = F-ADD-SCALAR: {$add: 1} - the library asserts that the operands are a list and
   raises AssertionError; MongoDB answers 1.  Same for {$multiply: "$a"}. *)
Example C04_refuted_add_scalar :
  obs3 (op "$add" (VInt 1)) = (256, Err ECrash, OVal (with_x (VInt 1))) /\
  obs3 (op "$multiply" (VStr "$a")) = (256, Err ECrash, OVal (with_x (VInt 1))).
Proof. vm_compute. split; reflexivity. Qed.

(* (2) 512 = F-CONCATARRAYS-NULL: {$concatArrays: [null, 1]} - the library checks the types of
   all operands first and raises OperationFailure; the manual says a null operand makes the
   result null (MongoDB evaluates from the left and answers null here). *)
Example C04_refuted_concatArrays_null :
  obs3 (op "$concatArrays" (VArr [VNull; VInt 1])) = (512, Err EOpFail, OVal (with_x VNull)).
Proof. vm_compute. reflexivity. Qed.

(* (3) 1024 = F-SLICE-LITERAL: {$slice: ["$arr", "$a"]} - the library tests isinstance(v, int) on
   the unevaluated operand "$a" and raises OperationFailure; MongoDB evaluates it: [1]. *)
Example C04_refuted_slice_literal :
  obs3 (op "$slice" (VArr [VStr "$arr"; VStr "$a"])) = (1024, Err EOpFail, OVal (with_x (VArr [VInt 1]))) /\
  obs3 (op "$slice" (VArr [VStr "$arr"; VInt 1; op "$add" (VArr [VInt 0; VInt 1])])) =
    (1024, Err EOpFail, OVal (with_x (VArr [VInt 2]))).
Proof. vm_compute. split; reflexivity. Qed.

(* (4) 2048 = F-PATH-NESTED-ARRAY: "$dd.x.y" with dd = [{x: [{y: 1}, {y: 2}]}, {x: [1]}] - the
   library only traverses the outermost array: []; MongoDB: [[1, 2], []]. *)
Example C04_refuted_path_nested_array :
  obs3 (VStr "$dd.x.y") = (2048, Ok (with_x (VArr [])), OVal (with_x (VArr [VArr [VInt 1; VInt 2]; VArr []]))).
Proof. vm_compute. reflexivity. Qed.

(* (5) 4096 = F-SWITCH-UNKNOWN-ARG: an unknown argument of $switch, or of a branch, is ignored by
   the library; MongoDB rejects the expression. *)
Example C04_refuted_switch_unknown_arg :
  obs3 (op "$switch" (VDoc [("branches", VArr [VDoc [("case", VBool true); ("then", VInt 1)]]);
                            ("default", VInt 7); ("x", VInt 1)])) = (4096, Ok (with_x (VInt 1)), OErr) /\
  obs3 (op "$switch" (VDoc [("branches", VArr [VDoc [("case", VBool true); ("then", VInt 1); ("x", VInt 1)]])])) =
    (4096, Ok (with_x (VInt 1)), OErr) /\
  obs3 (op "$switch" (VDoc [("$x", VInt 1); ("branches", VArr [VDoc [("case", VBool true); ("then", VInt 1)]])])) =
    (4096, Ok (with_x (VInt 1)), OErr).
Proof. vm_compute. repeat split; reflexivity. Qed.

(* (6) 8192 = S-SWITCH-EAGER (specification artefact): a malformed branch after a branch that is
   taken.  The library validates all branches first and raises OperationFailure - as MongoDB does
   when it parses the expression; the specification walks the branches lazily and answers 1. *)
Example C04_refuted_switch_eager :
  obs3 (op "$switch" (VDoc [("branches", VArr [VDoc [("case", VBool true); ("then", VInt 1)]; VInt 5])])) =
    (8192, Err EOpFail, OVal (with_x (VInt 1))).
Proof. vm_compute. reflexivity. Qed.
