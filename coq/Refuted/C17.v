(* C17: the former divergences between the model (= the library, on the tested histories) and
   the specification - both repaired in the library, so they are kept as "now holds" examples -
   and the checked counterexamples that delimit the hypothesis wf_s of the one-step theorems in
   Properties/C17.v.  No counterexample to the unguarded theorems is known. *)
From Coq Require Import ZArith List String Bool.
From Verif Require Import Value Catalog C17Base C17Model C17Proofs.
Import ListNotations.
Open Scope string_scope.

(* (1) the former finding F-COLL-VANISH-IDX (was c17_reasons = 1): a collection that exists only
   through its indexes vanished when the last index was dropped.  store.create_index now marks
   the collection created: it stays listed, model and specification agree, c17_reasons = 0.
   (Before: wrun ended in Ok (names_value []).) *)
Definition vanish_idx : list (nat * cop) :=
  [(0%nat, KCreateIndex "d" "c" "f"); (0%nat, KDropIndexes "d" "c"); (0%nat, KListCollections "d");
   (0%nat, KIndexInfo "d" "c")].
Example C17_drop_indexes_now_holds :
  wrun [[]] vanish_idx = [Ok (VStr "f_1"); Ok VNull; Ok (names_value ["c"]); Ok (names_value ["_id_"])] /\
  spec_run [[]] vanish_idx = wrun [[]] vanish_idx /\
  c17_reasons vanish_idx = 0%Z.
Proof. vm_compute. repeat split; reflexivity. Qed.

(* (2) rename of a collection onto its own name with drop_target=True: the library dropped the
   collection and answered success; it now raises OperationFailure and changes nothing, as the
   specification (and MongoDB).  (Before: wrun = [Ok VNull; Ok VNull; Ok (names_value []);
   Ok (VArr [])].)  With drop_target=False both fail as before. *)
Definition self_rename : list (nat * cop) :=
  [(0%nat, KInsert "d" "c" 1%Z); (0%nat, KRename "d" "c" "c" true);
   (0%nat, KListCollections "d"); (0%nat, KRead "d" "c")].
Example C17_self_rename_now_holds :
  wrun [[]] self_rename = [Ok VNull; Err EOpFail; Ok (names_value ["c"]); Ok (VArr [VInt 1%Z])] /\
  spec_run [[]] self_rename = wrun [[]] self_rename /\
  c17_reasons self_rename = 0%Z /\
  list_eqb out_eqb (wrun [[]] self_rename) (spec_run [[]] self_rename) = true.
Proof. vm_compute. repeat split; reflexivity. Qed.

Definition self_rename_nodrop : list (nat * cop) :=
  [(0%nat, KInsert "d" "c" 1%Z); (0%nat, KRename "d" "c" "c" false);
   (0%nat, KListCollections "d"); (0%nat, KRead "d" "c")].
Example C17_self_rename_nodrop_agrees :
  wrun [[]] self_rename_nodrop = [Ok VNull; Err EOpFail; Ok (names_value ["c"]); Ok (VArr [VInt 1%Z])] /\
  wrun [[]] self_rename_nodrop = spec_run [[]] self_rename_nodrop.
Proof. vm_compute. split; reflexivity. Qed.

(* (3) the one-step refinement is false on a store that merely has pairwise different keys:
   a collection store holding documents - or, (3'), indexes - without being marked created
   (never produced by the model: insert and create_index mark it) vanishes when its documents
   are deleted - its indexes dropped.  Hence the clause cs_ok in wf_s. *)
Definition unreachable_store : sstore := [("d", [("c", mkCS [1%Z] [] false)])].
Example C17_refuted_keys_only_wf :
  wf2b unreachable_store = true /\ wf_s unreachable_store = false /\
  snd (kstep (fst (kstep unreachable_store (KDeleteAll "d" "c"))) (KListCollections "d"))
    = Ok (names_value []) /\
  snd (spec_step (fst (spec_step (abs_server unreachable_store) (KDeleteAll "d" "c"))) (KListCollections "d"))
    = Ok (names_value ["c"]).
Proof. vm_compute. repeat split; reflexivity. Qed.

Definition unreachable_store_idx : sstore := [("d", [("c", mkCS [] ["f_1"] false)])].
Example C17_refuted_keys_only_wf_idx :
  wf2b unreachable_store_idx = true /\ wf_s unreachable_store_idx = false /\
  snd (kstep (fst (kstep unreachable_store_idx (KDropIndexes "d" "c"))) (KListCollections "d"))
    = Ok (names_value []) /\
  snd (spec_step (fst (spec_step (abs_server unreachable_store_idx) (KDropIndexes "d" "c"))) (KListCollections "d"))
    = Ok (names_value ["c"]).
Proof. vm_compute. repeat split; reflexivity. Qed.
