(* C14/C10 proofs, part 3: what a single-document update / delete does to the store; store
   comparison lemmas; the {_id: k} query. *)
From Coq Require Import ZArith List String Bool Ascii Lia.
From Verif Require Import Value PyEq BsonOrder Path Filter Update Project Coll HistCheck HistProps.
From Verif Require Import HistGuards C01Values C14Base C14Inv.
Import ListNotations.
Open Scope Z_scope.
Open Scope string_scope.
Open Scope list_scope.

Definition ffalse (f : value) (kd : value * value) : Prop := filter_applies f (snd kd) = Ok false.

(* ---------------------------------------------------------------- scan *)
Lemma scan_nil f l : scan f l = Ok [] -> Forall (ffalse f) l.
Proof.
  induction l as [| [k1 d1] l IH]; simpl; intro H; [constructor|].
  destruct (filter_applies f d1) as [b|e] eqn:Ef; simpl in H; [|discriminate].
  destruct (scan f l) as [r|e]; simpl in H; [|discriminate].
  destruct b; [discriminate|]. injection H as ->.
  constructor; [exact Ef|apply IH; reflexivity].
Qed.

Lemma scan_cons f l k d m :
  scan f l = Ok ((k, d) :: m) ->
  exists pre post, l = pre ++ (k, d) :: post /\ Forall (ffalse f) pre /\ filter_applies f d = Ok true.
Proof.
  induction l as [| [k1 d1] l IH]; simpl; intro H; [discriminate|].
  destruct (filter_applies f d1) as [b|e] eqn:Ef; simpl in H; [|discriminate].
  destruct (scan f l) as [r|e]; simpl in H; [|discriminate].
  destruct b.
  - injection H as -> -> ->. exists [], l. split; [reflexivity|]. split; [constructor|exact Ef].
  - destruct (IH H) as (pre & post & -> & Hp & Hd).
    exists ((k1, d1) :: pre), post. split; [reflexivity|]. split; [|exact Hd].
    constructor; [exact Ef|exact Hp].
Qed.

Lemma ffalse_not_true f l k d :
  Forall (ffalse f) l -> In (k, d) l -> filter_applies f d = Ok true -> False.
Proof.
  intros H Hin Ht. rewrite Forall_forall in H. specialize (H _ Hin). unfold ffalse in H.
  simpl in H. congruence.
Qed.

(* ---------------------------------------------------------------- update_loop, one document *)
Lemma no_ttl_with_docs c l : no_ttl c -> no_ttl (with_docs_w c l).
Proof. exact (fun H => H). Qed.

Lemma update_loop_single spec upd : forall todo c m md c' m' md',
  no_ttl c -> update_loop c spec upd false todo m md = (c', Ok (m', md')) ->
  (c' = c /\ md' = md /\ ((m' = m /\ Forall (ffalse spec) todo) \/ m' = m + 1))
  \/ (exists pre k d post d',
        todo = pre ++ (k, d) :: post /\ Forall (ffalse spec) pre /\ filter_applies spec d = Ok true
        /\ py_eq d' d = false /\ c' = with_docs_w c (store_set k d' (docs c))
        /\ m' = m + 1 /\ md' = md + 1).
Proof.
  induction todo as [| [k d] todo IH]; intros c m md c' m' md' HT H; cbn [update_loop] in H.
  - fin H. left. split; [reflexivity|]. split; [reflexivity|]. left. split; [reflexivity|constructor].
  - destruct (filter_applies spec d) as [[|]|e] eqn:Ef; [| |discriminate].
    + destruct (apply_update spec upd false (now c) d) as [d'|e]; [|discriminate].
      destruct (py_eq d' d) eqn:Epy; cbn [negb] in H.
      * destruct (negb (value_eqb d' d) && py_in k (odocs c)); [discriminate|].
        fin H. left. split; [reflexivity|]. split; [reflexivity|]. right. reflexivity.
      * match type of H with context [if negb ?b then _ else _] => destruct (negb b) end;
          [discriminate|].
        destruct (match d with VDoc fs => assoc "_id" fs | _ => None end); [|discriminate].
        set (c1 := with_docs_w c (store_set k d' (docs c))) in H.
        destruct (ensure_uniques c1 d') as [touched|e].
        -- rewrite (expire_if_no_ttl touched c1 (no_ttl_with_docs c _ HT)) in H. fin H.
           right. exists [], k, d, todo, d'. repeat split; auto.
        -- destruct e; try discriminate; destruct (expire c1); discriminate.
    + apply IH in H; [|exact HT]. destruct H as [(-> & -> & H)|H].
      * left. split; [reflexivity|]. split; [reflexivity|].
        destruct H as [[-> H]| ->]; [left|right; reflexivity].
        split; [reflexivity|]. constructor; [exact Ef|exact H].
      * destruct H as (pre & k0 & d0 & post & d' & -> & Hp & Hd & Hpy & Hc & Hm & Hmd).
        right. exists ((k, d) :: pre), k0, d0, post, d'. repeat split; auto.
Qed.

(* ---------------------------------------------------------------- update: the wrapper *)
Lemma update_unfold pre5 c f u multi upsert c' v :
  Inv c -> update pre5 c f u multi upsert = (c', Ok v) ->
  exists sfs ufs c2 matched modified,
    patch f = VDoc sfs /\ patch u = VDoc ufs /\
    update_loop c (VDoc sfs) (VDoc ufs) multi (docs c) 0 0 = (c2, Ok (matched, modified)) /\
    ((c' = c2 /\ v = update_result matched modified None)
     \/ (upsert = true /\ matched = 0 /\
         exists x new_id, docs c' = docs c2 ++ [x] /\ v = update_result 1 0 (Some new_id))).
Proof.
  intros HI H. unfold update in H.
  destruct (patch f) as [| | | | | | | sfs |]; try discriminate.
  destruct (patch u) as [| | | | | | | ufs |]; try discriminate.
  destruct (empty_operator pre5 (VDoc ufs)); [discriminate|].
  rewrite (expire_no_ttl c (proj1 HI)) in H.
  destruct (match docs c with [] => filter_applies (VDoc sfs) (VDoc []) | _ => Ok true end);
    [|discriminate].
  pose proof (update_loop_inv (VDoc sfs) (VDoc ufs) multi (docs c) c 0 0 HI) as H2.
  destruct (update_loop c (VDoc sfs) (VDoc ufs) multi (docs c) 0 0) as [c2 r] eqn:EL. simpl in H2.
  destruct r as [[matched modified]|e]; [|discriminate].
  exists sfs, ufs, c2, matched, modified. split; [reflexivity|]. split; [reflexivity|].
  split; [exact EL|].
  destruct (negb upsert || negb (matched =?? 0)) eqn:Eup.
  { fin H. left. split; reflexivity. }
  apply orb_false_iff in Eup. destruct Eup as [Eu Em].
  apply negb_false_iff in Eu. apply negb_false_iff in Em. apply Z.eqb_eq in Em.
  right. split; [exact Eu|]. split; [exact Em|].
  set (c3id := match (match assoc "_id" sfs with
                      | Some i => if is_null i then None else Some i | None => None end) with
               | Some i => (c2, i)
               | None => match (match assoc "_id" ufs with
                                | Some i => if is_null i then None else Some i | None => None end) with
                         | Some j => (c2, j)
                         | None => (mkColl (docs c2) (idx c2) (forced c2) (next_oid c2 + 1) (now c2) (odocs c2),
                                    VOid (next_oid c2))
                         end
               end) in H.
  assert (H3 : Inv (fst c3id) /\ docs (fst c3id) = docs c2).
  { unfold c3id.
    destruct (match assoc "_id" sfs with Some i => if is_null i then None else Some i | None => None end);
      [split; [exact H2|reflexivity]|].
    destruct (match assoc "_id" ufs with Some i => if is_null i then None else Some i | None => None end);
      [split; [exact H2|reflexivity]|]. split; [apply Inv_oid; exact H2|reflexivity]. }
  destruct c3id as [c3 id]. simpl in H3. destruct H3 as [H3 Hd3].
  destruct (expand_dots (set_key "_id" id sfs)) as [expanded|e]; [|discriminate].
  destruct (apply_update (VDoc sfs) (VDoc ufs) true (now c3) (fst (discard_ops (VDoc expanded))))
    as [d'|e]; [|discriminate].
  destruct (insert_doc c3 d') as [c4 ir] eqn:Ei.
  destruct (insert_doc_spec c3 d' c4 ir H3 Ei) as (_ & Hins & _).
  destruct ir as [new_id|e]; [|discriminate].
  destruct (Hins new_id eq_refl) as [data Hdata].
  fin H. exists (new_id, data), new_id. simpl. rewrite Hdata, Hd3. split; reflexivity.
Qed.

(* what a successful single-document update does to the store *)
Lemma update_single pre5 c f u upsert c' v :
  Inv c -> update pre5 c f u false upsert = (c', Ok v) ->
  docs c' = docs c
  \/ (exists pre k d post d',
        docs c = pre ++ (k, d) :: post /\ Forall (ffalse (patch f)) pre
        /\ filter_applies (patch f) d = Ok true /\ docs c' = store_set k d' (docs c))
  \/ (upsert = true /\ Forall (ffalse (patch f)) (docs c) /\ exists x, docs c' = docs c ++ [x]).
Proof.
  intros HI H.
  destruct (update_unfold pre5 c f u false upsert c' v HI H)
    as (sfs & ufs & c2 & matched & modified & Hf & Hu & HL & Hr).
  rewrite Hf.
  apply update_loop_single in HL; [|exact (proj1 HI)].
  destruct Hr as [[-> Hv]|(Hup & Hm & x & nid & Hd & Hv)].
  - destruct HL as [(-> & _)|HL]; [left; reflexivity|].
    destruct HL as (pre & k & d & post & d' & Hdocs & Hp & Hd & _ & -> & _).
    right. left. exists pre, k, d, post, d'. repeat split; auto.
  - destruct HL as [(-> & _ & HL)|HL].
    + destruct HL as [[_ HF]|HL]; [|lia].
      right. right. split; [exact Hup|]. split; [exact HF|]. exists x. exact Hd.
    + destruct HL as (pre & k & d & post & d' & _ & _ & _ & _ & _ & Hm' & _). lia.
Qed.

(* ---------------------------------------------------------------- delete_one *)
Lemma sort_docs_nil l : sort_docs [] l = Ok l.
Proof. reflexivity. Qed.

Lemma delete_single c f c' v :
  Inv c -> delete_op c f false = (c', Ok v) ->
  (scan (patch f) (docs c) = Ok [] /\ docs c' = docs c)
  \/ (exists pre k d post id,
        docs c = pre ++ (k, d) :: post /\ Forall (ffalse (patch f)) pre
        /\ filter_applies (patch f) d = Ok true /\ doc_id d = Some id
        /\ store_get id (docs c) <> None /\ docs c' = store_del id (docs c)).
Proof.
  intros HI H. unfold delete_op in H. destruct f; try discriminate.
  destruct (find_docs c (VDoc fs) []) as [[c1 l]|e] eqn:E; [|discriminate].
  destruct (find_docs_spec c _ [] c1 l HI E) as (-> & m & Hs & Hsort).
  rewrite sort_docs_nil in Hsort. injection Hsort as <-.
  destruct m as [| [k d] m]; simpl in H.
  - fin H. left. split; [exact Hs|reflexivity].
  - destruct (scan_cons _ _ _ _ _ Hs) as (pre & post & Hdocs & Hp & Hd).
    destruct d as [| | | | | | | dfs |]; try discriminate.
    destruct (assoc "_id" dfs) as [id|] eqn:Eid; [|discriminate].
    destruct (store_get id (docs c)) eqn:Eg; [|discriminate].
    fin H. right. exists pre, k, (VDoc dfs), post, id. repeat split; auto.
    rewrite Eg. discriminate.
Qed.

(* ---------------------------------------------------------------- store comparisons *)
Lemma damo_refl s : differ_at_most_one s s = true.
Proof.
  induction s as [| [k d] s IH]; [reflexivity|]. simpl. rewrite !value_eqb_refl. exact IH.
Qed.

Lemma damo_at pre k d d' post :
  differ_at_most_one (pre ++ (k, d) :: post) (pre ++ (k, d') :: post) = true.
Proof.
  induction pre as [| [k1 d1] pre IH]; simpl.
  - rewrite value_eqb_refl. simpl. destruct (value_eqb d d'); [apply damo_refl|apply store_eqb_refl].
  - rewrite !value_eqb_refl. exact IH.
Qed.

Lemma first_diff_refl s : first_diff s s = None.
Proof.
  induction s as [| [k d] s IH]; [reflexivity|]. simpl. rewrite !value_eqb_refl. exact IH.
Qed.

Lemma first_diff_at pre k d d' post :
  first_diff (pre ++ (k, d) :: post) (pre ++ (k, d') :: post)
  = if value_eqb d d' then None else Some k.
Proof.
  induction pre as [| [k1 d1] pre IH]; simpl.
  - rewrite value_eqb_refl. simpl. destruct (value_eqb d d'); [apply first_diff_refl|reflexivity].
  - rewrite !value_eqb_refl. exact IH.
Qed.

Lemma first_match_at f pre k d post :
  Forall (ffalse f) pre -> filter_applies f d = Ok true ->
  first_match f (pre ++ (k, d) :: post) = Some k.
Proof.
  intros Hp Hd. induction Hp as [| [k1 d1] pre H1 _ IH]; simpl.
  - rewrite Hd. reflexivity.
  - unfold ffalse in H1. simpl in H1. rewrite H1. exact IH.
Qed.

Lemma ramo_refl s : removed_at_most_one s s = true.
Proof.
  induction s as [| [k d] s IH]; [reflexivity|]. simpl. rewrite !value_eqb_refl. exact IH.
Qed.

Lemma head_key_differs k (d : value) post :
  py_eq k k = true -> (forall k', In k' (skeys post) -> py_eq k k' = false) ->
  match post with
  | [] => True
  | (k', d') :: _ => value_eqb k k' && value_eqb d d' = false
  end.
Proof.
  intros Hk Hpost. destruct post as [| [k' d'] post]; [exact I|].
  destruct (value_eqb k k') eqn:E; [|reflexivity].
  apply value_eqb_eq in E. subst k'. rewrite (Hpost k) in Hk; [discriminate|left; reflexivity].
Qed.

Lemma ramo_at pre k d post :
  py_eq k k = true -> (forall k', In k' (skeys post) -> py_eq k k' = false) ->
  removed_at_most_one (pre ++ (k, d) :: post) (pre ++ post) = true.
Proof.
  intros Hk Hpost. induction pre as [| [k1 d1] pre IH]; simpl.
  - pose proof (head_key_differs k d post Hk Hpost) as H.
    destruct post as [| [k' d'] post]; [reflexivity|]. rewrite H. apply store_eqb_refl.
  - rewrite !value_eqb_refl. exact IH.
Qed.

Lemma first_diff_del pre k d post :
  py_eq k k = true -> (forall k', In k' (skeys post) -> py_eq k k' = false) ->
  first_diff (pre ++ (k, d) :: post) (pre ++ post) = Some k.
Proof.
  intros Hk Hpost. induction pre as [| [k1 d1] pre IH]; simpl.
  - pose proof (head_key_differs k d post Hk Hpost) as H.
    destruct post as [| [k' d'] post]; [reflexivity|]. rewrite H. reflexivity.
  - rewrite !value_eqb_refl. exact IH.
Qed.

Lemma firstn_length_app {A} (l : list A) x : firstn (List.length l) (l ++ x) = l.
Proof. induction l as [| a l IH]; simpl; [destruct x; reflexivity|]. rewrite IH. reflexivity. Qed.

Lemma length_app_one {A} (l : list A) x : List.length (l ++ [x]) = S (List.length l).
Proof. rewrite app_length. simpl. lia. Qed.

Lemma length_mid {A} (pre : list A) a b post :
  List.length (pre ++ a :: post) = List.length (pre ++ b :: post).
Proof. rewrite !app_length. reflexivity. Qed.

Lemma length_del {A} (pre : list A) a post :
  List.length (pre ++ a :: post) = S (List.length (pre ++ post)).
Proof. rewrite !app_length. simpl. lia. Qed.

(* ---------------------------------------------------------------- the {_id: k} query *)
Lemma any_dollar_has_key s fs :
  starts_dollar s = true -> any_dollar fs = false -> has_key s fs = false.
Proof.
  intros Hs. unfold any_dollar. induction fs as [| [k v] fs IH]; simpl; [reflexivity|].
  intro H. apply orb_false_iff in H. destruct H as [H1 H2].
  rewrite (IH H2), orb_false_r.
  destruct (String.eqb s k) eqn:E; [|reflexivity].
  apply String.eqb_eq in E. subst k. congruence.
Qed.

Lemma any_dollar_not_ops fs : any_dollar fs = false -> is_ops_dict fs = false.
Proof.
  unfold any_dollar, is_ops_dict. destruct fs as [| [k v] fs]; [reflexivity|]. simpl.
  intro H. apply orb_false_iff in H. destruct H as [H1 _]. rewrite H1. reflexivity.
Qed.

Definition plain_key (k : value) : bool :=
  match k with VDoc fs => negb (any_dollar fs) | VArr _ => false | _ => true end.

Lemma plain_key_search k : plain_key k = true -> parse_search k = SVal k /\ search_neg (SVal k) = false.
Proof.
  destruct k as [| | | | | | | fs |]; simpl; intro H; try discriminate; try (split; reflexivity).
  apply negb_true_iff in H. rewrite (any_dollar_not_ops fs H), H.
  split; [reflexivity|].
  rewrite !any_dollar_has_key; auto.
Qed.

Lemma filter_id k fs k2 :
  plain_key k = true -> assoc "_id" fs = Some k2 -> is_arr k2 = false ->
  filter_applies (VDoc [("_id", k)]) (VDoc fs) = Ok (py_eq k2 k).
Proof.
  intros Hk H Ha. destruct (plain_key_search k Hk) as [Hp Hn].
  unfold filter_applies. cbn [parse_filter].
  change (parse_clause_with parse_search parse_filter "_id" k) with (CField "_id" (parse_search k)).
  rewrite Hp. cbn [matches eval_clause]. unfold eval_field.
  change (split_dots "_id") with ["_id"].
  change (path_modelled ["_id"]) with true. cbn [negb]. cbn [candidates]. rewrite H.
  rewrite Hn.
  assert (E : match k2 with
              | VArr xs => Ok (py_in k xs || py_eq k (VArr xs))
              | _ => Ok (py_eq k2 k) end = Ok (py_eq k2 k))
    by (destruct k2; try reflexivity; discriminate).
  rewrite E. simpl. destruct (py_eq k2 k); reflexivity.
Qed.

(* sorting keeps the elements *)
Lemma insert_by_in {A} (lt : A -> A -> res bool) x : forall l r z,
  insert_by lt x l = Ok r -> In z r -> z = x \/ In z l.
Proof.
  induction l as [| y l IH]; intros r z H Hin; simpl in H.
  - fin H. destruct Hin as [<-|[]]. left. reflexivity.
  - destruct (lt y x) as [b|e]; simpl in H; [|discriminate]. destruct b.
    + destruct (insert_by lt x l) as [r'|e] eqn:E; simpl in H; [|discriminate]. fin H.
      destruct Hin as [<-|Hin]; [right; left; reflexivity|].
      destruct (IH r' z eq_refl Hin) as [->|H']; [left; reflexivity|right; right; exact H'].
    + fin H. destruct Hin as [<-|Hin]; [left; reflexivity|right; exact Hin].
Qed.

Lemma sort_by_in {A} (lt : A -> A -> res bool) : forall l r z,
  sort_by lt l = Ok r -> In z r -> In z l.
Proof.
  induction l as [| x l IH]; intros r z H Hin; simpl in H.
  - fin H. exact Hin.
  - destruct (sort_by lt l) as [s|e] eqn:E; simpl in H; [|discriminate].
    destruct (insert_by_in lt x s r z H Hin) as [->|H']; [left; reflexivity|].
    right. exact (IH s z eq_refl H').
Qed.

Lemma py_sorted_in {A} (lt : A -> A -> res bool) rv l r z :
  py_sorted lt rv l = Ok r -> In z r -> In z l.
Proof.
  unfold py_sorted. destruct rv.
  - destruct (sort_by lt (rev l)) as [s|e] eqn:E; simpl; [|discriminate].
    intros H Hin. fin H. apply in_rev in Hin. apply in_rev. exact (sort_by_in lt _ s z E Hin).
  - apply sort_by_in.
Qed.

Lemma sort_docs_in : forall spec l r z, sort_docs spec l = Ok r -> In z r -> In z l.
Proof.
  induction spec as [| [k dir] spec IH]; intros l r z H Hin; simpl in H.
  - fin H. exact Hin.
  - destruct (sort_docs spec l) as [l'|e] eqn:E; simpl in H; [|discriminate].
    destruct (k =? "$natural").
    { fin H. apply (IH l l' z E). destruct (dir <?? 0); [apply in_rev; exact Hin|exact Hin]. }
    destruct (starts_dollar k); [discriminate|].
    destruct (negb (path_modelled (split_dots k))); [discriminate|].
    apply (IH l l' z E). exact (py_sorted_in _ _ _ _ _ H Hin).
Qed.

Lemma scan_in f : forall l m x, scan f l = Ok m -> In x m -> In x l.
Proof.
  induction l as [| [k d] l IH]; intros m x H Hin; simpl in H.
  - fin H. exact Hin.
  - destruct (filter_applies f d) as [b|e]; simpl in H; [|discriminate].
    destruct (scan f l) as [r|e]; simpl in H; [|discriminate]. fin H.
    destruct b; [destruct Hin as [<-|Hin]; [left; reflexivity|]|];
      right; exact (IH r x eq_refl Hin).
Qed.

Lemma project_all_none : forall l l', project_all None l = Ok l' -> l' = l.
Proof.
  induction l as [| d l IH]; intros l' H; simpl in H.
  - fin H. reflexivity.
  - destruct d; simpl in H; try discriminate.
    destruct (project_all None l) as [r|e]; simpl in H; [|discriminate]. fin H.
    rewrite (IH r eq_refl). reflexivity.
Qed.
