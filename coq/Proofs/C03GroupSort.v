(* C03 part B -- $group with scalar keys: the library sorts the (key, document) pairs with a
   stable sort and cuts the sorted list into runs of equal keys (itertools.groupby); the
   specification collects the classes of equal keys in the order of first occurrence.  Both
   give one group per class of keys, holding the documents of the class in input order under
   the key of the first of them: the two lists of groups are permutations of each other. *)
From Coq Require Import ZArith List String Bool Ascii Lia Permutation Sorted.
From Verif Require Import Value PyEq BsonOrder Path Update Filter FilterSpec FilterGuard Coll Cursor
     Expr ExprSpec Pipeline PipelineSpec.
From Verif Require Import C01Values C04Base C11Sort C11Keys.
Import ListNotations.
Open Scope Z_scope.
Open Scope string_scope.
Open Scope list_scope.

(* ------------------------------------------------------------ scalar keys *)
Definition scalar_key (v : value) : bool :=
  match v with VNull | VInt _ | VDbl _ | VStr _ | VDate _ None => true | _ => false end.

Definition eqk (a b : value) : bool := match vcmp a b with Eq => true | _ => false end.

Lemma eqk_refl a : eqk a a = true.
Proof. unfold eqk. rewrite (tpo_refl vcmp tpo_vcmp). reflexivity. Qed.

Lemma eqk_sym a b : eqk a b = eqk b a.
Proof. unfold eqk. rewrite (tpo_antisym _ tpo_vcmp a b). destruct (vcmp a b); reflexivity. Qed.

Lemma eqk_true a b : eqk a b = true -> vcmp a b = Eq.
Proof. unfold eqk. destruct (vcmp a b); try discriminate. reflexivity. Qed.

Lemma eqk_trans a b c : eqk a b = true -> eqk b c = true -> eqk a c = true.
Proof.
  intros H1 H2. apply eqk_true in H1, H2. unfold eqk. rewrite (tpo_eq _ tpo_vcmp a b c H1), H2. reflexivity.
Qed.

Lemma eqk_congr a b c : eqk a b = true -> eqk a c = eqk b c.
Proof. intros H. apply eqk_true in H. unfold eqk. rewrite (tpo_eq _ tpo_vcmp a b c H). reflexivity. Qed.

Lemma lex_num (A B : Z) :
  match lex2 (fun a b : Z * Z * string => Z.compare (fst (fst a)) (fst (fst b)))
             (lex2 (fun a b : Z * Z * string => Z.compare (snd (fst a)) (snd (fst b)))
                   (fun a b : Z * Z * string => String.compare (snd a) (snd b)))
             (2, A, EmptyString) (2, B, EmptyString)
  with Eq => true | _ => false end = Z.eqb A B.
Proof.
  unfold lex2. cbn [fst snd]. change (Z.compare 2 2) with Eq. cbv iota.
  destruct (Z.compare_spec A B) as [E|E|E].
  - subst. rewrite Z.eqb_refl. reflexivity.
  - symmetry. apply Z.eqb_neq. lia.
  - symmetry. apply Z.eqb_neq. lia.
Qed.

Lemma eqk_bson a b : scalar_key a = true -> scalar_key b = true -> eqk a b = bson_eq a b.
Proof.
  unfold eqk, vcmp, kcmp.
  destruct a as [| |z|e|s|us tz| | |]; try discriminate; destruct b as [| |z'|e'|s'|us' tz'| | |]; try discriminate;
    intros Ha Hb; cbn [vkey bson_eq]; try reflexivity.
  - rewrite lex_num. apply Zeqb_8.
  - apply lex_num.
  - apply lex_num.
  - apply lex_num.
  - unfold lex2. cbn [fst snd]. change (Z.compare 3 3) with Eq. change (Z.compare 0 0) with Eq. cbv iota.
    destruct (String.compare s s') eqn:E.
    + apply String.compare_eq_iff in E. subst. rewrite String.eqb_refl. reflexivity.
    + symmetry. apply String.eqb_neq. intros ->. rewrite (tpo_refl _ tpo_string) in E. discriminate.
    + symmetry. apply String.eqb_neq. intros ->. rewrite (tpo_refl _ tpo_string) in E. discriminate.
  - destruct tz; [discriminate|]. destruct tz'; [discriminate|]. cbn [date_key].
    unfold lex2. cbn [fst snd]. change (Z.compare 9 9) with Eq. cbv iota.
    destruct (Z.compare_spec us us') as [E|E|E].
    + subst. rewrite Z.eqb_refl. reflexivity.
    + symmetry. apply Z.eqb_neq. lia.
    + symmetry. apply Z.eqb_neq. lia.
Qed.

Lemma scalar_key_plain a : scalar_key a = true -> plain a = true.
Proof. destruct a as [| | | | |us tz| | |]; try discriminate; try reflexivity. destruct tz; [discriminate|reflexivity]. Qed.

Lemma scalar_key_decided a : scalar_key a = true -> decided a = true.
Proof. destruct a as [| | | | |us tz| | |]; try discriminate; try reflexivity. destruct tz; [discriminate|reflexivity]. Qed.

Lemma eqk_py a b : scalar_key a = true -> scalar_key b = true -> py_eq a b = eqk a b.
Proof.
  intros Ha Hb. rewrite (eqk_bson a b Ha Hb). apply plain_py_bson; apply scalar_key_plain; assumption.
Qed.

(* ------------------------------------------------------------ the sort on (key, document) pairs *)
Definition pair := (value * value)%type.
Definition kc (x y : pair) : comparison := vcmp (fst x) (fst y).
Lemma tpo_kc : tpo kc.
Proof. unfold kc. apply (tpo_pull (fun p : pair => fst p)). exact tpo_vcmp. Qed.
Definition ltp : pair -> pair -> bool := ltb_of kc.

Definition cls (k : value) (l : list pair) : list pair := List.filter (fun p => eqk (fst p) k) l.

(* stability: the documents of a class keep their order *)
Lemma cls_ins k x S :
  cls k (ins ltp x S) = if eqk (fst x) k then x :: cls k S else cls k S.
Proof.
  induction S as [|y S IH]; [reflexivity|]. cbn [ins].
  unfold ltp at 1, ltb_of, kc. destruct (vcmp (fst y) (fst x)) eqn:E; try reflexivity.
  unfold cls in *. cbn [List.filter]. rewrite IH.
  destruct (eqk (fst x) k) eqn:Ex; [|reflexivity].
  assert (Ey : eqk (fst y) k = false).
  { unfold eqk. rewrite <- (tpo_eq_r vcmp tpo_vcmp (fst y) (fst x) k (eqk_true _ _ Ex)).
    rewrite E. reflexivity. }
  rewrite Ey. reflexivity.
Qed.

Lemma cls_isort k l : cls k (isort ltp l) = cls k l.
Proof.
  induction l as [|x l IH]; [reflexivity|]. cbn [isort]. rewrite cls_ins, IH.
  unfold cls. cbn [List.filter]. reflexivity.
Qed.

Lemma filter_all_true {A} (p : A -> bool) l : (forall x, In x l -> p x = true) -> List.filter p l = l.
Proof.
  induction l as [|x l IH]; intros H; [reflexivity|]. cbn [List.filter].
  rewrite (H x (or_introl eq_refl)). f_equal. apply IH. intros y Hy. apply H. right. exact Hy.
Qed.

Lemma filter_nil_false {A} (p : A -> bool) l : (forall x, In x l -> p x = false) -> List.filter p l = [].
Proof.
  induction l as [|x l IH]; intros H; [reflexivity|]. cbn [List.filter].
  rewrite (H x (or_introl eq_refl)). apply IH. intros y Hy. apply H. right. exact Hy.
Qed.

Definition ncls (k : value) (l : list pair) : list pair := List.filter (fun p => negb (eqk (fst p) k)) l.
Definition le (x y : pair) : Prop := kc x y <> Gt.

Lemma SS_true {A} (l : list A) : StronglySorted (fun _ _ => True) l.
Proof. induction l as [|x l IH]; constructor; [exact IH|]. apply Forall_forall. intros; exact I. Qed.

Lemma isort_le l : StronglySorted le (isort ltp l).
Proof.
  pose proof (isort_sorted kc tpo_kc (fun _ _ => True) l (SS_true l)) as H.
  eapply SS_impl; [|exact H]. intros a b [E|[E _]]; unfold le; rewrite E; discriminate.
Qed.

Lemma SS_filter {A} (R : A -> A -> Prop) (p : A -> bool) l :
  StronglySorted R l -> StronglySorted R (List.filter p l).
Proof.
  induction 1 as [|x l HS IH HF]; [constructor|]. cbn [List.filter]. destruct (p x); [|exact IH].
  constructor; [exact IH|]. apply Forall_forall. intros y Hy. apply filter_In in Hy.
  rewrite Forall_forall in HF. apply HF. exact (proj1 Hy).
Qed.

(* in a sorted list whose elements are not below k, the class of k comes first *)
Lemma sorted_split k L :
  StronglySorted le L -> Forall (fun y => vcmp k (fst y) <> Gt) L -> L = cls k L ++ ncls k L.
Proof.
  induction 1 as [|y L HS IH HF]; intros Hk; [reflexivity|].
  inversion Hk as [|? ? Hy Hk']; subst. unfold cls, ncls in *. cbn [List.filter].
  destruct (eqk (fst y) k) eqn:E; cbn [negb app].
  - f_equal. apply IH. exact Hk'.
  - assert (Hlt : vcmp k (fst y) = Lt).
    { unfold eqk in E. rewrite (tpo_antisym _ tpo_vcmp k (fst y)) in E.
      destruct (vcmp k (fst y)); [discriminate E|reflexivity|contradiction]. }
    assert (Hnone : forall z, In z L -> eqk (fst z) k = false).
    { intros z Hz. destruct (eqk (fst z) k) eqn:Ez; [|reflexivity]. exfalso.
      rewrite Forall_forall in HF. apply (HF z Hz). unfold kc.
      rewrite (tpo_eq_r vcmp tpo_vcmp (fst y) (fst z) k (eqk_true _ _ Ez)).
      rewrite (tpo_antisym _ tpo_vcmp k (fst y)), Hlt. reflexivity. }
    rewrite (filter_nil_false (fun p : value * value => eqk (fst p) k) L) by exact Hnone. cbn [app]. f_equal.
    symmetry. apply filter_all_true. intros z Hz. rewrite (Hnone z Hz). reflexivity.
Qed.

Lemma filter_length_le {A} (p : A -> bool) l : (List.length (List.filter p l) <= List.length l)%nat.
Proof. induction l as [|x l IH]; [simpl; lia|]. cbn [List.filter]. destruct (p x); simpl; lia. Qed.

Lemma filter_filter_comm_id {A} (p q : A -> bool) l :
  (forall x, p x = true -> q x = true) -> List.filter p l = List.filter p (List.filter q l).
Proof.
  intros H. induction l as [|x l IH]; [reflexivity|]. cbn [List.filter].
  destruct (p x) eqn:Ep.
  - rewrite (H x Ep). cbn [List.filter]. rewrite Ep. f_equal. exact IH.
  - destruct (q x); [cbn [List.filter]; rewrite Ep|]; exact IH.
Qed.

(* ------------------------------------------------------------ itertools.groupby on a run *)
Lemma group_by_run E : forall ck g T,
  (forall p, In p E -> py_eq ck (fst p) = true) ->
  match T with [] => True | t :: _ => py_eq ck (fst t) = false end ->
  group_by (E ++ T) (Some (ck, g)) = (ck, rev g ++ map snd E) :: group_by T None.
Proof.
  induction E as [|[k d] E IH]; intros ck g T HE HT.
  - cbn [app map]. rewrite app_nil_r. destruct T as [|[k d] T]; [reflexivity|].
    cbn [group_by fst] in *. rewrite HT. reflexivity.
  - cbn [app group_by]. pose proof (HE (k, d) (or_introl eq_refl)) as H0. cbn [fst] in H0. rewrite H0.
    rewrite IH; [|intros p Hp; apply HE; right; exact Hp|exact HT].
    cbn [rev map snd]. rewrite <- app_assoc. reflexivity.
Qed.

(* ------------------------------------------------------------ one group per class *)
Definition groups := list (value * list value).

Definition Rep (G : groups) (l : list pair) : Prop :=
  ForallOrdPairs (fun g1 g2 => eqk (fst g1) (fst g2) = false) G /\
  Forall (fun g => (exists d rest, cls (fst g) l = (fst g, d) :: rest) /\ snd g = map snd (cls (fst g) l)) G /\
  forall p, In p l -> exists g, In g G /\ eqk (fst p) (fst g) = true.

Lemma cls_app k a b : cls k (a ++ b) = cls k a ++ cls k b.
Proof. unfold cls. apply filter_app. Qed.

Lemma cls_congr k k' l : eqk k k' = true -> cls k l = cls k' l.
Proof.
  intros H. unfold cls. apply filter_ext. intros p. rewrite (eqk_sym (fst p) k), (eqk_sym (fst p) k').
  apply eqk_congr. exact H.
Qed.

Lemma Rep_sorted : forall n S,
  (List.length S <= n)%nat -> StronglySorted le S -> Forall (fun p => scalar_key (fst p) = true) S ->
  Rep (group_by S None) S.
Proof.
  induction n as [|n IHn]; intros S Hlen HS Hsc.
  - destruct S; [|simpl in Hlen; lia]. repeat split; [constructor|constructor|intros p []].
  - destruct S as [|x S']; [repeat split; [constructor|constructor|intros p []]|].
    set (S := x :: S') in *.
    assert (Hge : Forall (fun y => vcmp (fst x) (fst y) <> Gt) S).
    { unfold S. constructor; [rewrite (tpo_refl vcmp tpo_vcmp); discriminate|].
      inversion HS as [|? ? _ HF]; subst. exact HF. }
    pose proof (sorted_split (fst x) S HS Hge) as Hsplit.
    assert (HE : cls (fst x) S = x :: cls (fst x) S').
    { unfold S, cls. cbn [List.filter]. rewrite eqk_refl. reflexivity. }
    assert (HT : ncls (fst x) S = ncls (fst x) S').
    { unfold S, ncls. cbn [List.filter]. rewrite eqk_refl. reflexivity. }
    set (T := ncls (fst x) S') in *.
    assert (HTS : forall p, In p T -> In p S' /\ eqk (fst p) (fst x) = false).
    { intros p Hp. unfold T, ncls in Hp. apply filter_In in Hp. destruct Hp as [Hp Hq].
      apply negb_true_iff in Hq. split; assumption. }
    (* the run *)
    assert (Hgb : group_by S None = (fst x, map snd (cls (fst x) S)) :: group_by T None).
    { rewrite Hsplit at 1. rewrite HE, HT. destruct x as [kx dx]. cbn [app group_by fst snd].
      rewrite group_by_run; [reflexivity| |].
      - intros p Hp. unfold cls in Hp. apply filter_In in Hp. destruct Hp as [Hp Hq].
        rewrite eqk_py; [rewrite eqk_sym; exact Hq| |].
        + inversion Hsc; subst. assumption.
        + inversion Hsc as [|? ? _ Hsc']; subst. rewrite Forall_forall in Hsc'. exact (Hsc' p Hp).
      - destruct T as [|t T'] eqn:HTe; [exact I|].
        destruct (HTS t (or_introl eq_refl)) as [Ht Hq].
        rewrite eqk_py; [rewrite eqk_sym; exact Hq| |].
        + inversion Hsc; subst. assumption.
        + inversion Hsc as [|? ? _ Hsc']; subst. rewrite Forall_forall in Hsc'. exact (Hsc' t Ht). }
    (* the rest *)
    assert (HRT : Rep (group_by T None) T).
    { apply IHn.
      - unfold T, ncls. pose proof (filter_length_le (fun p : value * value => negb (eqk (fst p) (fst x))) S') as Hfl.
        unfold S in Hlen. cbn [List.length] in Hlen. apply le_S_n in Hlen.
        eapply Nat.le_trans; [exact Hfl|exact Hlen].
      - unfold T, ncls. apply SS_filter. inversion HS; subst. assumption.
      - apply Forall_forall. intros p Hp. destruct (HTS p Hp) as [Hp' _].
        inversion Hsc as [|? ? _ Hsc']; subst. rewrite Forall_forall in Hsc'. exact (Hsc' p Hp'). }
    destruct HRT as (R1 & R2 & R3).
    assert (HclsT : forall k, eqk k (fst x) = false -> cls k S = cls k T).
    { intros k Hk. rewrite Hsplit, cls_app, HT.
      assert (Hnil : cls k (cls (fst x) S) = []).
      { apply filter_nil_false. intros p Hp. unfold cls in Hp. apply filter_In in Hp. destruct Hp as [_ Hq].
        destruct (eqk (fst p) k) eqn:E; [|reflexivity].
        rewrite <- (eqk_congr (fst p) k (fst x) E) in Hk. rewrite Hq in Hk. discriminate. }
      rewrite Hnil. reflexivity. }
    rewrite Hgb. split; [|split].
    + constructor; [|exact R1]. apply Forall_forall. intros g Hg. cbn [fst].
      rewrite Forall_forall in R2. destruct (R2 g Hg) as [(d & rest & Hc) _].
      assert (Hin : In (fst g, d) T) by (apply (filter_In (fun p : value * value => eqk (fst p) (fst g)) (fst g, d) T);
                                           fold (cls (fst g) T); rewrite Hc; left; reflexivity).
      rewrite eqk_sym. exact (proj2 (HTS _ Hin)).
    + constructor.
      * cbn [fst snd]. split; [|reflexivity]. rewrite HE. destruct x as [kx dx]. exists dx. eexists. reflexivity.
      * apply Forall_forall. intros g Hg. rewrite Forall_forall in R2. destruct (R2 g Hg) as [(d & rest & Hc) Hs].
        assert (Hin : In (fst g, d) T) by (apply (filter_In (fun p : value * value => eqk (fst p) (fst g)) (fst g, d) T);
                                             fold (cls (fst g) T); rewrite Hc; left; reflexivity).
        rewrite (HclsT (fst g) (proj2 (HTS _ Hin))). split; [exists d, rest; exact Hc|exact Hs].
    + intros p Hp. destruct (eqk (fst p) (fst x)) eqn:E.
      * eexists. split; [left; reflexivity|exact E].
      * assert (HpT : In p T).
        { unfold T, ncls. apply filter_In. split; [|rewrite E; reflexivity].
          destruct Hp as [<-|Hp]; [rewrite eqk_refl in E; discriminate|exact Hp]. }
        destruct (R3 p HpT) as (g & Hg & Hq). exists g. split; [right; exact Hg|exact Hq].
Qed.

Lemma existsb_false_in' {A} (p : A -> bool) l : existsb p l = false -> forall x, In x l -> p x = false.
Proof.
  intros H x Hin. destruct (p x) eqn:E; [|reflexivity]. exfalso.
  assert (Ht : existsb p l = true) by (apply existsb_exists; exists x; split; assumption).
  rewrite Ht in H. discriminate.
Qed.

(* the representation only depends on the classes *)
Lemma Rep_transfer G l l' :
  (forall k, cls k l = cls k l') -> (forall p, In p l' -> In p l) -> Rep G l -> Rep G l'.
Proof.
  intros Hc Hin (R1 & R2 & R3). split; [exact R1|]. split.
  - eapply Forall_impl; [|exact R2]. intros g [(d & rest & H1) H2]. rewrite <- Hc. split; [exists d, rest; exact H1|exact H2].
  - intros p Hp. apply R3. apply Hin. exact Hp.
Qed.

(* ------------------------------------------------------------ the classes of the specification *)
Lemma FOP_app_one {A} (R : A -> A -> Prop) l x :
  ForallOrdPairs R l -> Forall (fun y => R y x) l -> ForallOrdPairs R (l ++ [x]).
Proof.
  induction 1 as [|y l Hy HF IH]; intros Hx; [repeat constructor|].
  inversion Hx as [|? ? Hyx Hx']; subst. cbn [app]. constructor; [|apply IH; exact Hx'].
  apply Forall_app. split; [exact Hy|constructor; [exact Hyx|constructor]].
Qed.

Lemma FOP_map_fst (f : value * list value -> value * list value) (G : groups) :
  (forall g, fst (f g) = fst g) ->
  ForallOrdPairs (fun g1 g2 => eqk (fst g1) (fst g2) = false) G ->
  ForallOrdPairs (fun g1 g2 => eqk (fst g1) (fst g2) = false) (map f G).
Proof.
  intros Hf. induction 1 as [|g G Hg HF IH]; [constructor|]. cbn [map]. constructor; [|exact IH].
  apply Forall_forall. intros g' Hg'. apply in_map_iff in Hg'. destruct Hg' as (g0 & <- & Hg0).
  rewrite !Hf. rewrite Forall_forall in Hg. exact (Hg g0 Hg0).
Qed.

Definition upd (k d : value) (c : value * list value) : value * list value :=
  if bson_eq (fst c) k then (fst c, snd c ++ [d]) else c.

Lemma classes_cons k d rest acc :
  classes ((k, d) :: rest) acc =
  classes rest (if existsb (fun c => bson_eq (fst c) k) acc then map (upd k d) acc else acc ++ [(k, [d])]).
Proof. reflexivity. Qed.

Lemma classes_rep : forall l p acc,
  Forall (fun q => scalar_key (fst q) = true) (p ++ l) ->
  Rep acc p -> Rep (classes l acc) (p ++ l).
Proof.
  induction l as [|[k d] l IH]; intros p acc Hsc HR.
  - rewrite app_nil_r. exact HR.
  - rewrite classes_cons.
    replace (p ++ (k, d) :: l) with ((p ++ [(k, d)]) ++ l) by (rewrite <- app_assoc; reflexivity).
    assert (Hsc' : Forall (fun q => scalar_key (fst q) = true) ((p ++ [(k, d)]) ++ l)).
    { rewrite <- app_assoc. exact Hsc. }
    apply IH; [exact Hsc'|].
    assert (Hk : scalar_key k = true).
    { rewrite Forall_forall in Hsc. apply (Hsc (k, d)). apply in_or_app. right. left. reflexivity. }
    assert (Hp : forall q, In q p -> scalar_key (fst q) = true).
    { intros q Hq. rewrite Forall_forall in Hsc. apply Hsc. apply in_or_app. left. exact Hq. }
    destruct HR as (R1 & R2 & R3).
    assert (Hg : forall g, In g acc -> scalar_key (fst g) = true).
    { intros g Hg. rewrite Forall_forall in R2. destruct (R2 g Hg) as [(d0 & rest & Hc) _].
      apply (Hp (fst g, d0)).
      apply (filter_In (fun q : value * value => eqk (fst q) (fst g)) (fst g, d0) p).
      fold (cls (fst g) p). rewrite Hc. left. reflexivity. }
    assert (Hbe : forall g, In g acc -> bson_eq (fst g) k = eqk (fst g) k).
    { intros g Hin. symmetry. apply eqk_bson; [exact (Hg g Hin)|exact Hk]. }
    destruct (existsb (fun c => bson_eq (fst c) k) acc) eqn:Hex.
    + (* the class exists: the document joins it *)
      apply existsb_exists in Hex. destruct Hex as (c0 & Hc0 & Hb0). rewrite (Hbe c0 Hc0) in Hb0.
      split; [|split].
      * apply FOP_map_fst; [|exact R1]. intros g. unfold upd. destruct (bson_eq (fst g) k); reflexivity.
      * apply Forall_forall. intros g' Hg'. apply in_map_iff in Hg'. destruct Hg' as (g & <- & Hin).
        rewrite Forall_forall in R2. destruct (R2 g Hin) as [(d0 & rest & Hc) Hs].
        unfold upd. rewrite (Hbe g Hin). destruct (eqk (fst g) k) eqn:E; cbn [fst snd].
        -- rewrite cls_app. unfold cls at 2 4. cbn [List.filter fst]. rewrite (eqk_sym k (fst g)), E.
           rewrite Hc. split; [exists d0; eexists; reflexivity|]. rewrite <- Hc, map_app, Hs. reflexivity.
        -- rewrite cls_app. unfold cls at 2 4. cbn [List.filter fst]. rewrite (eqk_sym k (fst g)), E.
           rewrite !app_nil_r. split; [exists d0, rest; exact Hc|exact Hs].
      * intros q Hq. apply in_app_or in Hq. destruct Hq as [Hq|[<-|[]]].
        -- destruct (R3 q Hq) as (g & Hin & He). exists (upd k d g). split; [apply in_map; exact Hin|].
           unfold upd. destruct (bson_eq (fst g) k); exact He.
        -- exists (upd k d c0). split; [apply in_map; exact Hc0|]. cbn [fst].
           unfold upd. destruct (bson_eq (fst c0) k); cbn [fst]; rewrite eqk_sym; exact Hb0.
    + (* a new class *)
      assert (Hno : forall g, In g acc -> eqk (fst g) k = false).
      { intros g Hin. rewrite <- (Hbe g Hin). exact (existsb_false_in' _ _ Hex g Hin). }
      assert (Hclsk : cls k p = []).
      { apply filter_nil_false. intros q Hq. destruct (eqk (fst q) k) eqn:E; [|reflexivity]. exfalso.
        destruct (R3 q Hq) as (g & Hin & He).
        rewrite (eqk_congr (fst q) (fst g) k He) in E. rewrite (Hno g Hin) in E. discriminate. }
      split; [|split].
      * apply FOP_app_one; [exact R1|]. apply Forall_forall. intros g Hin. cbn [fst]. exact (Hno g Hin).
      * apply Forall_app. split.
        -- apply Forall_forall. intros g Hin. rewrite Forall_forall in R2. destruct (R2 g Hin) as [(d0 & rest & Hc) Hs].
           rewrite cls_app. unfold cls at 2 4. cbn [List.filter fst]. rewrite (eqk_sym k (fst g)), (Hno g Hin).
           rewrite !app_nil_r. split; [exists d0, rest; exact Hc|exact Hs].
        -- constructor; [|constructor]. cbn [fst snd]. rewrite cls_app, Hclsk. unfold cls. cbn [List.filter fst app].
           rewrite eqk_refl. split; [exists d, []; reflexivity|reflexivity].
      * intros q Hq. apply in_app_or in Hq. destruct Hq as [Hq|[<-|[]]].
        -- destruct (R3 q Hq) as (g & Hin & He). exists g. split; [apply in_or_app; left; exact Hin|exact He].
        -- exists (k, [d]). split; [apply in_or_app; right; left; reflexivity|apply eqk_refl].
Qed.

Lemma Rep_nil : Rep [] [].
Proof. repeat split; [constructor|constructor|intros p []]. Qed.

(* ------------------------------------------------------------ two representations of the same list *)
Lemma Rep_NoDup G l : Rep G l -> NoDup G.
Proof.
  intros (R1 & _ & _). induction R1 as [|g G Hg HF IH]; constructor; [|exact IH].
  intros Hin. rewrite Forall_forall in Hg. specialize (Hg g Hin). rewrite eqk_refl in Hg. discriminate.
Qed.

Lemma Rep_in G1 G2 l g : Rep G1 l -> Rep G2 l -> In g G1 -> In g G2.
Proof.
  intros (_ & A2 & _) (_ & B2 & B3) Hin.
  rewrite Forall_forall in A2. destruct (A2 g Hin) as [(d & rest & Hc) Hs].
  assert (Hp : In (fst g, d) l).
  { apply (filter_In (fun q : value * value => eqk (fst q) (fst g)) (fst g, d) l).
    fold (cls (fst g) l). rewrite Hc. left. reflexivity. }
  destruct (B3 _ Hp) as (g2 & Hin2 & He). cbn [fst] in He.
  rewrite Forall_forall in B2. destruct (B2 g2 Hin2) as [(d2 & rest2 & Hc2) Hs2].
  rewrite <- (cls_congr (fst g) (fst g2) l He) in Hc2, Hs2. rewrite Hc in Hc2. inversion Hc2 as [[Hk Hd Hr]].
  assert (Hg : g = g2).
  { destruct g as [k ds], g2 as [k2 ds2]. cbn [fst snd] in *. subst. reflexivity. }
  subst g2. exact Hin2.
Qed.

Lemma Rep_perm G1 G2 l : Rep G1 l -> Rep G2 l -> Permutation G1 G2.
Proof.
  intros H1 H2. apply NoDup_Permutation; [exact (Rep_NoDup _ _ H1)|exact (Rep_NoDup _ _ H2)|].
  intros g. split; [apply (Rep_in G1 G2 l g H1 H2)|apply (Rep_in G2 G1 l g H2 H1)].
Qed.

(* ------------------------------------------------------------ the library's groups and the specification's classes *)
Theorem groups_classes keyed :
  Forall (fun p => scalar_key (fst p) = true) keyed ->
  Permutation (group_by (isort ltp keyed) None) (classes keyed []) /\
  Rep (classes keyed []) keyed.
Proof.
  intros Hsc.
  assert (HRs : Rep (classes keyed []) keyed).
  { apply (classes_rep keyed [] []); [exact Hsc|exact Rep_nil]. }
  split; [|exact HRs]. apply (Rep_perm _ _ keyed); [|exact HRs].
  apply (Rep_transfer _ (isort ltp keyed) keyed).
  - intros k. apply cls_isort.
  - intros p Hp. eapply Permutation_in; [apply isort_perm|exact Hp].
  - apply (Rep_sorted (List.length (isort ltp keyed))); [apply Nat.le_refl|apply isort_le|].
    apply Forall_forall. intros p Hp. rewrite Forall_forall in Hsc. apply Hsc.
    eapply Permutation_in; [apply Permutation_sym; apply isort_perm|exact Hp].
Qed.
