(* C03 part B -- $group with the constant key null (one group holding the whole input): the
   accumulators $sum, $avg, $min, $max (through fold_agree of C04), $first, $last, $push,
   $addToSet against spec_accumulate.  The two answers hold the same fields with the same
   values; the specification puts _id first, the library last. *)
From Coq Require Import ZArith List String Bool Ascii Lia Permutation.
From Verif Require Import Value PyEq BsonOrder Path Update Filter FilterSpec FilterGuard Coll Cursor
     Expr ExprSpec ExprGuard Pipeline PipelineSpec PipelineGuard.
From Verif Require Import C01Values C12Base C04Base C04Order.
From Verif Require Import C03Base C03Laws C03Group C03Stages C03StageExpr C03StageProject C03StageProject2.
Import ListNotations.
Open Scope Z_scope.
Open Scope string_scope.
Open Scope list_scope.

(* ------------------------------------------------------------ the stages covered *)
(* the key expression is the constant null (or _id is absent: both sides reject the stage),
   no field name is repeated *)
Definition group_null_covered (o : value) : bool :=
  match o with
  | VDoc fs => (match assoc "_id" fs with Some v => is_null v | None => true end) && nodup_str (map fst fs)
  | _ => true
  end.

(* ------------------------------------------------------------ the values of an accumulator expression *)
Definition to_eres (r : sres) : eres := match r with SV v => EV v | SMiss => EMiss | _ => EE EUnmodelled end.
Definition present (rs : list sres) : list value := flat_map sval_list rs.

Lemma acc_values_agree e l :
  (forall d, In d l -> c04_reasons e d = 0) ->
  existsb is_sundef (map (fun d => seval [] d e) l) = false ->
  existsb is_serr (map (fun d => seval [] d e) l) = false ->
  acc_values e l = Err EUnmodelled \/
  (acc_values e l = Ok (present (map (fun d => seval [] d e) l)) /\
   forall d, In d l -> eval [] d true e = to_eres (seval [] d e)).
Proof.
  induction l as [|d l IH]; intros Hg Hu He.
  - right. split; [reflexivity|intros d []].
  - cbn [map existsb] in Hu, He. apply orb_false_iff in Hu, He. destruct Hu as [Hud Hul], He as [Hed Hel].
    specialize (IH (fun x Hx => Hg x (or_intror Hx)) Hul Hel).
    cbn [map acc_values present flat_map].
    destruct (R_Rc _ _ (expr_R d e (Hg d (or_introl eq_refl)))) as [Hm|v Hsv Hm|Hsv Hm|er Hsv Hm|Hsv].
    + rewrite Hm. left. reflexivity.
    + rewrite Hm, Hsv. cbn [sval_list app to_eres]. destruct IH as [IH|[IH1 IH2]].
      * rewrite IH. left. reflexivity.
      * rewrite IH1. right. split; [reflexivity|]. intros d' [<-|Hd']; [rewrite Hm, Hsv; reflexivity|exact (IH2 d' Hd')].
    + rewrite Hm, Hsv. cbn [sval_list app to_eres]. destruct IH as [IH|[IH1 IH2]].
      * left. exact IH.
      * right. split; [exact IH1|]. intros d' [<-|Hd']; [rewrite Hm, Hsv; reflexivity|exact (IH2 d' Hd')].
    + rewrite Hsv in Hed. discriminate.
    + rewrite Hsv in Hud. discriminate.
Qed.

(* ------------------------------------------------------------ $addToSet: the same list *)
Lemma union_into_dedup vs : forall acc,
  forallb plain acc = true -> forallb plain vs = true ->
  union_into acc vs = fold_left (fun a v => if existsb (bson_eq v) a then a else a ++ [v]) vs acc.
Proof.
  induction vs as [|v vs IH]; intros acc Ha Hv; [reflexivity|].
  cbn [forallb] in Hv. apply andb_true_iff in Hv. destruct Hv as [Hpv Hv].
  cbn [union_into fold_left]. rewrite (py_in_plain v acc Hpv Ha).
  apply IH; [|exact Hv]. destruct (existsb (bson_eq v) acc); [exact Ha|].
  rewrite forallb_app, Ha. cbn [forallb]. rewrite Hpv. reflexivity.
Qed.

(* ------------------------------------------------------------ one accumulator *)
Lemma spec_accumulate_ops op e ord g v :
  spec_accumulate op e ord g = Some v ->
  In op ["$sum"; "$avg"; "$min"; "$max"; "$first"; "$last"; "$push"; "$addToSet"].
Proof.
  intros H.
  destruct (String.eqb_spec op "$sum") as [->|H1]; [simpl; tauto|].
  destruct (String.eqb_spec op "$avg") as [->|H2]; [simpl; tauto|].
  destruct (String.eqb_spec op "$min") as [->|H3]; [simpl; tauto|].
  destruct (String.eqb_spec op "$max") as [->|H4]; [simpl; tauto|].
  destruct (String.eqb_spec op "$first") as [->|H5]; [simpl; tauto|].
  destruct (String.eqb_spec op "$last") as [->|H6]; [simpl; tauto|].
  destruct (String.eqb_spec op "$push") as [->|H7]; [simpl; tauto|].
  destruct (String.eqb_spec op "$addToSet") as [->|H8]; [simpl; tauto|].
  exfalso. apply String.eqb_neq in H1, H2, H3, H4, H5, H6, H7, H8.
  unfold spec_accumulate in H. cbv zeta in H. rewrite H1, H2, H3, H4, H5, H6, H7, H8 in H.
  cbn [orb] in H. destruct (existsb is_sundef _ || existsb is_serr _); discriminate.
Qed.

Lemma present_all_sv rs :
  existsb is_sundef rs = false -> existsb is_serr rs = false ->
  existsb (fun r => match r with SMiss => true | _ => false end) rs = false ->
  rs = map SV (present rs).
Proof.
  induction rs as [|r rs IH]; intros Hu He Hm; [reflexivity|].
  cbn [existsb] in *. apply orb_false_iff in Hu, He, Hm. destruct Hu as [Hu1 Hu], He as [He1 He], Hm as [Hm1 Hm].
  cbn [present flat_map]. destruct r; try discriminate. cbn [sval_list app map]. f_equal. apply IH; assumption.
Qed.

Lemma accumulate_op_agree op e l v :
  (forall d, In d l -> c04_reasons e d = 0) ->
  (op = "$addToSet" -> forall d x, In d l -> eval [] d true e = EV x -> plain x = true) ->
  (op = "$first" \/ op = "$last" -> forall d, In d l -> eval [] d true e <> EMiss) ->
  spec_accumulate op e true l = Some v ->
  accumulate_op None op e l = Err EUnmodelled \/ accumulate_op None op e l = Ok v.
Proof.
  intros Hg Hplain Hmiss Hs. pose proof (spec_accumulate_ops _ _ _ _ _ Hs) as Hop.
  unfold spec_accumulate in Hs. cbv zeta in Hs.
  set (rs := map (fun d => seval [] d e) l) in *.
  destruct (existsb is_sundef rs) eqn:Hu; [discriminate|].
  destruct (existsb is_serr rs) eqn:He; [discriminate|]. cbn [orb] in Hs.
  change (flat_map (fun r : sres => match r with SV v0 => [v0] | _ => [] end) rs) with (present rs) in Hs.
  unfold accumulate_op.
  destruct (acc_values_agree e l Hg Hu He) as [Hm|[Hm Hev]]; rewrite Hm; [left; reflexivity|]. cbn [bind]. fold rs.
  assert (Hfold : forall k, In k ["$sum"; "$avg"; "$min"; "$max"] ->
            match sfold k (present rs) with SV v' => Some v' | _ => None end = Some v ->
            group_fold k (present rs) = Ok v).
  { intros k Hk Hsv. pose proof (fold_agree k (present rs) Hk) as Hfa.
    destruct (sfold k (present rs)); try discriminate. inversion Hsv; subst. exact Hfa. }
  assert (Hnomiss : op = "$first" \/ op = "$last" -> rs = map SV (present rs)).
  { intros Hfl. apply present_all_sv; [exact Hu|exact He|].
    destruct (existsb (fun r => match r with SMiss => true | _ => false end) rs) eqn:Ex; [|reflexivity]. exfalso.
    apply existsb_exists in Ex. destruct Ex as (r & Hin & Hr). destruct r; try discriminate.
    unfold rs in Hin. apply in_map_iff in Hin. destruct Hin as (d & Hd & Hin).
    apply (Hmiss Hfl d Hin). rewrite (Hev d Hin), Hd. reflexivity. }
  destruct Hop as [<-|[<-|[<-|[<-|[<-|[<-|[<-|[<-|[]]]]]]]]];
    cbn [String.eqb Ascii.eqb Bool.eqb orb andb negb] in Hs |- *.
  - right. apply Hfold; [simpl; tauto|exact Hs].
  - right. apply Hfold; [simpl; tauto|exact Hs].
  - right. apply Hfold; [simpl; tauto|exact Hs].
  - right. apply Hfold; [simpl; tauto|exact Hs].
  - right. rewrite (Hnomiss (or_introl eq_refl)) in Hs.
    change (group_fold "$first" (present rs)) with (Ok (match present rs with [] => VNull | x :: _ => x end) : res value).
    destruct (present rs) as [|x r]; cbn [map] in Hs; [discriminate|]. cbn [key_of] in Hs. inversion Hs. reflexivity.
  - right. rewrite (Hnomiss (or_intror eq_refl)) in Hs.
    change (group_fold "$last" (present rs)) with (Ok (last (present rs) VNull) : res value).
    rewrite <- map_rev in Hs. destruct (rev (present rs)) as [|x r] eqn:Hrev; cbn [map] in Hs; [discriminate|].
    cbn [key_of] in Hs. inversion Hs; subst x.
    assert (Hp : present rs = rev r ++ [v]).
    { rewrite <- (rev_involutive (present rs)), Hrev. reflexivity. }
    rewrite Hp, last_last. reflexivity.
  - right. inversion Hs. reflexivity.
  - right. inversion Hs. f_equal. f_equal. unfold dedup_bson.
    apply union_into_dedup; [reflexivity|].
    apply forallb_forall. intros x Hx. unfold present in Hx. apply in_flat_map in Hx.
    destruct Hx as (r & Hr & Hx). destruct r as [v0| | |]; cbn [sval_list] in Hx; try contradiction.
    destruct Hx as [<-|[]].
    unfold rs in Hr. apply in_map_iff in Hr. destruct Hr as (d & Hd & Hin).
    apply (Hplain eq_refl d v0 Hin). rewrite (Hev d Hin), Hd. reflexivity.
Qed.

Lemma spec_accumulate_addtoset e ord g v :
  spec_accumulate "$addToSet" e ord g = Some v -> is_arr v = true.
Proof.
  unfold spec_accumulate. cbv zeta. cbn [String.eqb Ascii.eqb Bool.eqb orb].
  destruct (existsb is_sundef _ || existsb is_serr _); [discriminate|].
  intros H. inversion H. reflexivity.
Qed.

(* ------------------------------------------------------------ the fields of one group *)
Definition ggo (ord : bool) (grp : list value) :=
  fix go (l : list (string * value)) (acc : list (string * value)) : option value :=
    match l with
    | [] => Some (VDoc acc)
    | (f, VDoc [(op, e)]) :: l' =>
        match spec_accumulate op e ord grp with
        | Some v => go l' (acc ++ [(f, v)])
        | None => None
        end
    | _ :: _ => None
    end.

Definition sets_of (accs : list (string * value)) : list string :=
  flat_map (fun kv => match snd kv with VDoc [("$addToSet", _)] => [fst kv] | _ => [] end) accs.

Lemma spec_group_unfold fs ide s :
  assoc "_id" fs = Some ide ->
  spec_group (VDoc fs) s =
  if negb (no_sets s) then PUndef else
  let accs := del_key "_id" fs in
  if existsb (fun kv => negb (plain_name (fst kv))) accs then PUndef else
  match all_opt (map (fun d => key_of (seval [] d ide)) (s_docs s)) with
  | None => PUndef
  | Some keys =>
      let cls := classes (combine keys (s_docs s)) [] in
      match all_opt (map (fun c => ggo (s_ord s) (snd c) accs [("_id", fst c)]) cls) with
      | Some l => PV (mkStream l (Z.of_nat (List.length l) <?? 2) (sets_of accs))
      | None => PUndef
      end
  end.
Proof. intros H. unfold spec_group. rewrite H. reflexivity. Qed.

Lemma assoc_notin {A} k (l : list (string * A)) : ~ In k (map fst l) -> assoc k l = None.
Proof.
  induction l as [|[k' v] l IH]; intros H; [reflexivity|]. cbn [assoc].
  destruct (String.eqb_spec k k') as [->|Hn]; [exfalso; apply H; left; reflexivity|].
  apply IH. intros Hin. apply H. right. exact Hin.
Qed.

Definition acc_guard (l : list value) (op : string) (e : value) : Prop :=
  (forall d, In d l -> c04_reasons e d = 0) /\
  (op = "$addToSet" -> forall d x, In d l -> eval [] d true e = EV x -> plain x = true) /\
  (op = "$first" \/ op = "$last" -> forall d, In d l -> eval [] d true e <> EMiss).

Definition sets_arrays (sets : list string) (M : list (string * value)) : Prop :=
  forall kv, In kv M -> mem_str (fst kv) sets = true -> is_arr (snd kv) = true.

Lemma group_fields_agree l sets accs (key : value) : forall M y,
  NoDup (map fst M ++ map fst accs) ->
  ~ In "_id" (map fst accs) ->
  (forall f op e, In (f, VDoc [(op, e)]) accs -> acc_guard l op e) ->
  (forall f op e, In (f, VDoc [(op, e)]) accs -> mem_str f sets = true -> op = "$addToSet") ->
  sets_arrays sets M ->
  ggo true l accs (("_id", key) :: M) = Some y ->
  accumulate_group accs M l = Err EUnmodelled \/
  exists M', accumulate_group accs M l = Ok M' /\ y = VDoc (("_id", key) :: M') /\
             sets_arrays sets M' /\ map fst M' = map fst M ++ map fst accs.
Proof.
  induction accs as [|[f spec] accs IH]; intros M y Hnd Hid Hg Hsets HM Hy.
  - right. exists M. cbn [ggo] in Hy. inversion Hy. split; [reflexivity|]. split; [reflexivity|].
    split; [exact HM|]. cbn [map]. rewrite app_nil_r. reflexivity.
  - cbn [ggo] in Hy. destruct spec as [| | | | | | |ops|]; try discriminate.
    destruct ops as [|[op e] [|oe2 tl]]; try discriminate.
    destruct (spec_accumulate op e true l) as [v|] eqn:Hv; [|discriminate].
    assert (Hfid : (f =? "_id") = false).
    { apply String.eqb_neq. intros ->. apply Hid. left. reflexivity. }
    assert (HfM : ~ In f (map fst M)).
    { intros Hin. cbn [map fst] in Hnd. apply NoDup_remove_2 in Hnd. apply Hnd. apply in_or_app. left. exact Hin. }
    cbn [accumulate_group]. rewrite Hfid. rewrite (assoc_notin f M HfM). cbn [accumulate_field].
    destruct (Hg f op e (or_introl eq_refl)) as (G1 & G2 & G3).
    destruct (accumulate_op_agree op e l v G1 G2 G3 Hv) as [Hm|Hm]; rewrite Hm; [left; reflexivity|].
    cbn [bind]. rewrite (set_key_absent f v M HfM).
    destruct (IH (M ++ [(f, v)]) y) as [IH1|(M' & IH1 & IH2 & IH3 & IH4)].
    + rewrite map_app. cbn [map fst]. rewrite <- app_assoc. exact Hnd.
    + intros Hin. apply Hid. right. exact Hin.
    + intros f' op' e' Hin. apply (Hg f' op' e'). right. exact Hin.
    + intros f' op' e' Hin. apply (Hsets f' op' e'). right. exact Hin.
    + intros kv Hin Hmem. apply in_app_or in Hin. destruct Hin as [Hin|[<-|[]]]; [exact (HM kv Hin Hmem)|].
      cbn [fst snd] in *. pose proof (Hsets f op e (or_introl eq_refl) Hmem) as ->.
      exact (spec_accumulate_addtoset _ _ _ _ Hv).
    + exact Hy.
    + left. exact IH1.
    + right. exists M'. split; [exact IH1|]. split; [exact IH2|]. split; [exact IH3|].
      rewrite IH4, map_app. cbn [map fst]. rewrite <- app_assoc. reflexivity.
Qed.

(* ------------------------------------------------------------ the classes under a constant key *)
Lemma classes_null l : forall g,
  classes (combine (map (fun _ : value => VNull) l) l) [(VNull, g)] = [(VNull, g ++ l)].
Proof.
  induction l as [|d l IH]; intros g; [rewrite app_nil_r; reflexivity|].
  cbn. rewrite !bson_eq_refl. cbn [orb]. rewrite IH. rewrite <- app_assoc. reflexivity.
Qed.

Lemma classes_null_start l :
  classes (combine (map (fun _ : value => VNull) l) l) [] = match l with [] => [] | _ => [(VNull, l)] end.
Proof.
  destruct l as [|d l]; [reflexivity|]. cbn. apply classes_null.
Qed.

(* ------------------------------------------------------------ the fields compared as sets *)
Lemma addtoset_shape (spec : value) (k f : string) :
  In f (match spec with VDoc [("$addToSet", _)] => [k] | _ => [] end) ->
  f = k /\ exists e, spec = VDoc [("$addToSet", e)].
Proof.
  destruct spec as [| | | | | | |ops|]; try (intros []).
  destruct ops as [|[op e] tl]; try (intros []).
  do 9 (destruct op as [|[[] [] [] [] [] [] [] []] op]; try (intros [])).
  destruct op; [|intros []]. destruct tl; [|intros []].
  intros [<-|[]]. split; [reflexivity|]. exists e. reflexivity.
Qed.

Lemma sets_of_mem accs f op e :
  NoDup (map fst accs) -> In (f, VDoc [(op, e)]) accs -> mem_str f (sets_of accs) = true -> op = "$addToSet".
Proof.
  intros Hnd Hin Hmem. apply mem_str_in in Hmem. unfold sets_of in Hmem. apply in_flat_map in Hmem.
  destruct Hmem as ([k spec] & Hin2 & Hf). cbn [fst snd] in Hf.
  apply addtoset_shape in Hf. destruct Hf as [-> [e' ->]].
  pose proof (assoc_nodup_in accs k _ Hnd Hin) as H1. pose proof (assoc_nodup_in accs k _ Hnd Hin2) as H2.
  rewrite H1 in H2. inversion H2. reflexivity.
Qed.

Lemma sets_of_names accs f : mem_str f (sets_of accs) = true -> In f (map fst accs).
Proof.
  intros Hmem. apply mem_str_in in Hmem. unfold sets_of in Hmem. apply in_flat_map in Hmem.
  destruct Hmem as ([k spec] & Hin2 & Hf). cbn [fst snd] in Hf. apply addtoset_shape in Hf.
  destruct Hf as [-> _]. apply in_map_iff. exists (k, spec). split; [reflexivity|exact Hin2].
Qed.

(* ------------------------------------------------------------ the stage *)
Definition group_rel (s : stream) (l : list value) : Prop :=
  s_ord s = true /\ Forall2 tperm (s_docs s) l /\
  Forall (fun d => forall fs, d = VDoc fs -> sets_arrays (s_sets s) fs) (s_docs s).

Lemma accumulate_group_skip_id fs : forall acc g,
  accumulate_group fs acc g = accumulate_group (List.filter not_id fs) acc g.
Proof.
  induction fs as [|[f spec] fs IH]; intros acc g; [reflexivity|].
  cbn [accumulate_group List.filter]. unfold not_id at 1. cbn [fst].
  destruct (f =? "_id") eqn:E; cbn [negb]; [apply IH|].
  cbn [accumulate_group]. rewrite E. destruct spec; try reflexivity.
  destruct (accumulate_field (assoc f acc) fs0 g) as [r|er]; cbn [bind]; [apply IH|reflexivity].
Qed.

Lemma spec_stage_group db o s : spec_stage db "$group" o s = spec_group o s.
Proof. destruct o; reflexivity. Qed.

Lemma seval_null d : seval [] d VNull = SV VNull.
Proof. reflexivity. Qed.

Lemma stage_reasons_group db fs ide l :
  assoc "_id" fs = Some ide ->
  stage_reasons db "$group" (VDoc fs) l =
  let accs := del_key "_id" fs in
  Z.lor (zb (expr_finding ide l) 2)
 (Z.lor (zb (negb (is_null ide) &&
             (1 <?? Z.of_nat (List.length (List.filter (fun d => match key_of_model ide d with
                                                                 | Some k => has_oid k | None => false end) l)))) 2048)
 (Z.lor (zb (existsb (fun d => match key_of_model ide d with
                               | Some k => negb (plain k) | None => false end) l) 4)
 (Z.lor (zb (existsb (fun kv => match snd kv with
                                | VDoc ops => existsb (fun oe => expr_finding (snd oe) l) ops
                                | _ => false end) accs) 2)
 (Z.lor (zb (existsb (fun kv => match snd kv with
                                | VDoc ops =>
                                    existsb (fun oe => (fst oe =? "$addToSet")
                                                       && existsb (fun d => match eval [] d true (snd oe) with
                                                                            | EV v => negb (plain v)
                                                                            | _ => false end) l) ops
                                | _ => false end) accs) 4)
        (zb (existsb (fun kv => match snd kv with
                                | VDoc ops =>
                                    existsb (fun oe => ((fst oe =? "$first") || (fst oe =? "$last"))
                                                       && existsb (fun d => match eval [] d true (snd oe) with
                                                                            | EMiss => true
                                                                            | _ => false end) l) ops
                                | _ => false end) accs) 8))))).
Proof. intros H. unfold stage_reasons. cbn [String.eqb Ascii.eqb Bool.eqb orb]. rewrite H. reflexivity. Qed.

Lemma stage_group_null db o l :
  group_null_covered o = true ->
  stage_reasons db "$group" o l = 0 ->
  rel_str group_rel (spec_stage db "$group" o (mkStream l true [])) (run_stage db "$group" o l).
Proof.
  intros Hc Hg. rewrite run_stage_group, spec_stage_group.
  destruct o as [| | | | | | |fs|]; try exact I.
  unfold group_null_covered in Hc. apply andb_true_iff in Hc. destruct Hc as [Hid Hn].
  destruct (assoc "_id" fs) as [ide|] eqn:Ha; [|unfold spec_group, group_stage; rewrite Ha; exact I].
  destruct ide; try discriminate. clear Hid.
  rewrite (stage_reasons_group db fs VNull l Ha) in Hg. cbv zeta in Hg.
  apply lor_zero in Hg. destruct Hg as [_ Hg]. apply lor_zero in Hg. destruct Hg as [_ Hg].
  apply lor_zero in Hg. destruct Hg as [_ Hg].
  apply lor_zero in Hg. destruct Hg as [G2 Hg]. apply lor_zero in Hg. destruct Hg as [G4 G8].
  apply zb_zero in G2; [|discriminate]. apply zb_zero in G4; [|discriminate]. apply zb_zero in G8; [|discriminate].
  rewrite (spec_group_unfold fs VNull _ Ha). cbn [no_sets s_sets s_docs s_ord negb]. cbv zeta.
  set (accs := del_key "_id" fs) in *.
  destruct (existsb (fun kv => negb (plain_name (fst kv))) accs); [exact I|].
  change (fun d : value => key_of (seval [] d VNull)) with (fun _ : value => Some VNull).
  rewrite (all_opt_pure (fun _ : value => VNull) l). rewrite classes_null_start.
  rewrite (group_stage_unfold fs VNull l Ha). unfold groups_of. cbn [is_null negb bind].
  destruct l as [|d0 l0]; [cbn; repeat split; constructor|].
  set (l := d0 :: l0) in *. cbn [map all_opt mapM fst snd].
  destruct (ggo true l accs [("_id", VNull)]) as [y|] eqn:Hy; [|exact I].
  unfold group_out. cbn [fst snd]. rewrite accumulate_group_skip_id.
  assert (Haccs : accs = List.filter not_id fs).
  { unfold accs. rewrite (del_key_filter "_id" fs Hn). reflexivity. }
  rewrite <- Haccs.
  assert (Hnd : NoDup (map fst accs)).
  { rewrite Haccs. apply nodup_NoDup. apply nodup_filter_keys. exact Hn. }
  assert (Hnoid : ~ In "_id" (map fst accs)).
  { rewrite Haccs. intros Hin. apply in_map_iff in Hin. destruct Hin as ([k v] & Hk & Hin).
    apply filter_In in Hin. destruct Hin as [_ Hp]. unfold not_id in Hp. cbn [fst] in *. subst k. discriminate. }
  destruct (group_fields_agree l (sets_of accs) accs VNull [] y) as [Hm|(M' & Hm & -> & Hsa & Hkeys)].
  - exact Hnd.
  - exact Hnoid.
  - intros f op e Hin. unfold acc_guard. split; [|split].
    + pose proof (existsb_false_in _ _ G2 _ Hin) as H1. cbn [snd existsb] in H1. rewrite orb_false_r in H1.
      exact (expr_finding_false e l H1).
    + intros -> d x Hd Hev. pose proof (existsb_false_in _ _ G4 _ Hin) as H1. cbn [snd fst existsb] in H1.
      rewrite orb_false_r in H1. cbn [String.eqb Ascii.eqb Bool.eqb andb] in H1.
      pose proof (existsb_false_in _ _ H1 d Hd) as H2. cbv beta in H2. rewrite Hev in H2.
      apply negb_false_iff in H2. exact H2.
    + intros Hfl d Hd Hev. pose proof (existsb_false_in _ _ G8 _ Hin) as H1. cbn [snd fst existsb] in H1.
      rewrite orb_false_r in H1.
      assert (Ht : (op =? "$first") || (op =? "$last") = true).
      { destruct Hfl as [-> | ->]; reflexivity. }
      rewrite Ht in H1. cbn [andb] in H1.
      pose proof (existsb_false_in _ _ H1 d Hd) as H2. cbv beta in H2. rewrite Hev in H2. discriminate.
  - intros f op e Hin Hmem. exact (sets_of_mem accs f op e Hnd Hin Hmem).
  - intros kv [].
  - exact Hy.
  - rewrite Hm. exact I.
  - rewrite Hm. cbn [bind]. unfold group_rel. cbn [s_ord s_docs s_sets List.length Z.of_nat].
    split; [reflexivity|]. split.
    + constructor; [|constructor]. eexists. eexists. split; [reflexivity|]. split; [reflexivity|].
      rewrite (set_key_absent "_id" VNull M').
      * apply Permutation_cons_append.
      * rewrite Hkeys. exact Hnoid.
    + constructor; [|constructor]. intros fs' Hq. inversion Hq; subst fs'.
      intros kv [<-|Hin] Hmem.
      * exfalso. apply Hnoid. apply sets_of_names. exact Hmem.
      * exact (Hsa kv Hin Hmem).
Qed.
