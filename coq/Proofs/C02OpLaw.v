(* C02 proofs, operator laws: op_law_sound - whenever the operator law decides a one-operator,
   one-field update, the model's apply_update obeys it (inside the guards below). *)
From Coq Require Import ZArith List String Bool Ascii Lia.
From Verif Require Import Value PyEq BsonOrder Path Filter FilterSpec FilterGuard Update Project Coll
                          HistCheck HistProps ProjectSpec Cursor UpdateLaws.
From Verif.Proofs Require Import C01Values C12Base C02Base C02Walk C02OpLawA C02OpLawB C02OpLawC
                                 C02OpLawD.
Import ListNotations.
Open Scope Z_scope.
Open Scope string_scope.
Open Scope list_scope.

(* Hypotheses (each one is necessary: see Refuted/C02OpLaw.v):
   - patch arg = arg            the update handed to apply_update is already patched
   - wf_value d                 duplicate-free keys (needed by $unset)
   - minmax_cross_field         $min/$max against a value of another BSON type class
   - addtoset_risk              $addToSet: Python == vs BSON equality between the operand and
                                the old array (bool~number, key order of sub-documents in the
                                operand, aware datetimes)
   - aware_risk                 $pull/$pullAll: an aware datetime in the old array *)
Theorem op_law_sound : forall spec op p arg now d d' b,
  patch arg = arg ->
  wf_value d = true ->
  ((op =? "$min") || (op =? "$max")) && minmax_cross_field p arg d = false ->
  (op =? "$addToSet") && addtoset_risk p arg d = false ->
  ((op =? "$pull") || (op =? "$pullAll")) && aware_risk p d = false ->
  apply_update spec (VDoc [(op, VDoc [(p, arg)])]) false now d = Ok d' ->
  op_law op p arg now d d' = Some b -> b = true.
Proof.
  intros spec op p arg now d d' b Hpatch Hwf Hmm Hats Hpull Hupd Hlaw.
  pose proof (law_names _ _ _ _ _ _ _ Hlaw) as Hin. simpl in Hin.
  destruct Hin as [<-|[<-|[<-|[<-|[<-|[<-|[<-|[<-|[<-|[<-|[<-|[]]]]]]]]]]]].
  - eapply op_law_set; eassumption.
  - eapply op_law_unset; eassumption.
  - eapply op_law_inc; eassumption.
  - change (minmax_cross_field p arg d = false) in Hmm. eapply op_law_min; eassumption.
  - change (minmax_cross_field p arg d = false) in Hmm. eapply op_law_max; eassumption.
  - eapply op_law_pop; eassumption.
  - eapply op_law_push; eassumption.
  - change (addtoset_risk p arg d = false) in Hats. eapply op_law_addToSet; eassumption.
  - change (aware_risk p d = false) in Hpull. eapply op_law_pullAll; eassumption.
  - change (aware_risk p d = false) in Hpull. eapply op_law_pull; eassumption.
  - eapply op_law_currentDate; eassumption.
Qed.

(* on stored documents (always patched in the real system) the awareness guards are void; the
   $addToSet guard reduces to bools/numbers/sub-documents *)
Corollary op_law_sound_patched : forall spec op p arg now d d' b,
  patch arg = arg ->
  patch d = d ->
  wf_value d = true ->
  ((op =? "$min") || (op =? "$max")) && minmax_cross_field p arg d = false ->
  (op =? "$addToSet") && addtoset_eq_risk p arg d = false ->
  apply_update spec (VDoc [(op, VDoc [(p, arg)])]) false now d = Ok d' ->
  op_law op p arg now d d' = Some b -> b = true.
Proof.
  intros spec op p arg now d d' b Hpatch Hd Hwf Hmm Hats Hupd Hlaw.
  apply (op_law_sound spec op p arg now d d' b Hpatch Hwf Hmm); [| |exact Hupd|exact Hlaw].
  - rewrite (addtoset_risk_patched _ _ _ Hd Hpatch). exact Hats.
  - rewrite (aware_risk_patched _ _ Hd). apply andb_false_r.
Qed.

(* the hypotheses are satisfiable on non-trivial instances, and the law decides them *)
Definition op_law_hyps (op p : string) (arg d : value) : Prop :=
  patch arg = arg /\ patch d = d /\ wf_value d = true /\
  ((op =? "$min") || (op =? "$max")) && minmax_cross_field p arg d = false /\
  (op =? "$addToSet") && addtoset_risk p arg d = false /\
  (op =? "$addToSet") && addtoset_eq_risk p arg d = false /\
  ((op =? "$pull") || (op =? "$pullAll")) && aware_risk p d = false.

Example op_law_sound_example_push :
  let arg := VDoc [("$each", VArr [VInt 9; VInt 8]); ("$position", VInt (-1)); ("$slice", VInt (-3))] in
  let d := VDoc [("_id", VInt 1); ("a", VDoc [("b", VArr [VInt 1; VInt 2; VInt 3])])] in
  let d' := VDoc [("_id", VInt 1); ("a", VDoc [("b", VArr [VInt 9; VInt 8; VInt 3])])] in
  op_law_hyps "$push" "a.b" arg d /\
  apply_update (VDoc [("_id", VInt 1)]) (VDoc [("$push", VDoc [("a.b", arg)])]) false 0 d = Ok d' /\
  op_law "$push" "a.b" arg 0 d d' = Some true.
Proof. vm_compute. repeat split; reflexivity. Qed.

Example op_law_sound_example_addToSet :
  let arg := VDbl 16 in
  let d := VDoc [("_id", VInt 1); ("a", VDoc [("b", VArr [VInt 1; VInt 2; VStr "x"])])] in
  op_law_hyps "$addToSet" "a.b" arg d /\
  apply_update (VDoc []) (VDoc [("$addToSet", VDoc [("a.b", arg)])]) false 0 d = Ok d /\
  op_law "$addToSet" "a.b" arg 0 d d = Some true.
Proof. vm_compute. repeat split; reflexivity. Qed.

Example op_law_sound_example_pull_max :
  let d := VDoc [("_id", VInt 1); ("a", VArr [VInt 1; VDbl 8; VStr "x"; VDate 5000 None]); ("m", VDbl 20)] in
  let d1 := VDoc [("_id", VInt 1); ("a", VArr [VStr "x"; VDate 5000 None]); ("m", VDbl 20)] in
  let d2 := VDoc [("_id", VInt 1); ("a", VArr [VInt 1; VDbl 8; VStr "x"; VDate 5000 None]); ("m", VInt 3)] in
  op_law_hyps "$pull" "a" (VInt 1) d /\
  apply_update (VDoc []) (VDoc [("$pull", VDoc [("a", VInt 1)])]) false 0 d = Ok d1 /\
  op_law "$pull" "a" (VInt 1) 0 d d1 = Some true /\
  op_law_hyps "$max" "m" (VInt 3) d /\
  apply_update (VDoc []) (VDoc [("$max", VDoc [("m", VInt 3)])]) false 0 d = Ok d2 /\
  op_law "$max" "m" (VInt 3) 0 d d2 = Some true.
Proof. vm_compute. repeat split; reflexivity. Qed.

Print Assumptions op_law_sound.
Print Assumptions op_law_sound_patched.
