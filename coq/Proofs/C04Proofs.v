(* C04 proofs, part 8: the induction over expressions and the two observations. *)
From Coq Require Import ZArith List String Bool Ascii Lia.
From Verif Require Import Value PyEq BsonOrder Path Update Filter FilterSpec Cursor Expr ExprSpec ExprGuard.
From Verif Require Import C01Values C04Base C04Paths C04Order C04Slice C04Ops C04Lists C04Binders C04Switch C04Sets.
Import ListNotations.
Open Scope Z_scope.
Open Scope string_scope.
Open Scope list_scope.

Lemma case_literal doc arg : P doc (VDoc [("$literal", arg)]).
Proof. intros vars _. simpl. done_R. Qed.

Lemma case_operator doc k arg : starts_dollar k = true -> IHarg doc arg -> P doc (VDoc [(k, arg)]).
Proof.
  intros Hd IHa.
  destruct (existsb (String.eqb k) spec_ops) eqn:Ek.
  - apply existsb_exists in Ek. destruct Ek as [k' [Hin Hk]]. apply String.eqb_eq in Hk. subst k'.
    unfold spec_ops in Hin. simpl in Hin.
    (* the operators in the order of [spec_ops]; every [apply] is the one that succeeds (a failing
       [apply] of a lemma about another operator unfolds [P] and evaluates both sides) *)
    destruct Hin as [<-|Hin]; [apply case_literal|].   (* $literal *)
    destruct Hin as [<-|Hin]; [apply case_abs; exact IHa|].   (* $abs *)
    destruct Hin as [<-|Hin]; [apply case_round; [simpl; tauto|exact IHa]|].   (* $ceil *)
    destruct Hin as [<-|Hin]; [apply case_round; [simpl; tauto|exact IHa]|].   (* $floor *)
    destruct Hin as [<-|Hin]; [apply case_round; [simpl; tauto|exact IHa]|].   (* $trunc *)
    destruct Hin as [<-|Hin]; [apply case_divmod; [simpl; tauto|exact IHa]|].   (* $divide *)
    destruct Hin as [<-|Hin]; [apply case_divmod; [simpl; tauto|exact IHa]|].   (* $mod *)
    destruct Hin as [<-|Hin]; [apply case_addmul; [simpl; tauto|exact IHa]|].   (* $add *)
    destruct Hin as [<-|Hin]; [apply case_addmul; [simpl; tauto|exact IHa]|].   (* $multiply *)
    destruct Hin as [<-|Hin]; [apply case_subtract; exact IHa|].   (* $subtract *)
    destruct Hin as [<-|Hin]; [apply case_cmp; [simpl; tauto|exact IHa]|].   (* $eq *)
    destruct Hin as [<-|Hin]; [apply case_cmp; [simpl; tauto|exact IHa]|].   (* $ne *)
    destruct Hin as [<-|Hin]; [apply case_cmp; [simpl; tauto|exact IHa]|].   (* $gt *)
    destruct Hin as [<-|Hin]; [apply case_cmp; [simpl; tauto|exact IHa]|].   (* $gte *)
    destruct Hin as [<-|Hin]; [apply case_cmp; [simpl; tauto|exact IHa]|].   (* $lt *)
    destruct Hin as [<-|Hin]; [apply case_cmp; [simpl; tauto|exact IHa]|].   (* $lte *)
    destruct Hin as [<-|Hin]; [apply case_and; exact IHa|].   (* $and *)
    destruct Hin as [<-|Hin]; [apply case_or; exact IHa|].   (* $or *)
    destruct Hin as [<-|Hin]; [apply case_not; exact IHa|].   (* $not *)
    destruct Hin as [<-|Hin]; [apply case_cond; exact IHa|].   (* $cond *)
    destruct Hin as [<-|Hin]; [apply case_ifnull; exact IHa|].   (* $ifNull *)
    destruct Hin as [<-|Hin]; [apply case_switch; exact IHa|].   (* $switch *)
    destruct Hin as [<-|Hin]; [apply case_let; exact IHa|].   (* $let *)
    destruct Hin as [<-|Hin]; [apply case_map; exact IHa|].   (* $map *)
    destruct Hin as [<-|Hin]; [apply case_filter; exact IHa|].   (* $filter *)
    destruct Hin as [<-|Hin]; [apply case_concat; exact IHa|].   (* $concat *)
    destruct Hin as [<-|Hin]; [apply case_case; [simpl; tauto|exact IHa]|].   (* $toLower *)
    destruct Hin as [<-|Hin]; [apply case_case; [simpl; tauto|exact IHa]|].   (* $toUpper *)
    destruct Hin as [<-|Hin]; [apply case_strcasecmp; exact IHa|].   (* $strcasecmp *)
    destruct Hin as [<-|Hin]; [apply case_substr; exact IHa|].   (* $substr *)
    destruct Hin as [<-|Hin]; [apply case_size; exact IHa|].   (* $size *)
    destruct Hin as [<-|Hin]; [apply case_arrayElemAt; exact IHa|].   (* $arrayElemAt *)
    destruct Hin as [<-|Hin]; [apply case_concatArrays; exact IHa|].   (* $concatArrays *)
    destruct Hin as [<-|Hin]; [apply case_slice; exact IHa|].   (* $slice *)
    destruct Hin as [<-|Hin]; [apply case_is; [simpl; tauto|exact IHa]|].   (* $isArray *)
    destruct Hin as [<-|Hin]; [apply case_is; [simpl; tauto|exact IHa]|].   (* $isNumber *)
    destruct Hin as [<-|Hin]; [apply case_in; exact IHa|].   (* $in *)
    destruct Hin as [<-|Hin]; [apply case_setEquals; exact IHa|].   (* $setEquals *)
    destruct Hin as [<-|Hin]; [apply case_fold; [simpl; tauto|exact IHa]|].   (* $sum *)
    destruct Hin as [<-|Hin]; [apply case_fold; [simpl; tauto|exact IHa]|].   (* $avg *)
    destruct Hin as [<-|Hin]; [apply case_fold; [simpl; tauto|exact IHa]|].   (* $min *)
    destruct Hin as [<-|Hin]; [apply case_fold; [simpl; tauto|exact IHa]|].   (* $max *)
    destruct Hin as [<-|Hin]; [apply case_firstlast; [simpl; tauto|exact IHa]|].   (* $first *)
    destruct Hin as [<-|Hin]; [apply case_firstlast; [simpl; tauto|exact IHa]|].   (* $last *)
    destruct Hin as [<-|Hin]; [apply case_datepart; [simpl; tauto|exact IHa]|].   (* $hour *)
    destruct Hin as [<-|Hin]; [apply case_datepart; [simpl; tauto|exact IHa]|].   (* $minute *)
    destruct Hin as [<-|Hin]; [apply case_datepart; [simpl; tauto|exact IHa]|].   (* $second *)
    destruct Hin as [<-|Hin]; [apply case_datepart; [simpl; tauto|exact IHa]|].   (* $millisecond *)
    destruct Hin as [<-|Hin]; [apply case_datepart; [simpl; tauto|exact IHa]|].   (* $dayOfWeek *)
    destruct Hin.
  - intros vars _. rewrite (seval_unknown _ _ _ _ Hd Ek). done_R.
Qed.

Lemma expr_P doc : forall n e, (vsize e < n)%nat -> P doc e.
Proof.
  induction n as [|n IHn]; intros e Hn; [lia|].
  assert (IHe : forall e', (vsize e' < vsize e)%nat -> P doc e') by (intros e' H; apply IHn; lia).
  destruct e as [|b|z|d|s|us tz|o|fs|xs]; try (intros vars _; simpl; done_R).
  - apply eval_str.
  - destruct fs as [|[k arg] [|kv2 fs]].
    + apply case_doc_multi; [discriminate|]. intros k x [].
    + assert (IHa : IHarg doc arg) by (intros e' H; apply IHe; simpl; lia).
      destruct (starts_dollar k) eqn:Hd.
      * apply case_operator; assumption.
      * apply case_doc_single; assumption.
    + apply case_doc_multi; [simpl; lia|].
      intros k' x Hin. apply IHe. eapply vsize_doc_in. exact Hin.
  - apply case_arr. intros x Hin. apply IHe. apply vsize_arr_in. exact Hin.
Qed.

Theorem expr_agree doc e vars :
  reasons vars doc e = 0 -> R (seval (lift vars) doc e) (eval vars doc true e).
Proof. apply (expr_P doc (S (vsize e)) e). lia. Qed.

(* ------------------------------------------------------------ the two observations *)
Theorem expression : forall e doc,
  c04_reasons e doc = 0 ->
  obs_add_field "x" e doc <> Err EUnmodelled ->
  match spec_add_field "x" e doc with
  | OVal v => exists v', obs_add_field "x" e doc = Ok v' /\ bson_eq v v' = true
  | OErr => exists er, obs_add_field "x" e doc = Err er
  | OUndef => True
  end.
Proof.
  intros e doc Hg Hu. unfold c04_reasons in Hg.
  pose proof (expr_agree doc e [] Hg) as H. rewrite lift_nil in H.
  unfold spec_add_field, obs_add_field in *.
  destruct doc as [| | | | | | |fs|]; try exact I.
  destruct H as [H|H].
  - rewrite H in Hu. contradiction.
  - destruct (seval [] (VDoc fs) e) as [v| | |].
    + rewrite H. eexists. split; [reflexivity|apply bson_eq_refl].
    + rewrite H. eexists. split; [reflexivity|apply bson_eq_refl].
    + destruct H as [er H]. rewrite H. exists er. reflexivity.
    + exact I.
Qed.

Theorem expr_filter : forall e doc,
  c04_reasons e doc = 0 ->
  obs_expr e doc <> Err EUnmodelled ->
  match spec_expr e doc with
  | OVal b => obs_expr e doc = Ok b
  | OErr => exists er, obs_expr e doc = Err er
  | OUndef => True
  end.
Proof.
  intros e doc Hg Hu. unfold c04_reasons in Hg.
  pose proof (expr_agree doc e [] Hg) as H. rewrite lift_nil in H.
  unfold spec_expr, obs_expr in *.
  destruct H as [H|H].
  - rewrite H in Hu. contradiction.
  - destruct (seval [] doc e) as [v| | |].
    + rewrite H. rewrite mongo_bool_spec. reflexivity.
    + rewrite H. reflexivity.
    + destruct H as [er H]. rewrite H. exists er. reflexivity.
    + exact I.
Qed.
