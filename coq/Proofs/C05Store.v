(* C05 proofs, part 2: the store primitives and the model-state invariant. *)
From Coq Require Import ZArith List String Bool Ascii Lia.
From Verif Require Import Value PyEq BsonOrder Path Filter Update Project Coll HistCheck HistProps.
From Verif Require Import C01Values C05Values.
Import ListNotations.
Open Scope Z_scope.
Open Scope string_scope.
Open Scope list_scope.

Definition store := list (value * value).

(* ---------------------------------------------------------------- no TTL index: expire = id *)
Definition no_ttl (is : list index) : bool :=
  forallb (fun i => match ittl i with None => true | Some _ => false end) is.

Lemma expire_fold_id is : forall c,
  no_ttl is = true ->
  fold_left (fun acc i => let! c' := acc in expire_index i c') is (Ok c) = Ok c.
Proof.
  induction is as [|i is IH]; intros c H; [reflexivity|].
  simpl in H. apply andb_true_iff in H. destruct H as [Hi His].
  simpl. unfold expire_index at 2. destruct (ittl i); [discriminate Hi|].
  apply IH. exact His.
Qed.

Lemma expire_id c : no_ttl (idx c) = true -> expire c = Ok c.
Proof. intros H. unfold expire. apply expire_fold_id. exact H. Qed.

Lemma expire_if_id b c : no_ttl (idx c) = true -> expire_if b c = Ok c.
Proof. intros H. destruct b; [apply expire_id; exact H|reflexivity]. Qed.

(* ---------------------------------------------------------------- modelled store keys *)
Lemma id_modelled_doc fs :
  id_modelled (VDoc fs) = forallb (fun kv => id_modelled (snd kv)) fs.
Proof.
  change (id_modelled (VDoc fs))
    with ((fix go (fs : list (string * value)) :=
             match fs with [] => true | (_, x) :: fs' => id_modelled x && go fs' end) fs).
  induction fs as [|[k v] fs IH]; [reflexivity|]. simpl. rewrite IH. reflexivity.
Qed.

(* BSON-equal values that patch leaves alone are both inside or both outside the store keys
   of the model (no array, no aware datetime, recursively through sub-documents) *)
Lemma bson_eq_id_modelled : forall a b,
  bson_eq a b = true -> patch b = b -> id_modelled a = true -> id_modelled b = true.
Proof.
  induction a as [|x|z|e|s|us tz|n|fs IH|xs IH] using value_ind2; intros b H Pb Ma;
    try (destruct b; try discriminate H; reflexivity).
  - destruct b as [| | | | |us' tz'| | |]; try discriminate H.
    destruct tz'; [discriminate Pb|reflexivity].
  - destruct b as [| | | | | | |gs|]; try discriminate H.
    rewrite bson_eq_doc in H. rewrite id_modelled_doc in *.
    apply patch_doc_fixed in Pb.
    revert gs H Pb Ma.
    induction IH as [|[k v] fs Hv _ IHfs]; intros [|[k' v'] gs] H Pb Ma;
      try discriminate H; [reflexivity|].
    simpl in H. apply andb_true_iff in H. destruct H as [H1 H2].
    unfold fld_eq in H1. simpl in H1. apply andb_true_iff in H1. destruct H1 as [_ Hvv].
    simpl in Ma. apply andb_true_iff in Ma. destruct Ma as [Mv Mf].
    inversion Pb as [|? ? Pv' Pgs]. subst. simpl in *.
    rewrite (Hv v' Hvv Pv' Mv), (IHfs gs H2 Pgs Mf). reflexivity.
  - discriminate Ma.
Qed.

(* ---------------------------------------------------------------- sublists *)
Inductive sub {A} : list A -> list A -> Prop :=
| sub_nil : sub [] []
| sub_skip x l l' : sub l l' -> sub l (x :: l')
| sub_keep x l l' : sub l l' -> sub (x :: l) (x :: l').

Lemma sub_refl {A} (l : list A) : sub l l.
Proof. induction l; constructor; assumption. Qed.

Lemma sub_In {A} (l l' : list A) : sub l l' -> forall x, In x l -> In x l'.
Proof.
  induction 1 as [|y l l' _ IH|y l l' _ IH]; intros x Hx.
  - exact Hx.
  - right. apply IH. exact Hx.
  - destruct Hx as [->|Hx]; [left; reflexivity|right; apply IH; exact Hx].
Qed.

Lemma sub_trans {A} (l2 l3 : list A) : sub l2 l3 -> forall l1, sub l1 l2 -> sub l1 l3.
Proof.
  induction 1 as [|y l l' _ IH|y l l' _ IH]; intros l1 H1.
  - exact H1.
  - apply sub_skip. apply IH. exact H1.
  - inversion H1; subst.
    + apply sub_skip. apply IH. assumption.
    + apply sub_keep. apply IH. assumption.
Qed.

Lemma store_del_sub k l : sub (store_del k l) l.
Proof.
  induction l as [|[k' d'] l IH]; simpl; [constructor|].
  destruct (py_eq k' k); [apply sub_skip; apply sub_refl|apply sub_keep; exact IH].
Qed.

(* ---------------------------------------------------------------- keys pairwise not == *)
Fixpoint knd (l : store) : Prop :=
  match l with
  | [] => True
  | kd :: l' => (forall kd', In kd' l' -> py_eq (fst kd) (fst kd') = false) /\ knd l'
  end.

Lemma knd_sub l l' : sub l l' -> knd l' -> knd l.
Proof.
  induction 1 as [|y l l' Hs IH|y l l' Hs IH]; intros H.
  - exact I.
  - apply IH. exact (proj2 H).
  - destruct H as [H1 H2]. split; [|apply IH; exact H2].
    intros kd' Hin. apply H1. eapply sub_In; eassumption.
Qed.

Lemma store_get_none k l :
  store_get k l = None -> forall kd, In kd l -> py_eq (fst kd) k = false.
Proof.
  induction l as [|[k' d'] l IH]; simpl; intros H kd Hin; [destruct Hin|].
  destruct (py_eq k' k) eqn:E; [discriminate H|].
  destruct Hin as [<-|Hin]; [exact E|apply IH; assumption].
Qed.

Lemma knd_app_one l id data :
  knd l -> (forall kd, In kd l -> py_eq (fst kd) id = false) -> knd (l ++ [(id, data)]).
Proof.
  induction l as [|kd l IH]; simpl; intros H Hn.
  - split; [intros ? []|exact I].
  - destruct H as [H1 H2]. split.
    + intros kd' Hin. apply in_app_or in Hin. destruct Hin as [Hin|[<-|[]]].
      * apply H1. exact Hin.
      * simpl. apply Hn. left. reflexivity.
    + apply IH; [exact H2|]. intros kd' Hin. apply Hn. right. exact Hin.
Qed.

(* entries of store_set: an old entry, the new document under an old key == to k, or the
   appended (k, d) *)
Lemma store_set_in k d l kd :
  In kd (store_set k d l) ->
  In kd l \/
  (snd kd = d /\ ((exists d0, In (fst kd, d0) l /\ py_eq (fst kd) k = true) \/ fst kd = k)).
Proof.
  induction l as [|[k' d'] l IH]; simpl.
  - intros [<-|[]]. right. split; [reflexivity|right; reflexivity].
  - destruct (py_eq k' k) eqn:E; simpl.
    + intros [<-|Hin].
      * right. split; [reflexivity|]. left. exists d'. split; [left; reflexivity|exact E].
      * left. right. exact Hin.
    + intros [<-|Hin]; [left; left; reflexivity|].
      destruct (IH Hin) as [H|[H1 [[d0 [H2 H3]]|H2]]].
      * left. right. exact H.
      * right. split; [exact H1|]. left. exists d0. split; [right; exact H2|exact H3].
      * right. split; [exact H1|right; exact H2].
Qed.

Lemma knd_store_set k d l : knd l -> knd (store_set k d l).
Proof.
  induction l as [|[k' d'] l IH]; simpl; intros H.
  - split; [intros ? []|exact I].
  - destruct H as [H1 H2]. destruct (py_eq k' k) eqn:E.
    + split; assumption.
    + split; [|apply IH; exact H2].
      intros kd Hin. simpl.
      destruct (store_set_in _ _ _ _ Hin) as [Hold|[_ [[d0 [Hold _]]|Hk]]].
      * exact (H1 _ Hold).
      * exact (H1 _ Hold).
      * rewrite Hk. exact E.
Qed.

(* when some key is == to k the key list does not change *)
Lemma store_set_keys k d l :
  (exists kd, In kd l /\ py_eq (fst kd) k = true) ->
  map fst (store_set k d l) = map fst l.
Proof.
  induction l as [|[k' d'] l IH]; simpl; intros [kd [Hin Hk]]; [destruct Hin|].
  destruct (py_eq k' k) eqn:E; [reflexivity|].
  simpl. f_equal. apply IH. destruct Hin as [<-|Hin].
  - simpl in Hk. rewrite Hk in E. discriminate E.
  - exists kd. split; assumption.
Qed.

Lemma store_del_app_none k l x :
  store_get k l = None -> store_del k (l ++ [x]) = l ++ store_del k [x].
Proof.
  induction l as [|[k' d'] l IH]; simpl; intros H; [reflexivity|].
  destruct (py_eq k' k); [discriminate H|]. f_equal. apply IH. exact H.
Qed.

(* ---------------------------------------------------------------- the id relation *)
(* the _id i of a document stored under key k: it started as patch k0 for a key k0 that k is
   == to, and was rewritten only by ==-equal values *)
Definition idrel (k i : value) : Prop :=
  exists k0, (k0 = k \/ py_eq k k0 = true) /\ (i = patch k0 \/ py_eq (patch k0) i = true).

Definition entry_ok (kd : value * value) : Prop :=
  is_arr (fst kd) = false /\ exists i, doc_id (snd kd) = Some i /\ idrel (fst kd) i.

Definition same_id_ok (d d' : value) : Prop :=
  exists a b, doc_id d = Some a /\ doc_id d' = Some b /\ (b = a \/ py_eq a b = true).

Lemma same_id_refl kd : entry_ok kd -> same_id_ok (snd kd) (snd kd).
Proof. intros [_ [i [Hi _]]]. exists i, i. repeat split; auto. Qed.

Lemma idrel_step k i b : idrel k i -> (b = i \/ py_eq i b = true) -> idrel k b.
Proof.
  intros [k0 [Hk Hi]] Hb. exists k0. split; [exact Hk|].
  destruct Hb as [->|Hb]; [exact Hi|].
  destruct Hi as [->|Hi]; [right; exact Hb|].
  right. eapply py_eq_trans; eassumption.
Qed.

Lemma idrel_key k k1 i : idrel k i -> py_eq k1 k = true -> idrel k1 i.
Proof.
  intros [k0 [Hk Hi]] H1. exists k0. split; [|exact Hi].
  right. destruct Hk as [->|Hk]; [exact H1|]. eapply py_eq_trans; eassumption.
Qed.

Lemma py_eq_not_arr a b : py_eq a b = true -> is_arr b = false -> is_arr a = false.
Proof.
  intros H Hb. destruct a; try reflexivity. rewrite py_eq_arr_l in H; [discriminate H|exact Hb].
Qed.

Definition all_ok (l : store) : Prop := forall kd, In kd l -> entry_ok kd.

Lemma all_ok_sub l l' : sub l l' -> all_ok l' -> all_ok l.
Proof. intros Hs H kd Hin. apply H. eapply sub_In; eassumption. Qed.

Lemma all_ok_store_set k d d' l :
  all_ok l -> entry_ok (k, d) -> same_id_ok d d' -> all_ok (store_set k d' l).
Proof.
  intros Hl [Harr [i [Hi Hrel]]] [a [b [Ha [Hb Hab]]]] kd Hin.
  simpl in *. rewrite Hi in Ha. injection Ha as <-.
  destruct (store_set_in _ _ _ _ Hin) as [Hold|[Hd [[d0 [Hold Hk]]|Hk]]].
  - apply Hl. exact Hold.
  - split.
    + eapply py_eq_not_arr; eassumption.
    + exists b. rewrite Hd. split; [exact Hb|].
      eapply idrel_key; [|exact Hk]. eapply idrel_step; eassumption.
  - split.
    + rewrite Hk. exact Harr.
    + exists b. rewrite Hd, Hk. split; [exact Hb|]. eapply idrel_step; eassumption.
Qed.

(* ---------------------------------------------------------------- the effect of the update loop *)
Inductive sets (T : store) : store -> store -> Prop :=
| sets_refl l : sets T l l
| sets_step l k d d' l' :
    In (k, d) T -> same_id_ok d d' -> sets T (store_set k d' l) l' -> sets T l l'.

Lemma sets_mono (T T' : store) l l' :
  (forall kd, In kd T -> In kd T') -> sets T l l' -> sets T' l l'.
Proof.
  intros HT. induction 1 as [l|l k d d' l' Hin Hs _ IH]; [constructor|].
  eapply sets_step; [apply HT; exact Hin|exact Hs|exact IH].
Qed.

Lemma sets_trans T l1 l2 l3 : sets T l1 l2 -> sets T l2 l3 -> sets T l1 l3.
Proof.
  induction 1 as [l|l k d d' l' Hin Hs _ IH]; intros H; [exact H|].
  eapply sets_step; [exact Hin|exact Hs|apply IH; exact H].
Qed.

Lemma sets_knd T l l' : sets T l l' -> knd l -> knd l'.
Proof.
  induction 1 as [l|l k d d' l' Hin Hs _ IH]; intros H; [exact H|].
  apply IH. apply knd_store_set. exact H.
Qed.

Lemma sets_all_ok T l l' : sets T l l' -> all_ok T -> all_ok l -> all_ok l'.
Proof.
  induction 1 as [l|l k d d' l' Hin Hs _ IH]; intros HT H; [exact H|].
  apply IH; [exact HT|]. eapply all_ok_store_set; [exact H|apply HT; exact Hin|exact Hs].
Qed.

Lemma sets_keys T l l' :
  sets T l l' ->
  (forall kd, In kd T -> exists kd', In kd' l /\ py_eq (fst kd') (fst kd) = true) ->
  map fst l' = map fst l.
Proof.
  induction 1 as [l|l k d d' l' Hin Hs _ IH]; intros HT; [reflexivity|].
  assert (E : map fst (store_set k d' l) = map fst l).
  { apply store_set_keys. exact (HT _ Hin). }
  rewrite <- E. apply IH. intros kd Hkd.
  destruct (HT _ Hkd) as [kd' [Hin' Hk]].
  (* kd' is in l: its key is in the key list of store_set too *)
  assert (Hm : In (fst kd') (map fst (store_set k d' l))).
  { rewrite E. apply in_map. exact Hin'. }
  apply in_map_iff in Hm. destruct Hm as [kd2 [E2 Hin2]].
  exists kd2. split; [exact Hin2|]. rewrite E2. exact Hk.
Qed.

(* ---------------------------------------------------------------- the effect of an insert *)
Definition ins (l l' : store) : Prop :=
  l' = l \/
  exists id data, store_get id l = None /\ id_modelled id = true /\ patch id = id /\
                  doc_id data = Some (patch id) /\ l' = l ++ [(id, data)].

Lemma id_modelled_not_arr v : id_modelled v = true -> is_arr v = false.
Proof. destruct v; try reflexivity. discriminate. Qed.

Lemma ins_knd l l' : ins l l' -> knd l -> knd l'.
Proof.
  intros [->|[id [data [Hg [_ [_ [_ ->]]]]]]] H; [exact H|].
  apply knd_app_one; [exact H|]. apply store_get_none. exact Hg.
Qed.

Lemma ins_all_ok l l' : ins l l' -> all_ok l -> all_ok l'.
Proof.
  intros [->|[id [data [Hg [Hm [_ [Hd ->]]]]]]] H; [exact H|].
  intros kd Hin. apply in_app_or in Hin. destruct Hin as [Hin|[<-|[]]]; [apply H; exact Hin|].
  split; [apply id_modelled_not_arr; exact Hm|].
  exists (patch id). split; [exact Hd|]. exists id. split; left; reflexivity.
Qed.

Lemma ins_keys l l' :
  ins l l' -> exists tl, map fst l' = map fst l ++ tl /\ (List.length tl <= 1)%nat.
Proof.
  intros [->|[id [data [_ [_ [_ [_ ->]]]]]]].
  - exists []. rewrite app_nil_r. split; [reflexivity|simpl; lia].
  - exists [id]. rewrite map_app. split; [reflexivity|simpl; lia].
Qed.

(* update = loop over a snapshot of the store, then possibly one insert *)
Definition upd (l l' : store) : Prop := exists l1, sets l l l1 /\ ins l1 l'.

Lemma upd_refl l : upd l l.
Proof. exists l. split; [constructor|left; reflexivity]. Qed.

(* ---------------------------------------------------------------- the keys are normalised *)
(* every store key is a value patch leaves alone, inside the model's store keys *)
Definition key_norm (k : value) : Prop := patch k = k /\ id_modelled k = true.
Definition keys_ok (l : store) : Prop := forall kd, In kd l -> key_norm (fst kd).

Lemma keys_ok_sub l l' : sub l l' -> keys_ok l' -> keys_ok l.
Proof. intros Hs H kd Hin. apply H. eapply sub_In; eassumption. Qed.

Lemma keys_ok_ins l l' : ins l l' -> keys_ok l -> keys_ok l'.
Proof.
  intros [->|[id [data [_ [Hm [Hp [_ ->]]]]]]] H; [exact H|].
  intros kd Hin. apply in_app_or in Hin. destruct Hin as [Hin|[<-|[]]]; [apply H; exact Hin|].
  split; assumption.
Qed.

Lemma keys_ok_store_set k d l : keys_ok l -> key_norm k -> keys_ok (store_set k d l).
Proof.
  intros Hl Hk kd Hin.
  destruct (store_set_in _ _ _ _ Hin) as [Hold|[_ [[d0 [Hold _]]|Hkk]]].
  - apply Hl. exact Hold.
  - exact (Hl _ Hold).
  - rewrite Hkk. exact Hk.
Qed.

Lemma sets_keys_ok T l l' : sets T l l' -> keys_ok T -> keys_ok l -> keys_ok l'.
Proof.
  induction 1 as [l|l k d d' l' Hin Hs _ IH]; intros HT H; [exact H|].
  apply IH; [exact HT|]. apply keys_ok_store_set; [exact H|exact (HT _ Hin)].
Qed.

(* ---------------------------------------------------------------- the state invariant *)
Definition InvD (l : store) : Prop := knd l /\ all_ok l /\ keys_ok l.
Definition Inv (c : coll) : Prop := InvD (docs c) /\ no_ttl (idx c) = true.

Lemma InvD_nil : InvD [].
Proof. split; [exact I|split; intros ? []]. Qed.

Lemma Inv_empty : Inv empty_coll.
Proof. split; [exact InvD_nil|reflexivity]. Qed.

Lemma InvD_sub l l' : sub l l' -> InvD l' -> InvD l.
Proof.
  intros Hs [H1 [H2 H3]].
  split; [eapply knd_sub|split; [eapply all_ok_sub|eapply keys_ok_sub]]; eassumption.
Qed.

Lemma InvD_ins l l' : ins l l' -> InvD l -> InvD l'.
Proof.
  intros Hi [H1 [H2 H3]].
  split; [eapply ins_knd|split; [eapply ins_all_ok|eapply keys_ok_ins]]; eassumption.
Qed.

Lemma InvD_sets T l l' : sets T l l' -> all_ok T -> keys_ok T -> InvD l -> InvD l'.
Proof.
  intros Hs HT HK [H1 [H2 H3]].
  split; [eapply sets_knd|split; [eapply sets_all_ok|eapply sets_keys_ok]]; eassumption.
Qed.

Lemma InvD_upd l l' : upd l l' -> InvD l -> InvD l'.
Proof.
  intros [l1 [Hs Hi]] H. eapply InvD_ins; [exact Hi|].
  eapply InvD_sets; [exact Hs|exact (proj1 (proj2 H))|exact (proj2 (proj2 H))|exact H].
Qed.
