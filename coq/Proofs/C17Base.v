(* C17: association-list lemmas, well-formedness, the "view" of a catalog (which collections
   exist, with which ids and index names), the view-level transition function that both the
   model and the specification are compared against, and the multiset comparison lemmas. *)
From Coq Require Import ZArith List String Bool Ascii Permutation Lia.
From Verif Require Import Value Catalog.
Import ListNotations.
Open Scope string_scope.
Open Scope list_scope.

(* ------------------------------------------------------------------ association lists *)
Section AssocLemmas.
Context {A : Type}.
Implicit Types (l : list (string * A)) (k : string) (v : A).

Lemma assoc_set_key k k' v l :
  assoc k' (set_key k v l) = if k' =? k then Some v else assoc k' l.
Proof.
  induction l as [|[k0 v0] l IH]; simpl.
  - destruct (k' =? k); reflexivity.
  - destruct (k =? k0) eqn:E; simpl.
    + apply String.eqb_eq in E; subst k0. destruct (k' =? k); reflexivity.
    + destruct (k' =? k0) eqn:E2.
      * apply String.eqb_eq in E2; subst k0. rewrite String.eqb_sym, E. reflexivity.
      * exact IH.
Qed.

Lemma keys_set_key k v l x : In x (keys (set_key k v l)) <-> x = k \/ In x (keys l).
Proof.
  unfold keys. induction l as [|[k0 v0] l IH]; simpl.
  - intuition.
  - destruct (k =? k0) eqn:E; simpl.
    + apply String.eqb_eq in E; subst k0. intuition.
    + rewrite IH. intuition.
Qed.

Lemma NoDup_set_key k v l : NoDup (keys l) -> NoDup (keys (set_key k v l)).
Proof.
  unfold keys. induction l as [|[k0 v0] l IH]; simpl; intros H.
  - constructor; [intros []|constructor].
  - inversion H as [|? ? Hn Hd]; subst. destruct (k =? k0) eqn:E; simpl.
    + apply String.eqb_eq in E; subst k0. constructor; assumption.
    + constructor; [|apply IH; assumption].
      intros Hin. apply (keys_set_key k v l k0) in Hin. destruct Hin as [->|Hin].
      * rewrite String.eqb_refl in E; discriminate.
      * exact (Hn Hin).
Qed.

Lemma assoc_None k l : assoc k l = None <-> ~ In k (keys l).
Proof.
  unfold keys. induction l as [|[k0 v0] l IH]; simpl.
  - intuition.
  - destruct (k =? k0) eqn:E.
    + apply String.eqb_eq in E; subst k0. split; [discriminate|]. intros H; exfalso; apply H; left; reflexivity.
    + rewrite IH. apply String.eqb_neq in E. intuition.
Qed.

Lemma assoc_In k v l : assoc k l = Some v -> In (k, v) l.
Proof.
  induction l as [|[k0 v0] l IH]; simpl; [discriminate|].
  destruct (k =? k0) eqn:E.
  - apply String.eqb_eq in E; subst k0. intros [= ->]. left; reflexivity.
  - intros H; right; exact (IH H).
Qed.

Lemma In_keys k v l : In (k, v) l -> In k (keys l).
Proof. intros H. unfold keys. change k with (fst (k, v)). apply in_map; exact H. Qed.

Lemma In_assoc k v l : NoDup (keys l) -> In (k, v) l -> assoc k l = Some v.
Proof.
  unfold keys. induction l as [|[k0 v0] l IH]; simpl; intros Hd Hin; [contradiction|].
  inversion Hd as [|? ? Hn Hd']; subst. destruct Hin as [[= -> ->]|Hin].
  - rewrite String.eqb_refl. reflexivity.
  - destruct (k =? k0) eqn:E.
    + apply String.eqb_eq in E; subst k0. exfalso. apply Hn. exact (In_keys _ _ _ Hin).
    + apply IH; assumption.
Qed.

Lemma assoc_Some_keys k l : assoc k l <> None <-> In k (keys l).
Proof.
  split.
  - intros H. destruct (assoc k l) as [v|] eqn:E; [|congruence].
    exact (In_keys _ _ _ (assoc_In _ _ _ E)).
  - intros H E. apply assoc_None in E. exact (E H).
Qed.

Lemma set_key_absent k v l : assoc k l = None -> l ++ [(k, v)] = set_key k v l.
Proof.
  induction l as [|[k0 v0] l IH]; simpl; [reflexivity|].
  destruct (k =? k0); [discriminate|]. intros H. rewrite (IH H). reflexivity.
Qed.

Lemma set_key_same k v l : assoc k l = Some v -> set_key k v l = l.
Proof.
  induction l as [|[k0 v0] l IH]; simpl; [discriminate|].
  destruct (k =? k0) eqn:E.
  - apply String.eqb_eq in E; subst k0. intros [= ->]. reflexivity.
  - intros H. rewrite (IH H). reflexivity.
Qed.

Lemma keys_del_key k l x : In x (keys (del_key k l)) -> In x (keys l).
Proof.
  unfold keys. induction l as [|[k0 v0] l IH]; simpl; [tauto|].
  destruct (k =? k0); simpl; intuition.
Qed.

Lemma NoDup_del_key k l : NoDup (keys l) -> NoDup (keys (del_key k l)).
Proof.
  unfold keys. induction l as [|[k0 v0] l IH]; simpl; intros H; [constructor|].
  inversion H as [|? ? Hn Hd]; subst. destruct (k =? k0); simpl; [assumption|].
  constructor; [|apply IH; assumption].
  intros Hin. apply Hn. exact (keys_del_key k l k0 Hin).
Qed.

Lemma assoc_del_key k k' l :
  NoDup (keys l) -> assoc k' (del_key k l) = if k' =? k then None else assoc k' l.
Proof.
  unfold keys. induction l as [|[k0 v0] l IH]; simpl; intros H.
  - destruct (k' =? k); reflexivity.
  - inversion H as [|? ? Hn Hd]; subst. destruct (k =? k0) eqn:E; simpl.
    + apply String.eqb_eq in E; subst k0. destruct (k' =? k) eqn:E2; [|reflexivity].
      apply String.eqb_eq in E2; subst k'. apply assoc_None. exact Hn.
    + destruct (k' =? k0) eqn:E2.
      * apply String.eqb_eq in E2; subst k0. rewrite String.eqb_sym, E. reflexivity.
      * apply IH; assumption.
Qed.

Lemma NoDup_keys_filter (p : string * A -> bool) l : NoDup (keys l) -> NoDup (keys (filter p l)).
Proof.
  unfold keys. induction l as [|kv l IH]; simpl; intros H; [constructor|].
  inversion H as [|? ? Hn Hd]; subst. destruct (p kv); simpl; [|apply IH; assumption].
  constructor; [|apply IH; assumption].
  intros Hin. apply Hn. apply in_map_iff in Hin. destruct Hin as [y [Hy Hin]].
  apply filter_In in Hin. apply in_map_iff. exists y. tauto.
Qed.
End AssocLemmas.

Lemma NoDup_filter_str (p : string -> bool) (l : list string) : NoDup l -> NoDup (filter p l).
Proof.
  induction l as [|x l IH]; simpl; intros H; [constructor|].
  inversion H as [|? ? Hn Hd]; subst. destruct (p x); [|apply IH; assumption].
  constructor; [|apply IH; assumption]. intros Hin. apply filter_In in Hin. tauto.
Qed.

Lemma mem_str_In x l : mem_str x l = true <-> In x l.
Proof.
  induction l as [|y l IH]; simpl; [intuition discriminate|].
  rewrite orb_true_iff, IH, String.eqb_eq. intuition.
Qed.

Lemma nodup_str_NoDup l : nodup_str l = true <-> NoDup l.
Proof.
  induction l as [|y l IH]; simpl.
  - split; [constructor|reflexivity].
  - rewrite andb_true_iff, negb_true_iff, IH. split.
    + intros [Hm Hd]. constructor; [|assumption]. intros Hin. apply mem_str_In in Hin. congruence.
    + intros H. inversion H as [|? ? Hn Hd]; subst. split; [|assumption].
      destruct (mem_str y l) eqn:E; [|reflexivity]. apply mem_str_In in E. contradiction.
Qed.

(* ------------------------------------------------------------------ well-formedness *)
(* two-level association lists: server stores and abstract catalogs *)
Definition gget {X} (l : list (string * list X)) (k : string) : list X :=
  match assoc k l with Some d => d | None => [] end.

Definition WF2 {X} (l : list (string * list (string * X))) : Prop :=
  NoDup (keys l) /\ forall k, NoDup (keys (gget l k)).

(* the decidable formulation used in the statements *)
Definition wf2b {X} (l : list (string * list (string * X))) : bool :=
  nodup_str (keys l) && forallb (fun kd => nodup_str (keys (snd kd))) l.

Definition wf_a (a : acat) : bool := wf2b a.     (* abstract catalog: no key occurs twice *)

Lemma wf2b_WF2 {X} (l : list (string * list (string * X))) : wf2b l = true <-> WF2 l.
Proof.
  unfold wf2b, WF2. rewrite andb_true_iff, nodup_str_NoDup, forallb_forall. split.
  - intros [Hd Hall]. split; [assumption|]. intros k. unfold gget.
    destruct (assoc k l) as [d|] eqn:E; [|constructor].
    apply nodup_str_NoDup. exact (Hall (k, d) (assoc_In _ _ _ E)).
  - intros [Hd Hall]. split; [assumption|]. intros [k d] Hin. simpl.
    apply nodup_str_NoDup. specialize (Hall k). unfold gget in Hall.
    rewrite (In_assoc _ _ _ Hd Hin) in Hall. exact Hall.
Qed.

Lemma gget_assoc {X} (l : list (string * list X)) k d : assoc k l = Some d -> gget l k = d.
Proof. intros E. unfold gget. rewrite E. reflexivity. Qed.

Lemma gget_set_key {X} (l : list (string * list X)) k d k' :
  gget (set_key k d l) k' = if k' =? k then d else gget l k'.
Proof. unfold gget. rewrite assoc_set_key. destruct (k' =? k); reflexivity. Qed.

Lemma gget_del_key {X} (l : list (string * list X)) k k' :
  NoDup (keys l) -> gget (del_key k l) k' = if k' =? k then [] else gget l k'.
Proof. intros H. unfold gget. rewrite assoc_del_key by assumption. destruct (k' =? k); reflexivity. Qed.

Lemma WF2_set_key {X} (l : list (string * list (string * X))) k d :
  WF2 l -> NoDup (keys d) -> WF2 (set_key k d l).
Proof.
  intros [Hd Hall] Hn. split; [apply NoDup_set_key; assumption|].
  intros k'. rewrite gget_set_key. destruct (k' =? k); [assumption|apply Hall].
Qed.

Lemma WF2_del_key {X} (l : list (string * list (string * X))) k : WF2 l -> WF2 (del_key k l).
Proof.
  intros [Hd Hall]. split; [apply NoDup_del_key; assumption|].
  intros k'. rewrite gget_del_key by assumption. destruct (k' =? k); [constructor|apply Hall].
Qed.

Lemma WF2_nil {X} : WF2 (@nil (string * list (string * X))).
Proof. split; [constructor|intros k; constructor]. Qed.

(* ------------------------------------------------------------------ views *)
(* what a user can observe of a catalog: for each (database, collection) whether it exists
   and with which ids / index names *)
Definition view := string -> string -> option acoll.
Definition veq (v w : view) : Prop := forall db c, v db c = w db c.
Definition vupd (v : view) (db c : string) (x : option acoll) : view :=
  fun db' c' => if (db' =? db) && (c' =? c) then x else v db' c'.

Definition cview (x : cstore) : option acoll :=
  if cs_created x then Some (cs_docs x, cs_idx x) else None.
(* the view of a server store *)
Definition coll_view (s : sstore) : view := fun db c => cview (get_coll (get_db s db) c).

(* the transition on views: the property statement, as a function on observations *)
Definition vstep (v : view) (o : cop) : view :=
  match o with
  | KRead _ _ | KListCollections _ | KListDatabases | KIndexInfo _ _ => v
  | KInsert db c id =>
      match v db c with
      | Some (ids, ix) => if existsb (Z.eqb id) ids then v else vupd v db c (Some (ids ++ [id], ix))
      | None => vupd v db c (Some ([id], []))
      end
  | KDeleteAll db c =>
      match v db c with Some (_, ix) => vupd v db c (Some ([], ix)) | None => v end
  | KCreateCollection db c =>
      if negb (valid_name c) then v else
      match v db c with Some _ => v | None => vupd v db c (Some ([], [])) end
  | KCreateIndex db c field =>
      let name := (field ++ "_1")%string in
      match v db c with
      | Some (ids, ix) => vupd v db c (Some (ids, if mem_str name ix then ix else ix ++ [name]))
      | None => vupd v db c (Some ([], [name]))
      end
  | KDropIndex db c name =>
      match v db c with
      | Some (ids, ix) => if mem_str name ix
                          then vupd v db c (Some (ids, List.filter (fun n => negb (n =? name)) ix))
                          else v
      | None => v
      end
  | KDropIndexes db c =>
      match v db c with Some (ids, _) => vupd v db c (Some (ids, [])) | None => v end
  | KRename db c new_name drop_target =>
      if negb (valid_name new_name) then v else
      match v db c with
      | None => v
      | Some x =>
          if c =? new_name then v else              (* onto itself: refused, nothing changes *)
          match v db new_name with
          | Some _ => if drop_target then vupd (vupd v db c None) db new_name (Some x) else v
          | None => vupd (vupd v db c None) db new_name (Some x)
          end
      end
  | KDropCollection db c => vupd v db c None
  | KDropDatabase db => fun db' c' => if db' =? db then None else v db' c'
  end.

(* the answer, for the operations whose answer is a function of the view *)
Definition vout (v : view) (o : cop) : res value :=
  match o with
  | KRead db c => Ok (VArr (map VInt (match v db c with Some x => fst x | None => [] end)))
  | KInsert db c id =>
      match v db c with
      | Some (ids, _) => if existsb (Z.eqb id) ids then Err EDup else Ok VNull
      | None => Ok VNull
      end
  | KCreateCollection db c =>
      if negb (valid_name c) then Err ECrash else
      match v db c with
      | Some _ => if is_system c then Ok VNull else Err ECrash
      | None => Ok VNull
      end
  | KCreateIndex db c field => Ok (VStr (field ++ "_1"))
  | KDropIndex db c name =>
      match v db c with
      | Some (_, ix) => if mem_str name ix then Ok VNull else Err EOpFail
      | None => Err EOpFail
      end
  | KRename db c new_name drop_target =>
      if negb (valid_name new_name) then Err ECrash else
      match v db c with
      | None => Err EOpFail
      | Some _ =>
          if c =? new_name then Err EOpFail else
          match v db new_name with
          | Some _ => if drop_target then Ok VNull else Err EOpFail
          | None => Ok VNull
          end
      end
  | KIndexInfo db c =>
      Ok (names_value (match v db c with Some (_, ix) => "_id_" :: ix | None => [] end))
  | KDeleteAll _ _ | KDropIndexes _ _ | KDropCollection _ _ | KDropDatabase _
  | KListCollections _ | KListDatabases => Ok VNull
  end.

(* the answer relation: listings are determined as sets *)
Definition vout_ok (v : view) (o : cop) (r : res value) : Prop :=
  match o with
  | KListCollections db =>
      exists l, r = Ok (names_value l) /\ NoDup l /\
                forall n, In n l <-> (is_system n = false /\ v db n <> None)
  | KListDatabases =>
      exists l, r = Ok (names_value l) /\ NoDup l /\
                forall n, In n l <-> exists c, v n c <> None
  | _ => r = vout v o
  end.

Lemma veq_refl v : veq v v. Proof. intros db c; reflexivity. Qed.
Lemma veq_sym v w : veq v w -> veq w v. Proof. intros H db c; symmetry; apply H. Qed.
Lemma veq_trans u v w : veq u v -> veq v w -> veq u w.
Proof. intros H1 H2 db c. rewrite H1. apply H2. Qed.

Lemma vstep_ext v w o : veq v w -> veq (vstep v o) (vstep w o).
Proof.
  intros H db' c'. destruct o; simpl; unfold vupd; repeat rewrite H; try reflexivity.
  - destruct (w db c) as [[ids ix]|]; [destruct (existsb _ ids)|]; repeat rewrite H; reflexivity.
  - destruct (w db c) as [[ids ix]|]; repeat rewrite H; reflexivity.
  - destruct (negb (valid_name c)); [apply H|]. repeat rewrite H.
    destruct (w db c) as [[ids ix]|]; repeat rewrite H; reflexivity.
  - destruct (w db c) as [[ids ix]|]; repeat rewrite H; reflexivity.
  - destruct (w db c) as [[ids ix]|]; [destruct (mem_str name ix)|]; repeat rewrite H; reflexivity.
  - destruct (w db c) as [[ids ix]|]; repeat rewrite H; reflexivity.
  - destruct (negb (valid_name new_name)); [apply H|]. repeat rewrite H.
    destruct (w db c) as [x|]; [|apply H]. repeat rewrite H.
    destruct (c =? new_name); [apply H|]. repeat rewrite H.
    destruct (w db new_name) as [y|]; [destruct drop_target|]; repeat rewrite H; reflexivity.
Qed.

Lemma vout_ext v w o : veq v w -> vout v o = vout w o.
Proof. intros H. destruct o; simpl; repeat rewrite H; reflexivity. Qed.

(* ------------------------------------------------------------------ comparing answers *)
Lemma remove_one_str x (l : list string) :
  In x l -> exists a b, l = a ++ x :: b /\
                        remove_one_v (VStr x) (map VStr l) = Some (map VStr (a ++ b)).
Proof.
  induction l as [|y l IH]; simpl; [intros []|]. intros Hin.
  destruct (x =? y) eqn:E.
  - apply String.eqb_eq in E; subst y. exists [], l. split; reflexivity.
  - destruct Hin as [->|Hin]; [rewrite String.eqb_refl in E; discriminate|].
    destruct (IH Hin) as [a [b [-> Hr]]]. exists (y :: a), b. split; [reflexivity|].
    rewrite Hr. reflexivity.
Qed.

Lemma mset_perm (l1 l2 : list string) :
  Permutation l1 l2 -> mset_eqb (map VStr l1) (map VStr l2) = true.
Proof.
  revert l2. induction l1 as [|x l1 IH]; intros l2 HP.
  - apply Permutation_nil in HP; subst; reflexivity.
  - assert (Hin : In x l2) by (eapply Permutation_in; [exact HP|left; reflexivity]).
    destruct (remove_one_str x l2 Hin) as [a [b [-> Hr]]].
    simpl. rewrite Hr. apply IH. eapply Permutation_cons_app_inv; exact HP.
Qed.

Lemma out_eqb_names l1 l2 :
  Permutation l1 l2 -> out_eqb (Ok (names_value l1)) (Ok (names_value l2)) = true.
Proof. intros HP. apply (mset_perm _ _ HP). Qed.

Lemma out_eqb_names_set l1 l2 :
  NoDup l1 -> NoDup l2 -> (forall n, In n l1 <-> In n l2) ->
  out_eqb (Ok (names_value l1)) (Ok (names_value l2)) = true.
Proof. intros H1 H2 H. apply out_eqb_names. apply NoDup_Permutation; assumption. Qed.

Lemma value_eqb_ints l : value_eqb (VArr (map VInt l)) (VArr (map VInt l)) = true.
Proof. induction l as [|z l IH]; simpl; [reflexivity|]. rewrite Z.eqb_refl. exact IH. Qed.

Lemma out_eqb_vout v o :
  match o with KListCollections _ | KListDatabases => False | _ => True end ->
  out_eqb (vout v o) (vout v o) = true.
Proof.
  destruct o; simpl; intros Hn; try contradiction; try reflexivity.
  - apply value_eqb_ints.
  - destruct (v db c) as [[ids ix]|]; [destruct (existsb _ ids)|]; reflexivity.
  - destruct (negb (valid_name c)); [reflexivity|].
    destruct (v db c); [destruct (is_system c)|]; reflexivity.
  - apply String.eqb_refl.
  - destruct (v db c) as [[ids ix]|]; [destruct (mem_str name ix)|]; reflexivity.
  - destruct (negb (valid_name new_name)); [reflexivity|].
    destruct (v db c); [|reflexivity]. destruct (c =? new_name); [reflexivity|].
    destruct (v db new_name); [destruct drop_target|]; reflexivity.
  - apply out_eqb_names. apply Permutation_refl.
Qed.

(* two answers that are right for equal views compare equal *)
Lemma vout_ok_eqb v w o r r' :
  veq v w -> vout_ok v o r -> vout_ok w o r' -> out_eqb r r' = true.
Proof.
  intros H Hr Hr'.
  destruct o; cbn [vout_ok] in Hr, Hr';
    try (subst r r'; rewrite (vout_ext _ _ _ H); apply out_eqb_vout; exact I).
  - destruct Hr as [l [-> [Hd Hl]]]. destruct Hr' as [l' [-> [Hd' Hl']]].
    apply out_eqb_names_set; try assumption. intros n. rewrite Hl, Hl', H. reflexivity.
  - destruct Hr as [l [-> [Hd Hl]]]. destruct Hr' as [l' [-> [Hd' Hl']]].
    apply out_eqb_names_set; try assumption. intros n. rewrite Hl, Hl'.
    split; intros [c Hc]; exists c; [rewrite <- H|rewrite H]; exact Hc.
Qed.
