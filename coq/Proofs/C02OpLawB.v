(* C02 proofs, operator laws, part B: $set, $unset, $inc, $min, $max, $pop, $currentDate. *)
From Coq Require Import ZArith List String Bool Ascii Lia.
From Verif Require Import Value PyEq BsonOrder Path Filter FilterSpec FilterGuard Update Project Coll
                          HistCheck HistProps ProjectSpec Cursor UpdateLaws.
From Verif.Proofs Require Import C01Values C12Base C02Base C02Walk C02OpLawA.
Import ListNotations.
Open Scope Z_scope.
Open Scope string_scope.
Open Scope list_scope.

(* ---------------------------------------------------------------- op_law, operator by operator *)
Ltac law_unfold p d :=
  unfold op_law, law_pre, parent_ok;
  match goal with |- context [existsb ?f (split_dots p)] => destruct (existsb f (split_dots p)) end;
  [reflexivity|];
  match goal with |- context [negb (?f (split_dots p) d)] => destruct (f (split_dots p) d) end;
  reflexivity.

Lemma law_set p arg now d d' :
  op_law "$set" p arg now d d' =
  if law_pre p d then Some (opt_value_eqb (at_path p d') (Some (patch arg))) else None.
Proof. law_unfold p d. Qed.

Lemma law_unset p arg now d d' :
  op_law "$unset" p arg now d d' =
  if law_pre p d then Some (match at_path p d' with None => true | Some _ => false end) else None.
Proof. law_unfold p d. Qed.

Lemma law_inc p arg now d d' :
  op_law "$inc" p arg now d d' =
  if law_pre p d then
    match at_path p d with
    | None => Some (opt_value_eqb (at_path p d') (Some arg))
    | Some o => match num_add o arg with
                | Some s => Some (opt_value_eqb (at_path p d') (Some s))
                | None => None end
    end
  else None.
Proof. law_unfold p d. Qed.

Lemma law_min p arg now d d' :
  op_law "$min" p arg now d d' =
  if law_pre p d then
    match at_path p d with
    | None => Some (opt_value_eqb (at_path p d') (Some (patch arg)))
    | Some o =>
        match bson_le o (patch arg) with
        | None => None
        | Some le =>
            Some (match at_path p d' with
                  | Some n => bson_eq n (if le then o else patch arg)
                  | None => false end)
        end
    end
  else None.
Proof. law_unfold p d. Qed.

Lemma law_max p arg now d d' :
  op_law "$max" p arg now d d' =
  if law_pre p d then
    match at_path p d with
    | None => Some (opt_value_eqb (at_path p d') (Some (patch arg)))
    | Some o =>
        match bson_le o (patch arg) with
        | None => None
        | Some le =>
            let keep_old := match bson_le (patch arg) o with Some b => b | None => true end in
            Some (match at_path p d' with
                  | Some n => bson_eq n (if keep_old then o else patch arg)
                  | None => false end)
        end
    end
  else None.
Proof. law_unfold p d. Qed.

Lemma law_pop p arg now d d' :
  op_law "$pop" p arg now d d' =
  if law_pre p d then
    match at_path p d, arg with
    | Some (VArr xs), VInt 1 => Some (opt_value_eqb (at_path p d') (Some (VArr (removelast xs))))
    | Some (VArr xs), VInt (-1) => Some (opt_value_eqb (at_path p d') (Some (VArr (tl xs))))
    | _, _ => None
    end
  else None.
Proof. law_unfold p d. Qed.

Lemma law_currentDate p arg now d d' :
  op_law "$currentDate" p arg now d d' =
  if law_pre p d then Some (opt_value_eqb (at_path p d') (Some (VDate (floor1000 now) None))) else None.
Proof. law_unfold p d. Qed.

Lemma law_push p arg now d d' :
  op_law "$push" p arg now d d' =
  if law_pre p d then
    match at_path p d with
    | Some (VArr xs) => match push_spec xs (patch arg) with
                        | Some l => Some (opt_value_eqb (at_path p d') (Some (VArr l)))
                        | None => None end
    | None => match push_spec [] (patch arg) with
              | Some l => Some (opt_value_eqb (at_path p d') (Some (VArr l)))
              | None => None end
    | Some _ => None
    end
  else None.
Proof. law_unfold p d. Qed.

Lemma law_addToSet p arg now d d' :
  op_law "$addToSet" p arg now d d' =
  if law_pre p d then
    match at_path p d, patch arg with
    | _, VDoc _ => None
    | Some (VArr xs), a =>
        Some (opt_value_eqb (at_path p d')
                (Some (VArr (if existsb (fun x => bson_eq x a) xs then xs else xs ++ [a]))))
    | None, a => Some (opt_value_eqb (at_path p d') (Some (VArr [a])))
    | Some _, _ => None
    end
  else None.
Proof. law_unfold p d. Qed.

Lemma law_pullAll p arg now d d' :
  op_law "$pullAll" p arg now d d' =
  if law_pre p d then
    match at_path p d, patch arg with
    | Some (VArr xs), VArr vs =>
        if existsb has_bool_or_doc (xs ++ vs) then None else
        Some (opt_value_eqb (at_path p d')
                (Some (VArr (remove_all (fun x => existsb (bson_eq x) vs) xs))))
    | None, VArr _ => Some (match at_path p d' with None => true | Some _ => false end)
    | _, _ => None
    end
  else None.
Proof. law_unfold p d. Qed.

Lemma law_pull p arg now d d' :
  op_law "$pull" p arg now d d' =
  if law_pre p d then
    match at_path p d, patch arg with
    | _, VDoc _ => None
    | Some (VArr xs), a =>
        if existsb has_bool_or_doc (a :: xs) then None else
        Some (opt_value_eqb (at_path p d') (Some (VArr (remove_all (fun x => bson_eq x a) xs))))
    | _, _ => None
    end
  else None.
Proof. law_unfold p d. Qed.

(* only the eleven operator names are decided *)
Lemma law_names op p arg now d d' b :
  op_law op p arg now d d' = Some b ->
  In op ["$set"; "$unset"; "$inc"; "$min"; "$max"; "$pop"; "$push"; "$addToSet"; "$pullAll";
         "$pull"; "$currentDate"].
Proof.
  unfold op_law.
  match goal with |- context [existsb ?f (split_dots p)] => destruct (existsb f (split_dots p)) end;
    [discriminate|].
  match goal with |- context [negb ?x] => destruct (negb x) end; [discriminate|].
  destruct (op =? "$set") eqn:E1; [apply String.eqb_eq in E1; subst; simpl; tauto|].
  destruct (op =? "$unset") eqn:E2; [apply String.eqb_eq in E2; subst; simpl; tauto|].
  destruct (op =? "$inc") eqn:E3; [apply String.eqb_eq in E3; subst; simpl; tauto|].
  destruct (op =? "$min") eqn:E4; [apply String.eqb_eq in E4; subst; simpl; tauto|].
  destruct (op =? "$max") eqn:E5; [apply String.eqb_eq in E5; subst; simpl; tauto|].
  cbn [orb].
  destruct (op =? "$pop") eqn:E6; [apply String.eqb_eq in E6; subst; simpl; tauto|].
  destruct (op =? "$push") eqn:E7; [apply String.eqb_eq in E7; subst; simpl; tauto|].
  destruct (op =? "$addToSet") eqn:E8; [apply String.eqb_eq in E8; subst; simpl; tauto|].
  destruct (op =? "$pullAll") eqn:E9; [apply String.eqb_eq in E9; subst; simpl; tauto|].
  destruct (op =? "$pull") eqn:E10; [apply String.eqb_eq in E10; subst; simpl; tauto|].
  destruct (op =? "$currentDate") eqn:E11; [apply String.eqb_eq in E11; subst; simpl; tauto|].
  discriminate.
Qed.

(* common preamble of the operator lemmas *)
Ltac law_start Hlaw lawlemma p d Hpre Hne :=
  rewrite lawlemma in Hlaw;
  destruct (law_pre p d) eqn:Hpre; [|discriminate Hlaw];
  apply law_pre_ok in Hpre;
  pose proof (split_dots_nonnil p) as Hne;
  unfold at_path in Hlaw.

(* ---------------------------------------------------------------- $set *)
Lemma op_law_set spec p arg now d d' b :
  patch arg = arg ->
  apply_update spec (VDoc [("$set", VDoc [(p, arg)])]) false now d = Ok d' ->
  op_law "$set" p arg now d d' = Some b -> b = true.
Proof.
  intros Hpatch Hupd Hlaw. law_start Hlaw law_set p d Hpre Hne.
  apply (upd_fields _ _ USet) in Hupd; [|reflexivity].
  rewrite (set_get _ _ _ _ _ Hne Hpre Hupd), Hpatch, opt_value_eqb_refl in Hlaw. congruence.
Qed.

(* ---------------------------------------------------------------- $unset *)
Lemma op_law_unset spec p arg now d d' b :
  wf_value d = true ->
  apply_update spec (VDoc [("$unset", VDoc [(p, arg)])]) false now d = Ok d' ->
  op_law "$unset" p arg now d d' = Some b -> b = true.
Proof.
  intros Hwf Hupd Hlaw. law_start Hlaw law_unset p d Hpre Hne.
  apply (upd_fields _ _ UUnset) in Hupd; [|reflexivity].
  rewrite (walk_unset _ _ _ _ _ Hne Hpre Hwf Hupd) in Hlaw. congruence.
Qed.

(* ---------------------------------------------------------------- $inc *)
Lemma py_add_zero arg s : py_add (VInt 0) arg = Ok s -> s = arg.
Proof. destruct arg; simpl; intro H; inversion H; reflexivity. Qed.

Lemma py_add_num o arg s s' : py_add o arg = Ok s -> num_add o arg = Some s' -> s = s'.
Proof. destruct o, arg; simpl; intros H1 H2; congruence. Qed.

Lemma op_law_inc spec p arg now d d' b :
  apply_update spec (VDoc [("$inc", VDoc [(p, arg)])]) false now d = Ok d' ->
  op_law "$inc" p arg now d d' = Some b -> b = true.
Proof.
  intros Hupd Hlaw. law_start Hlaw law_inc p d Hpre Hne.
  apply (upd_fields _ _ UInc) in Hupd; [|reflexivity].
  destruct (walk_parent UInc now arg ltac:(discriminate) _ _ _ Hne Hpre Hupd) as [r [Hr Hg]].
  rewrite Hg, (old_pfs _ _ Hne Hpre) in Hlaw. unfold apply_updater in Hr.
  bind_inv Hr s Hs. inversion Hr; subst r. rewrite get_one_set in Hlaw.
  destruct (assoc (lst (split_dots p)) (pfs (split_dots p) d)) as [o|].
  - destruct (num_add o arg) as [s'|] eqn:En; [|discriminate].
    rewrite (py_add_num _ _ _ _ Hs En), opt_value_eqb_refl in Hlaw. congruence.
  - rewrite (py_add_zero _ _ Hs), opt_value_eqb_refl in Hlaw. congruence.
Qed.

(* ---------------------------------------------------------------- $min / $max *)
Definition is_lt (c : comparison) : bool := match c with Lt => true | _ => false end.
Definition not_gt (c : comparison) : bool := match c with Gt => false | _ => true end.

Lemma bson_le_cmp a b : bson_le a b = option_map not_gt (spec_cmp3 a b).
Proof. unfold bson_le. destruct (spec_cmp3 a b) as [[| |]|]; reflexivity. Qed.

Local Arguments Z.mul : simpl never.
Local Arguments Z.compare : simpl never.
Local Arguments Z.ltb : simpl never.
Local Arguments String.compare : simpl never.

(* within one type class Python's < is the BSON order wherever both are defined *)
Lemma py_lt_spec a b r c :
  (class_rank a =?? class_rank b) = true ->
  py_lt a b = Ok r -> spec_cmp3 a b = Some c -> r = is_lt c.
Proof.
  intros Hc Hl Hs. unfold spec_cmp3 in Hs. rewrite Hc in Hs. simpl in Hs.
  destruct a as [|x|x|x|x|x tx|x|x|x], b as [|y|y|y|y|y ty|y|y|y]; try discriminate Hc;
    try discriminate Hl; try discriminate Hs; simpl in Hl, Hs.
  - destruct x, y; inversion Hl; inversion Hs; reflexivity.
  - inversion Hl; inversion Hs. reflexivity.
  - inversion Hl; inversion Hs. reflexivity.
  - inversion Hl; inversion Hs. reflexivity.
  - inversion Hl; inversion Hs. reflexivity.
  - inversion Hl; inversion Hs. destruct (String.compare x y); reflexivity.
  - destruct tx, ty; try discriminate Hs; try discriminate Hl.
    inversion Hl; inversion Hs. reflexivity.
Qed.

Lemma scalar_cmp_antisym a b c : scalar_cmp a b = Some c -> scalar_cmp b a = Some (CompOpp c).
Proof.
  destruct a as [|x|x|x|x|x tx|x|x|x], b as [|y|y|y|y|y ty|y|y|y]; simpl; intro H;
    try discriminate H; inversion H; try reflexivity;
    try (rewrite <- Z.compare_antisym; reflexivity).
  rewrite <- String.compare_antisym. reflexivity.
Qed.

Lemma spec_cmp3_antisym a b c :
  (class_rank a =?? class_rank b) = true ->
  spec_cmp3 a b = Some c -> spec_cmp3 b a = Some (CompOpp c).
Proof.
  intros Hc Hs. unfold spec_cmp3 in *. rewrite Z.eqb_sym in Hc. rewrite Hc. rewrite Z.eqb_sym in Hc.
  rewrite Hc in Hs. simpl in *.
  destruct a as [|x|x|x|x|x tx|x|x|x], b as [|y|y|y|y|y ty|y|y|y]; try discriminate Hc;
    try discriminate Hs; try (apply scalar_cmp_antisym; exact Hs).
  destruct tx, ty; try discriminate Hs. apply scalar_cmp_antisym; exact Hs.
Qed.

Lemma min_keep o a r le :
  (class_rank o =?? class_rank a) = true ->
  py_lt a o = Ok r -> bson_le o a = Some le -> le = negb r.
Proof.
  intros Hc Hl Hb. rewrite bson_le_cmp in Hb.
  destruct (spec_cmp3 o a) as [c|] eqn:Es; [|discriminate]. simpl in Hb. inversion Hb; subst le.
  pose proof (spec_cmp3_antisym _ _ _ Hc Es) as Es'.
  rewrite Z.eqb_sym in Hc.
  rewrite (py_lt_spec _ _ _ _ Hc Hl Es'). destruct c; reflexivity.
Qed.

Lemma max_keep o a r le :
  (class_rank o =?? class_rank a) = true ->
  py_lt o a = Ok r -> bson_le o a = Some le ->
  match bson_le a o with Some b => b | None => true end = negb r.
Proof.
  intros Hc Hl Hb. rewrite bson_le_cmp in Hb.
  destruct (spec_cmp3 o a) as [c|] eqn:Es; [|discriminate].
  rewrite bson_le_cmp, (spec_cmp3_antisym _ _ _ Hc Es). simpl.
  rewrite (py_lt_spec _ _ _ _ Hc Hl Es). destruct c; reflexivity.
Qed.

Lemma cross_class p arg d o :
  minmax_cross_field p arg d = false -> get_by_dot (split_dots p) d = Some o ->
  (class_rank o =?? class_rank (patch arg)) = true.
Proof.
  unfold minmax_cross_field, at_path. intros H Ho. rewrite Ho in H.
  apply negb_false_iff in H. exact H.
Qed.

Lemma op_law_min spec p arg now d d' b :
  patch arg = arg -> minmax_cross_field p arg d = false ->
  apply_update spec (VDoc [("$min", VDoc [(p, arg)])]) false now d = Ok d' ->
  op_law "$min" p arg now d d' = Some b -> b = true.
Proof.
  intros Hpatch Hcross Hupd Hlaw. law_start Hlaw law_min p d Hpre Hne.
  apply (upd_fields _ _ UMin) in Hupd; [|reflexivity].
  destruct (walk_parent UMin now arg ltac:(discriminate) _ _ _ Hne Hpre Hupd) as [r [Hr Hg]].
  pose proof (cross_class p arg d) as Hcl. specialize (Hcl) with (1 := Hcross).
  rewrite Hg, Hpatch in Hlaw. rewrite Hpatch in Hcl. rewrite (old_pfs _ _ Hne Hpre) in Hlaw, Hcl.
  unfold apply_updater in Hr. cbv zeta in Hr.
  bind_inv Hr blt Hlt. inversion Hr; subst r. rewrite get_one_set in Hlaw.
  destruct (assoc (lst (split_dots p)) (pfs (split_dots p) d)) as [o|].
  - destruct (bson_le o arg) as [le|] eqn:Ele; [|discriminate].
    rewrite (min_keep _ _ _ _ (Hcl o eq_refl) Hlt Ele) in Hlaw.
    destruct blt; simpl in Hlaw; rewrite bson_eq_refl in Hlaw; congruence.
  - destruct blt; rewrite opt_value_eqb_refl in Hlaw; congruence.
Qed.

Lemma op_law_max spec p arg now d d' b :
  patch arg = arg -> minmax_cross_field p arg d = false ->
  apply_update spec (VDoc [("$max", VDoc [(p, arg)])]) false now d = Ok d' ->
  op_law "$max" p arg now d d' = Some b -> b = true.
Proof.
  intros Hpatch Hcross Hupd Hlaw. law_start Hlaw law_max p d Hpre Hne.
  apply (upd_fields _ _ UMax) in Hupd; [|reflexivity].
  destruct (walk_parent UMax now arg ltac:(discriminate) _ _ _ Hne Hpre Hupd) as [r [Hr Hg]].
  pose proof (cross_class p arg d) as Hcl. specialize (Hcl) with (1 := Hcross).
  rewrite Hg, Hpatch in Hlaw. rewrite Hpatch in Hcl. rewrite (old_pfs _ _ Hne Hpre) in Hlaw, Hcl.
  unfold apply_updater in Hr. cbv zeta in Hr.
  bind_inv Hr blt Hlt. inversion Hr; subst r. rewrite get_one_set in Hlaw.
  destruct (assoc (lst (split_dots p)) (pfs (split_dots p) d)) as [o|].
  - destruct (bson_le o arg) as [le|] eqn:Ele; [|discriminate]. cbv zeta in Hlaw.
    rewrite (max_keep _ _ _ _ (Hcl o eq_refl) Hlt Ele) in Hlaw.
    destruct blt; simpl in Hlaw; rewrite bson_eq_refl in Hlaw; congruence.
  - destruct blt; rewrite opt_value_eqb_refl in Hlaw; congruence.
Qed.

(* ---------------------------------------------------------------- $pop *)
Lemma pop_list_last xs : pop_list xs (VInt 1) = removelast xs.
Proof. destruct xs; reflexivity. Qed.
Lemma pop_list_first xs : pop_list xs (VInt (-1)) = tl xs.
Proof. destruct xs; reflexivity. Qed.

Lemma op_law_pop spec p arg now d d' b :
  apply_update spec (VDoc [("$pop", VDoc [(p, arg)])]) false now d = Ok d' ->
  op_law "$pop" p arg now d d' = Some b -> b = true.
Proof.
  intros Hupd Hlaw. law_start Hlaw law_pop p d Hpre Hne.
  apply (upd_fields _ _ UPop) in Hupd; [|reflexivity].
  destruct (walk_parent UPop now arg ltac:(discriminate) _ _ _ Hne Hpre Hupd) as [r [Hr Hg]].
  rewrite Hg, (old_pfs _ _ Hne Hpre) in Hlaw. unfold apply_updater in Hr.
  destruct (assoc (lst (split_dots p)) (pfs (split_dots p) d)) as [o|]; [|discriminate].
  destruct o; try discriminate Hlaw.
  destruct arg as [| |z| | | | | |]; try discriminate Hlaw.
  destruct z as [|q|q]; try discriminate Hlaw; destruct q; try discriminate Hlaw.
  - change (is_pop_arg (VInt 1)) with true in Hr. cbv iota beta in Hr. simpl negb in Hr. cbv iota in Hr.
    inversion Hr; subst r. rewrite get_one_set, pop_list_last, opt_value_eqb_refl in Hlaw. congruence.
  - change (is_pop_arg (VInt (-1))) with true in Hr. simpl negb in Hr. cbv iota in Hr.
    inversion Hr; subst r. rewrite get_one_set, pop_list_first, opt_value_eqb_refl in Hlaw. congruence.
Qed.

(* ---------------------------------------------------------------- $currentDate *)
Lemma op_law_currentDate spec p arg now d d' b :
  apply_update spec (VDoc [("$currentDate", VDoc [(p, arg)])]) false now d = Ok d' ->
  op_law "$currentDate" p arg now d d' = Some b -> b = true.
Proof.
  intros Hupd Hlaw. law_start Hlaw law_currentDate p d Hpre Hne.
  apply upd_currentDate in Hupd.
  destruct (walk_parent UCurrentDate now arg ltac:(discriminate) _ _ _ Hne Hpre Hupd) as [r [Hr Hg]].
  rewrite Hg in Hlaw. unfold apply_updater in Hr.
  destruct (py_eq arg (VDoc [("$type", VStr "timestamp")])); [discriminate|].
  inversion Hr; subst r. rewrite get_one_set, opt_value_eqb_refl in Hlaw. congruence.
Qed.
