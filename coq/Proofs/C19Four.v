(* C19 for four threads: 48 441 reachable states, about 80 s of kernel computation. *)
From Coq Require Import List NArith MSets.MSetPositive.
From Verif Require Import Lock C19Lock.
Lemma closed_4 : closed 4 (reach_set 4) = true.
Proof. vm_compute. reflexivity. Qed.
Theorem rw_good_4 : forall s, reach 4 s -> good 4 s = true.
Proof. exact (closed_reach_good 4 (reach_set 4) closed_4). Qed.
