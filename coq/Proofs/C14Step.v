(* C14 proofs, part 4: the per-step predicate holds for every operation of the model, and the
   history theorem. *)
From Coq Require Import ZArith List String Bool Ascii Lia.
From Verif Require Import Value PyEq BsonOrder Path Filter Update Project Coll HistCheck HistProps.
From Verif Require Import HistGuards C01Values C14Base C14Inv C14Ops.
From Verif Require C14Keys.
Import ListNotations.
Open Scope Z_scope.
Open Scope string_scope.
Open Scope list_scope.

(* what the guard says of one store entry; uid: the history has a delete_one/find_one_and_*,
   fam: the history has a find_one_and_* *)
(* the guard's c14_key_plain together with "the key is normalised", which is no longer assumed
   but proved of the model's trace (C14Keys) *)
Definition key_plain_norm (kd : value * value) : bool :=
  value_eqb (patch (fst kd)) (fst kd) && c14_key_plain kd.
Definition goodb (uid fam : bool) (kd : value * value) : bool :=
  c14_key_refl kd && (negb uid || c14_id_is_key kd) && (negb fam || key_plain_norm kd).

Definition good (uid fam : bool) (s : store) : Prop := forallb (goodb uid fam) s = true.

Lemma good_in uid fam s kd : good uid fam s -> In kd s -> goodb uid fam kd = true.
Proof. unfold good. rewrite forallb_forall. auto. Qed.

Lemma goodb_refl uid fam k d : goodb uid fam (k, d) = true -> py_eq k k = true.
Proof.
  unfold goodb, c14_key_refl. simpl. intro H.
  apply andb_true_iff in H. destruct H as [H _]. apply andb_true_iff in H. tauto.
Qed.

Lemma goodb_id fam k d : goodb true fam (k, d) = true -> doc_id d = Some k.
Proof.
  unfold goodb, c14_id_is_key. simpl. intro H.
  apply andb_true_iff in H. destruct H as [H _]. apply andb_true_iff in H. destruct H as [_ H].
  destruct (doc_id d) as [i|]; [|discriminate]. apply value_eqb_eq in H. subst. reflexivity.
Qed.

Lemma goodb_plain uid k d : goodb uid true (k, d) = true -> patch k = k /\ plain_key k = true.
Proof.
  unfold goodb, key_plain_norm, c14_key_plain. simpl. intro H.
  apply andb_true_iff in H. destruct H as [_ H]. apply andb_true_iff in H. destruct H as [H1 H2].
  split; [apply value_eqb_eq; exact H1|exact H2].
Qed.

(* ---------------------------------------------------------------- update_one / replace_one *)
Definition upd_pred (f : value) (upsert : bool) (before after : store) : bool :=
  if Nat.eqb (List.length after) (List.length before) then
    differ_at_most_one before after &&
    match first_diff before after with
    | None => true
    | Some k => opt_value_eqb (first_match (patch f) before) (Some k)
    end
  else upsert && Nat.eqb (List.length after) (S (List.length before))
       && store_eqb before (firstn (List.length before) after).

Lemma eqb_S_false n : Nat.eqb (S n) n = false.
Proof. apply Nat.eqb_neq. lia. Qed.

Lemma c14_update_ok pre5 c f u upsert c' v uid fam :
  Inv c -> good uid fam (docs c) ->
  update pre5 c f u false upsert = (c', Ok v) ->
  upd_pred f upsert (docs c) (docs c') = true.
Proof.
  intros HI HG H. unfold upd_pred.
  destruct (update_single pre5 c f u upsert c' v HI H) as [E|[E|E]].
  - rewrite E, Nat.eqb_refl, damo_refl, first_diff_refl. reflexivity.
  - destruct E as (pre & k & d & post & d' & Hdocs & Hp & Hd & E).
    pose proof (proj2 HI) as HK. rewrite Hdocs in HK. destruct (knd_mid _ _ _ _ HK) as [Hpre _].
    assert (Hk : py_eq k k = true).
    { apply (goodb_refl uid fam k d). apply (good_in _ _ _ _ HG). rewrite Hdocs.
      apply in_elt. }
    rewrite Hdocs in E. rewrite (store_set_at pre k d d' post Hpre Hk) in E.
    rewrite E, Hdocs. rewrite (length_mid pre (k, d') (k, d) post), Nat.eqb_refl.
    rewrite damo_at, first_diff_at. destruct (value_eqb d d'); [reflexivity|].
    rewrite (first_match_at _ pre k d post Hp Hd). simpl. apply value_eqb_refl.
  - destruct E as (Hup & _ & x & E). rewrite E, length_app_one, eqb_S_false, Hup, Nat.eqb_refl.
    rewrite firstn_length_app, store_eqb_refl. reflexivity.
Qed.

(* ---------------------------------------------------------------- delete_one *)
Definition del_pred (f : value) (before after : store) : bool :=
  removed_at_most_one before after &&
  match first_diff before after with
  | None => true
  | Some k => opt_value_eqb (first_match (patch f) before) (Some k)
  end.

Lemma c14_delete_ok c f c' v fam :
  Inv c -> good true fam (docs c) ->
  delete_op c f false = (c', Ok v) ->
  del_pred f (docs c) (docs c') = true.
Proof.
  intros HI HG H. unfold del_pred.
  destruct (delete_single c f c' v HI H) as [[_ E]|E].
  - rewrite E, ramo_refl, first_diff_refl. reflexivity.
  - destruct E as (pre & k & d & post & id & Hdocs & Hp & Hd & Hid & _ & E).
    pose proof (proj2 HI) as HK. rewrite Hdocs in HK. destruct (knd_mid _ _ _ _ HK) as [Hpre Hpost].
    assert (Hg : goodb true fam (k, d) = true).
    { apply (good_in _ _ _ _ HG). rewrite Hdocs. apply in_elt. }
    pose proof (goodb_refl _ _ _ _ Hg) as Hk.
    rewrite (goodb_id _ _ _ Hg) in Hid. injection Hid as <-.
    rewrite Hdocs in E. rewrite (store_del_at pre k d post Hpre Hk) in E.
    rewrite E, Hdocs. rewrite (ramo_at pre k d post Hk Hpost), (first_diff_del pre k d post Hk Hpost).
    rewrite (first_match_at _ pre k d post Hp Hd). simpl. apply value_eqb_refl.
Qed.

(* ---------------------------------------------------------------- find_one_and_* *)
Definition fam_pred (f : value) (sort : list (string * Z)) (k : fam_kind) (before after : store)
  : bool :=
  let target := fam_target f sort before in
  match k with
  | FamDelete =>
      removed_at_most_one before after &&
      match first_diff before after, target with
      | None, None => true
      | Some k', Some t => bson_eq (patch k') t
      | _, _ => false
      end
  | FamUpdate _ upsert _ | FamReplace _ upsert _ =>
      if Nat.eqb (List.length after) (List.length before) then
        differ_at_most_one before after &&
        match first_diff before after, target with
        | None, _ => true
        | Some k', Some t => bson_eq (patch k') t
        | Some _, None => false
        end
      else upsert && Nat.eqb (List.length after) (S (List.length before))
           && store_eqb before (firstn (List.length before) after)
           && match target with None => true | Some _ => false end
  end.

Lemma insert_by_length {A} (lt : A -> A -> res bool) x : forall l r,
  insert_by lt x l = Ok r -> List.length r = S (List.length l).
Proof.
  induction l as [| y l IH]; intros r H; simpl in H.
  - fin H. reflexivity.
  - destruct (lt y x) as [b|e]; simpl in H; [|discriminate]. destruct b.
    + destruct (insert_by lt x l) as [r'|e] eqn:E; simpl in H; [|discriminate]. fin H.
      simpl. rewrite (IH r' eq_refl). reflexivity.
    + fin H. reflexivity.
Qed.

Lemma sort_by_length {A} (lt : A -> A -> res bool) : forall l r,
  sort_by lt l = Ok r -> List.length r = List.length l.
Proof.
  induction l as [| x l IH]; intros r H; simpl in H.
  - fin H. reflexivity.
  - destruct (sort_by lt l) as [s|e] eqn:E; simpl in H; [|discriminate].
    rewrite (insert_by_length lt x s r H), (IH s eq_refl). reflexivity.
Qed.

Lemma sort_docs_length : forall spec l r, sort_docs spec l = Ok r -> List.length r = List.length l.
Proof.
  induction spec as [| [k dir] spec IH]; intros l r H; simpl in H.
  - fin H. reflexivity.
  - destruct (sort_docs spec l) as [l'|e] eqn:E; simpl in H; [|discriminate].
    rewrite <- (IH l l' E).
    destruct (k =? "$natural").
    { fin H. destruct (dir <?? 0); [apply rev_length|reflexivity]. }
    destruct (starts_dollar k); [discriminate|].
    destruct (negb (path_modelled (split_dots k))); [discriminate|].
    unfold py_sorted in H. destruct (dir <?? 0).
    + destruct (sort_by _ (rev l')) as [s|e] eqn:E2; simpl in H; [|discriminate]. fin H.
      rewrite rev_length, (sort_by_length _ _ s E2), rev_length. reflexivity.
    + apply (sort_by_length _ _ _ H).
Qed.

Lemma find_one_none c f sort c1 target :
  Inv c -> find_one c f None sort = (c1, Ok target) ->
  c1 = c /\ exists m sorted,
    scan (patch f) (docs c) = Ok m /\ sort_docs sort (map snd m) = Ok sorted
    /\ target = hd_error sorted.
Proof.
  intros HI H. unfold find_one, find_op in H.
  destruct (find_docs c f sort) as [[c' l]|e] eqn:E; [|discriminate].
  destruct (find_docs_spec c f sort c' l HI E) as (-> & m & Hs & Hsort).
  destruct (project_all None l) as [l'|e] eqn:Ep; [|discriminate].
  apply project_all_none in Ep. subst l'.
  change (cursor_slice 0 0 l) with l in H.
  destruct l as [| d l]; fin H; (split; [reflexivity|]); exists m; eexists;
    (split; [exact Hs|split; [exact Hsort|reflexivity]]).
Qed.

(* the part of _find_and_modify after the target was found: the state is that of the write *)
Lemma fam_rest pre5 c (target : option value) proj k (upsert : bool) query c' v :
  Inv c ->
  (let '(c2, old_r) := match target with
                       | Some _ => find_one c query proj []
                       | None => (c, Ok None)
                       end in
   match old_r with
   | Err e => (c2, Err e)
   | Ok old =>
       let '(c3, wr, query') :=
         match k with
         | FamDelete => let '(c', r) := delete_op c2 query false in (c', r, query)
         | FamUpdate u _ _ | FamReplace u _ _ =>
             let '(c', r) := update pre5 c2 query u false upsert in
             (c', r,
              match r with
              | Ok (VDoc rfs) => match assoc "upserted_id" rfs with
                                 | Some i => if truthy i then VDoc [("_id", i)] else query
                                 | None => query end
              | _ => query
              end)
         end in
       match wr with
       | Err e => (c3, Err e)
       | Ok _ =>
           if match k with FamDelete => false | FamUpdate _ _ a | FamReplace _ _ a => a end then
             match find_one c3 query' proj [] with
             | (c4, Ok r) => (c4, Ok (opt_to_value r))
             | (c4, Err e) => (c4, Err e)
             end
           else (c3, Ok (opt_to_value old))
       end
   end) = (c', Ok v) ->
  match k with
  | FamDelete => exists v', delete_op c query false = (c', Ok v')
  | FamUpdate u _ _ | FamReplace u _ _ => exists v', update pre5 c query u false upsert = (c', Ok v')
  end.
Proof.
  intros HI H.
  assert (H2 : fst (match target with
                    | Some _ => find_one c query proj []
                    | None => (c, Ok None) end) = c).
  { destruct target; [apply find_one_state; exact HI|reflexivity]. }
  destruct (match target with Some _ => find_one c query proj [] | None => (c, Ok None) end)
    as [c2 old_r]. simpl in H2. subst c2.
  destruct old_r as [old|e]; [|discriminate].
  assert (H3 : forall (c3 : coll) (wr : res value) (query' : value), Inv c3 ->
     match wr with
     | Err e => (c3, Err e)
     | Ok _ =>
         if match k with FamDelete => false | FamUpdate _ _ a | FamReplace _ _ a => a end then
           match find_one c3 query' proj [] with
           | (c4, Ok r) => (c4, Ok (opt_to_value r))
           | (c4, Err e) => (c4, Err e)
           end
         else (c3, Ok (opt_to_value old))
     end = (c', Ok v) -> c3 = c' /\ exists v', wr = Ok v').
  { intros c3 wr query' HI3 E. destruct wr as [w|e]; [|discriminate].
    split; [|exists w; reflexivity].
    destruct (match k with FamDelete => false | FamUpdate _ _ a | FamReplace _ _ a => a end).
    - pose proof (find_one_state c3 query' proj [] HI3) as H4.
      destruct (find_one c3 query' proj []) as [c4 r4]. simpl in H4. subst c4.
      destruct r4; fin E; reflexivity.
    - fin E. reflexivity. }
  destruct k as [| u ups aft | u ups aft].
  - pose proof (delete_op_inv c query false HI) as H5.
    destruct (delete_op c query false) as [c3 r] eqn:E. simpl in H5.
    destruct (H3 c3 r query H5 H) as (-> & v' & ->). exists v'. reflexivity.
  - pose proof (update_inv pre5 c query u false upsert HI) as H5.
    destruct (update pre5 c query u false upsert) as [c3 r] eqn:E. simpl in H5.
    destruct (H3 c3 r _ H5 H) as (-> & v' & ->). exists v'. reflexivity.
  - pose proof (update_inv pre5 c query u false upsert HI) as H5.
    destruct (update pre5 c query u false upsert) as [c3 r] eqn:E. simpl in H5.
    destruct (H3 c3 r _ H5 H) as (-> & v' & ->). exists v'. reflexivity.
Qed.

(* the target document is THE document matched by {_id: its id} *)
Lemma id_query c k t :
  Inv c -> good true true (docs c) -> In (k, t) (docs c) ->
  patch (VDoc [("_id", k)]) = VDoc [("_id", k)] /\
  exists pre post, docs c = pre ++ (k, t) :: post
    /\ Forall (ffalse (VDoc [("_id", k)])) pre
    /\ filter_applies (VDoc [("_id", k)]) t = Ok true.
Proof.
  intros HI HG Hin.
  pose proof (good_in _ _ _ _ HG Hin) as Hg.
  destruct (goodb_plain _ _ _ Hg) as [Hpk Hplain].
  split; [simpl; rewrite Hpk; reflexivity|].
  destruct (in_split _ _ Hin) as (pre & post & Hdocs). exists pre, post.
  split; [exact Hdocs|].
  pose proof (proj2 HI) as HK. rewrite Hdocs in HK. destruct (knd_mid _ _ _ _ HK) as [Hpre _].
  assert (A : forall k1 d1, In (k1, d1) (docs c) ->
              filter_applies (VDoc [("_id", k)]) d1 = Ok (py_eq k1 k)).
  { intros k1 d1 Hin1. pose proof (good_in _ _ _ _ HG Hin1) as Hg1.
    pose proof (goodb_id _ _ _ Hg1) as Hid1. destruct (goodb_plain _ _ _ Hg1) as [_ Hpl1].
    destruct d1 as [| | | | | | | fs1 |]; try discriminate. simpl in Hid1.
    apply filter_id; [exact Hplain|exact Hid1|]. destruct k1; try reflexivity; discriminate. }
  split.
  - rewrite Forall_forall. intros [k1 d1] Hin1. unfold ffalse. cbn [snd].
    rewrite (A k1 d1) by (rewrite Hdocs; apply in_or_app; left; exact Hin1).
    rewrite (Hpre k1); [reflexivity|]. unfold skeys. apply in_map_iff. exists (k1, d1). auto.
  - rewrite (A k t Hin). rewrite (goodb_refl _ _ _ _ Hg). reflexivity.
Qed.

Lemma first_match_unique f (s : store) pre k d post pre' k' d' post' :
  s = pre ++ (k, d) :: post -> Forall (ffalse f) pre -> filter_applies f d = Ok true ->
  s = pre' ++ (k', d') :: post' -> Forall (ffalse f) pre' -> filter_applies f d' = Ok true ->
  k' = k.
Proof.
  intros E1 Hp Hd E2 Hp' Hd'.
  pose proof (first_match_at f pre k d post Hp Hd) as A.
  pose proof (first_match_at f pre' k' d' post' Hp' Hd') as B.
  rewrite <- E1 in A. rewrite <- E2 in B. congruence.
Qed.

Lemma c14_fam_ok pre5 c f proj sort k c' v :
  Inv c -> good true true (docs c) ->
  find_and_modify pre5 c f proj sort k = (c', Ok v) ->
  fam_pred f sort k (docs c) (docs c') = true.
Proof.
  intros HI HG H. unfold find_and_modify in H.
  destruct f as [| | | | | | | fs |]; try discriminate.
  match type of H with context [match ?x with Ok _ => _ | Err e => (c, Err e) end] => destruct x end;
    [|discriminate].
  match type of H with context [if ?b then (c, Err EValue) else _] => destruct b end; [discriminate|].
  destruct (find_one c (VDoc fs) None sort) as [c1 r1] eqn:E1.
  destruct r1 as [target|e]; [|discriminate].
  destruct (find_one_none c _ sort c1 target HI E1) as (-> & m & sorted & Hs & Hsort & Ht).
  assert (Hft : fam_target (VDoc fs) sort (docs c)
                = match sorted with d :: _ => doc_id d | [] => None end).
  { unfold fam_target. rewrite Hs, Hsort. reflexivity. }
  destruct sorted as [| t sorted]; simpl in Ht; subst target.
  - (* no target *)
    assert (Hnone : Forall (ffalse (patch (VDoc fs))) (docs c)).
    { apply scan_nil. pose proof (sort_docs_length _ _ _ Hsort) as Hl.
      destruct m; [exact Hs|discriminate]. }
    unfold fam_pred. rewrite Hft.
    destruct (match k with FamDelete => false | FamUpdate _ u _ | FamReplace _ u _ => u end) eqn:Eu.
    2:{ fin H. rewrite ramo_refl, first_diff_refl, Nat.eqb_refl, damo_refl.
        destruct k; reflexivity. }
    apply (fam_rest pre5 c None proj k true (VDoc fs) c' v HI) in H.
    destruct k as [| u ups aft | u ups aft]; [discriminate| |]; simpl in Eu; subst ups;
      destruct H as [v' H];
      destruct (update_single pre5 c _ u true c' v' HI H) as [E|[E|E]].
    + rewrite E, Nat.eqb_refl, damo_refl, first_diff_refl. reflexivity.
    + destruct E as (pre & k0 & d & post & d' & Hdocs & _ & Hd & _). exfalso.
      apply (ffalse_not_true _ _ k0 d Hnone); [rewrite Hdocs; apply in_elt|exact Hd].
    + destruct E as (_ & _ & x & E). rewrite E, length_app_one, eqb_S_false, Nat.eqb_refl.
      rewrite firstn_length_app, store_eqb_refl. reflexivity.
    + rewrite E, Nat.eqb_refl, damo_refl, first_diff_refl. reflexivity.
    + destruct E as (pre & k0 & d & post & d' & Hdocs & _ & Hd & _). exfalso.
      apply (ffalse_not_true _ _ k0 d Hnone); [rewrite Hdocs; apply in_elt|exact Hd].
    + destruct E as (_ & _ & x & E). rewrite E, length_app_one, eqb_S_false, Nat.eqb_refl.
      rewrite firstn_length_app, store_eqb_refl. reflexivity.
  - (* a target: it is stored under its _id *)
    assert (Hin : exists k0, In (k0, t) (docs c)).
    { assert (In t (map snd m)) as Hm by (apply (sort_docs_in _ _ _ t Hsort); left; reflexivity).
      apply in_map_iff in Hm. destruct Hm as ([k0 t0] & E0 & Hm). simpl in E0. subst t0.
      exists k0. exact (scan_in _ _ _ _ Hs Hm). }
    destruct Hin as [k0 Hin].
    pose proof (good_in _ _ _ _ HG Hin) as Hg.
    pose proof (goodb_id _ _ _ Hg) as Hid.
    pose proof (goodb_refl _ _ _ _ Hg) as Hk0.
    destruct (goodb_plain _ _ _ Hg) as [Hpk _].
    destruct (id_query c k0 t HI HG Hin) as (Hpq & pre & post & Hdocs & Hp & Hd).
    unfold fam_pred. rewrite Hft, Hid.
    destruct t as [| | | | | | | tfs |]; try discriminate. simpl in Hid. rewrite Hid in H.
    assert (H' : match k with
                 | FamDelete => exists v', delete_op c (VDoc [("_id", k0)]) false = (c', Ok v')
                 | FamUpdate u ups _ | FamReplace u ups _ =>
                     exists v', update pre5 c (VDoc [("_id", k0)]) u false ups = (c', Ok v')
                 end).
    { pose proof (fam_rest pre5 c (Some (VDoc tfs)) proj k
                    (match k with FamDelete => false | FamUpdate _ u _ | FamReplace _ u _ => u end)
                    (VDoc [("_id", k0)]) c' v HI) as FR.
      destruct k; apply FR; exact H. }
    clear H.
    assert (Hupd : forall u ups v', update pre5 c (VDoc [("_id", k0)]) u false ups = (c', Ok v') ->
      (if Nat.eqb (List.length (docs c')) (List.length (docs c)) then
         differ_at_most_one (docs c) (docs c') &&
         match first_diff (docs c) (docs c') with
         | None => true
         | Some k' => bson_eq (patch k') k0
         end
       else ups && Nat.eqb (List.length (docs c')) (S (List.length (docs c)))
            && store_eqb (docs c) (firstn (List.length (docs c)) (docs c')) && false) = true).
    { intros u ups v' H.
      destruct (update_single pre5 c _ u ups c' v' HI H) as [E|[E|E]].
      - rewrite E, Nat.eqb_refl, damo_refl, first_diff_refl. reflexivity.
      - rewrite Hpq in E.
        destruct E as (pre' & k' & d' & post' & d'' & Hdocs' & Hp' & Hd' & E).
        assert (k' = k0) as -> by
          (exact (first_match_unique _ _ _ _ _ _ _ _ _ _ Hdocs Hp Hd Hdocs' Hp' Hd')).
        pose proof (proj2 HI) as HK. rewrite Hdocs' in HK.
        destruct (knd_mid _ _ _ _ HK) as [Hpre' _].
        rewrite Hdocs' in E. rewrite (store_set_at pre' k0 d' d'' post' Hpre' Hk0) in E.
        rewrite E, Hdocs'. rewrite (length_mid pre' (k0, d'') (k0, d') post'), Nat.eqb_refl.
        rewrite damo_at, first_diff_at. destruct (value_eqb d' d''); [reflexivity|].
        rewrite Hpk. apply bson_eq_refl.
      - rewrite Hpq in E. destruct E as (_ & Hnone & _). exfalso.
        apply (ffalse_not_true _ _ k0 (VDoc tfs) Hnone); [exact Hin|exact Hd]. }
    destruct k as [| u ups aft | u ups aft].
    + destruct H' as [v' H].
      destruct (delete_single c _ c' v' HI H) as [[E _]|E].
      * rewrite Hpq in E. exfalso. apply scan_nil in E.
        apply (ffalse_not_true _ _ k0 (VDoc tfs) E); [exact Hin|exact Hd].
      * rewrite Hpq in E.
        destruct E as (pre' & k' & d' & post' & id & Hdocs' & Hp' & Hd' & Hid' & _ & E).
        assert (k' = k0) as -> by
          (exact (first_match_unique _ _ _ _ _ _ _ _ _ _ Hdocs Hp Hd Hdocs' Hp' Hd')).
        assert (Hg' : goodb true true (k0, d') = true).
        { apply (good_in _ _ _ _ HG). rewrite Hdocs'. apply in_elt. }
        rewrite (goodb_id _ _ _ Hg') in Hid'. injection Hid' as <-.
        pose proof (proj2 HI) as HK. rewrite Hdocs' in HK.
        destruct (knd_mid _ _ _ _ HK) as [Hpre' Hpost'].
        rewrite Hdocs' in E. rewrite (store_del_at pre' k0 d' post' Hpre' Hk0) in E.
        rewrite E, Hdocs'.
        rewrite (ramo_at pre' k0 d' post' Hk0 Hpost'), (first_diff_del pre' k0 d' post' Hk0 Hpost').
        rewrite Hpk. apply bson_eq_refl.
    + destruct H' as [v' H]. exact (Hupd u ups v' H).
    + destruct H' as [v' H]. exact (Hupd u ups v' H).
Qed.

(* ---------------------------------------------------------------- one step *)
Lemma c14_step_ok pre5 c o uid fam info nw :
  Inv c -> good uid fam (docs c) ->
  (c14_uses_id o = true -> uid = true) -> (c14_is_fam o = true -> fam = true) ->
  c14_step (mkCtx (docs c) info nw) o
           (snd (step pre5 c o), docs (fst (step pre5 c o)),
            match index_information (fst (step pre5 c o)) with (_, Ok v) => v | _ => VNull end)
  = true.
Proof.
  intros HI HG Hu Hf. unfold c14_step. cbn [x_store].
  destruct (step pre5 c o) as [c' r] eqn:Es. cbn [fst snd].
  destruct r as [v|e]; [|reflexivity]. cbn [is_ok negb].
  destruct o; try reflexivity; simpl in Es.
  - (* update *)
    destruct multi; [reflexivity|].
    unfold update_op in Es. destruct u; try discriminate.
    destruct (first_key_dollar (VDoc fs)) as [[|]|]; try discriminate.
    exact (c14_update_ok pre5 c f (VDoc fs) upsert c' v uid fam HI HG Es).
  - (* replace *)
    unfold replace_op in Es. destruct r; try discriminate.
    destruct (first_key_dollar (VDoc fs)) as [[|]|]; try discriminate;
      exact (c14_update_ok pre5 c f (VDoc fs) upsert c' v uid fam HI HG Es).
  - (* delete *)
    destruct multi; [reflexivity|].
    rewrite (Hu eq_refl) in HG.
    exact (c14_delete_ok c f c' v fam HI HG Es).
  - (* find_one_and_* *)
    rewrite (Hu eq_refl), (Hf eq_refl) in HG.
    exact (c14_fam_ok pre5 c f proj sort k c' v HI HG Es).
Qed.

(* ---------------------------------------------------------------- the history *)
Lemma existsb_negb_false {A} (p : A -> bool) l :
  existsb (fun x => negb (p x)) l = false -> forall x, In x l -> p x = true.
Proof.
  induction l as [| a l IH]; simpl; intros H x []; apply orb_false_iff in H; destruct H as [H1 H2].
  - subst. apply negb_false_iff. exact H1.
  - apply IH; assumption.
Qed.

Lemma c14_trace pre5 uid fam : forall ops c info nw,
  Inv c -> good uid fam (docs c) ->
  existsb c14_ttl_op ops = false ->
  (existsb c14_uses_id ops = true -> uid = true) ->
  (existsb c14_is_fam ops = true -> fam = true) ->
  forallb (goodb uid fam) (obs_entries (model_obs pre5 c ops)) = true ->
  trace_all c14_step (mkCtx (docs c) info nw) ops (model_obs pre5 c ops) = true.
Proof.
  induction ops as [| o ops IH]; intros c info nw HI HG Ht Hu Hf HE; [reflexivity|].
  simpl in Ht. apply orb_false_iff in Ht. destruct Ht as [Ht1 Ht2].
  pose proof (c14_step_ok pre5 c o uid fam info nw HI HG) as Hstep.
  pose proof (step_inv pre5 c o Ht1 HI) as HI'.
  cbn [model_obs] in *. destruct (step pre5 c o) as [c' r]. cbn [fst snd] in *.
  cbn [trace_all]. apply andb_true_iff. split.
  - apply Hstep; intro E; [apply Hu|apply Hf]; simpl; rewrite E; reflexivity.
  - unfold obs_entries in HE. cbn [flat_map fst snd] in HE. rewrite forallb_app in HE.
    apply andb_true_iff in HE. destruct HE as [HE1 HE2].
    apply IH; auto.
    + intro E. apply Hu. simpl. rewrite E. apply orb_true_r.
    + intro E. apply Hf. simpl. rewrite E. apply orb_true_r.
Qed.

Lemma if_sum_zero (a b c d : bool) :
  (if a then 1 else 0) + (if b then 2 else 0) + (if c then 4 else 0) + (if d then 8 else 0) = 0 ->
  a = false /\ b = false /\ c = false /\ d = false.
Proof. destruct a, b, c, d; intro H; try discriminate; auto. Qed.

Theorem C14_history_proof : forall (pre5 : bool) (ops : list op),
  c14_reasons ops (model_obs pre5 empty_coll ops) = 0 ->
  c14_ok ops (model_obs pre5 empty_coll ops) = true.
Proof.
  intros pre5 ops H. unfold c14_reasons in H.
  apply if_sum_zero in H. destruct H as (H1 & H2 & H3 & H4).
  unfold c14_ok, ctx0.
  apply (c14_trace pre5 (existsb c14_uses_id ops) (existsb c14_is_fam ops) ops empty_coll);
    auto using Inv_empty.
  - reflexivity.
  - apply forallb_forall. intros kd Hin. unfold goodb.
    rewrite (existsb_negb_false _ _ H3 kd Hin). simpl.
    apply andb_true_iff. split.
    + destruct (existsb c14_uses_id ops); [|reflexivity]. simpl in *.
      exact (existsb_negb_false _ _ H2 kd Hin).
    + destruct (existsb c14_is_fam ops); [|reflexivity]. simpl in *.
      unfold key_plain_norm.
      rewrite (C14Keys.model_keys_normalised pre5 ops H1 kd Hin), value_eqb_refl.
      exact (existsb_negb_false _ _ H4 kd Hin).
Qed.
