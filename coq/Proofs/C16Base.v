(* C16 -- basic facts: association lists / worlds, patch on documents, insert_all. *)
From Coq Require Import ZArith List String Bool Ascii Lia.
From Verif Require Import Value PyEq BsonOrder Path Update Filter Coll Expr Pipeline AggState.
Import ListNotations.
Open Scope Z_scope.
Open Scope string_scope.
Open Scope list_scope.

(* ------------------------------------------------------------------ association lists *)
Lemma c16_assoc_set_key {A} (k k' : string) (v : A) (l : list (string * A)) :
  assoc k' (set_key k v l) = if k' =? k then Some v else assoc k' l.
Proof.
  induction l as [|[k0 v0] l IH]; simpl.
  - destruct (k' =? k); reflexivity.
  - destruct (k =? k0) eqn:E; simpl.
    + apply String.eqb_eq in E; subst k0. destruct (k' =? k); reflexivity.
    + destruct (k' =? k0) eqn:E2.
      * apply String.eqb_eq in E2; subst k0. rewrite String.eqb_sym, E. reflexivity.
      * exact IH.
Qed.

Lemma coll_docs_set_same t ds w : coll_docs (set_key t ds w) t = ds.
Proof. unfold coll_docs. rewrite c16_assoc_set_key, String.eqb_refl. reflexivity. Qed.

Lemma coll_docs_set_other t n ds w : n <> t -> coll_docs (set_key t ds w) n = coll_docs w n.
Proof.
  intros Hn. unfold coll_docs. rewrite c16_assoc_set_key.
  destruct (n =? t) eqn:E; [apply String.eqb_eq in E; contradiction|reflexivity].
Qed.

Lemma coll_docs_set_other_b t n ds w : (n =? t) = false -> coll_docs (set_key t ds w) n = coll_docs w n.
Proof. intros Hn. apply coll_docs_set_other. intros ->. rewrite String.eqb_refl in Hn. discriminate. Qed.

(* the keys of the world other than the target do not move, and no key disappears *)
Lemma set_key_keys_incl {A} t (ds : A) (w : list (string * A)) n : In n (map fst w) -> In n (map fst (set_key t ds w)).
Proof.
  induction w as [|[k v] w IH]; simpl; [tauto|].
  destruct (t =? k) eqn:E; simpl.
  - apply String.eqb_eq in E. subst k. tauto.
  - intros [H|H]; [left; exact H|right; apply IH; exact H].
Qed.

(* ------------------------------------------------------------------ patch on documents *)
Definition patch_fields (fs : list (string * value)) : list (string * value) :=
  map (fun kv => (fst kv, patch (snd kv))) fs.

Lemma c16_patch_doc fs : patch (VDoc fs) = VDoc (patch_fields fs).
Proof.
  simpl. f_equal. induction fs as [|[k x] fs IH]; [reflexivity|]. simpl. rewrite IH. reflexivity.
Qed.

Lemma assoc_patch_fields k fs : assoc k (patch_fields fs) = option_map patch (assoc k fs).
Proof.
  induction fs as [|[k0 x] fs IH]; [reflexivity|]. simpl. destruct (k =? k0); [reflexivity|exact IH].
Qed.

(* the _id of an output document *)
Definition out_id (d : value) : option value :=
  match d with VDoc fs => assoc "_id" fs | _ => None end.

Lemma out_id_patch d : out_id (patch d) = option_map patch (out_id d).
Proof.
  destruct d as [| | | | |us [m|]| |fs|xs]; try reflexivity.
  rewrite c16_patch_doc. simpl. apply assoc_patch_fields.
Qed.

(* ------------------------------------------------------------------ insert_all *)
(* the duplicate test of insert_all, by name *)
Definition id_clash (i : value) (target : list value) : bool :=
  existsb (fun t => match t with
                    | VDoc tfs => match assoc "_id" tfs with
                                  | Some j => py_eq (patch i) j | None => false end
                    | _ => false end) target.

Lemma id_clash_out_id i target :
  id_clash i target = existsb (fun t => match out_id t with Some j => py_eq (patch i) j | None => false end) target.
Proof.
  unfold id_clash. induction target as [|t target IH]; [reflexivity|]. simpl. rewrite IH.
  destruct t; reflexivity.
Qed.

Lemma insert_all_cons target d docs :
  insert_all target (d :: docs) =
  match out_id d with
  | None => (target, Err EUnmodelled)
  | Some i => if negb (id_modelled i) then (target, Err EUnmodelled)
              else if id_clash i target then (target, Err EBulk)
              else insert_all (target ++ [patch d]) docs
  end.
Proof. destruct d; reflexivity. Qed.

(* a document insert_many can store with the _id it carries *)
Definition storable (d : value) : Prop := exists i, out_id d = Some i /\ id_modelled i = true.

(* b (inserted later) does not collide with a (already stored, patched) *)
Definition no_clash (a b : value) : Prop :=
  forall i j, out_id a = Some i -> out_id b = Some j -> py_eq (patch j) (patch i) = false.

(* b collides with the stored form of a *)
Definition clash (a b : value) : Prop :=
  exists i j, out_id a = Some i /\ out_id b = Some j /\ py_eq (patch j) (patch i) = true.

Definition ids_distinct (l : list value) : Prop := ForallOrdPairs no_clash l.

Lemma id_clash_false i b target :
  out_id b = Some i ->
  (forall t, In t target -> forall j, out_id t = Some j -> py_eq (patch i) j = false) ->
  id_clash i target = false.
Proof.
  intros _ H. rewrite id_clash_out_id.
  induction target as [|t target IH]; [reflexivity|]. simpl.
  rewrite IH by (intros t' Ht'; apply H; right; exact Ht').
  destruct (out_id t) as [j|] eqn:E; [|reflexivity].
  rewrite (H t (or_introl eq_refl) j E). reflexivity.
Qed.

Lemma id_clash_true i target t j :
  In t target -> out_id t = Some j -> py_eq (patch i) j = true -> id_clash i target = true.
Proof.
  intros Hin Hj Heq. rewrite id_clash_out_id. apply existsb_exists. exists t. split; [exact Hin|].
  rewrite Hj. exact Heq.
Qed.

(* stored: the documents already in the target, as values whose out_id is the stored _id *)
Definition stored_no_clash (target : list value) (b : value) : Prop :=
  forall t, In t target -> forall i j, out_id b = Some i -> out_id t = Some j -> py_eq (patch i) j = false.

Lemma insert_all_ok : forall docs target,
  Forall storable docs ->
  Forall (stored_no_clash target) docs ->
  ids_distinct docs ->
  insert_all target docs = (target ++ map patch docs, Ok tt).
Proof.
  induction docs as [|d docs IH]; intros target Hst Hnc Hdis.
  - simpl. rewrite app_nil_r. reflexivity.
  - rewrite insert_all_cons.
    inversion Hst as [|? ? [i [Hi Him]] Hst']; subst.
    inversion Hnc as [|? ? Hnd Hnc']; subst.
    inversion Hdis as [|? ? Hd Hdis']; subst.
    rewrite Hi, Him. simpl negb. cbv iota.
    rewrite (id_clash_false i d target Hi).
    2:{ intros t Ht j Hj. exact (Hnd t Ht i j Hi Hj). }
    rewrite IH; [simpl; rewrite <- app_assoc; reflexivity|exact Hst'| |exact Hdis'].
    rewrite Forall_forall in *. intros b Hb t Ht i' j' Hi' Hj'.
    apply in_app_or in Ht. destruct Ht as [Ht|[Ht|[]]].
    + exact (Hnc' b Hb t Ht i' j' Hi' Hj').
    + subst t. rewrite out_id_patch, Hi in Hj'. simpl in Hj'. injection Hj' as <-.
      exact (Hd b Hb i i' Hi Hi').
Qed.

Lemma insert_all_ok_nil docs :
  Forall storable docs -> ids_distinct docs -> insert_all [] docs = (map patch docs, Ok tt).
Proof.
  intros Hst Hdis. rewrite insert_all_ok; [reflexivity|exact Hst| |exact Hdis].
  apply Forall_forall. intros b _ t [].
Qed.

(* a successful insert_all stored everything *)
Lemma insert_all_Ok_inv : forall docs target stored u,
  insert_all target docs = (stored, Ok u) -> stored = target ++ map patch docs.
Proof.
  induction docs as [|d docs IH]; intros target stored u H.
  - simpl in H. injection H as <- _. rewrite app_nil_r. reflexivity.
  - rewrite insert_all_cons in H.
    destruct (out_id d) as [i|]; [|discriminate H].
    destruct (negb (id_modelled i)); [discriminate H|].
    destruct (id_clash i target); [discriminate H|].
    apply IH in H. rewrite H. simpl. rewrite <- app_assoc. reflexivity.
Qed.

(* ... and its documents were storable and pairwise distinct: the premises of insert_all_ok
   are exactly the success condition *)
Lemma insert_all_Ok_storable : forall docs target stored u,
  insert_all target docs = (stored, Ok u) -> Forall storable docs.
Proof.
  induction docs as [|d docs IH]; intros target stored u H; [constructor|].
  rewrite insert_all_cons in H.
  destruct (out_id d) as [i|] eqn:Hi; [|discriminate H].
  destruct (id_modelled i) eqn:Him; [|discriminate H]. simpl in H.
  destruct (id_clash i target); [discriminate H|].
  constructor; [exists i; split; [exact Hi|exact Him]|eapply IH; exact H].
Qed.

(* whatever happens, the target ends up as the old target plus a prefix of the (patched)
   documents, all of them when the answer is Ok *)
Lemma insert_all_prefix : forall docs target stored r,
  insert_all target docs = (stored, r) ->
  exists pre post, docs = pre ++ post /\ stored = target ++ map patch pre /\
                   (match r with Ok _ => post = [] | Err _ => post <> [] end).
Proof.
  induction docs as [|d docs IH]; intros target stored r H.
  - simpl in H. injection H as <- <-. exists [], []. simpl. rewrite app_nil_r. repeat split.
  - rewrite insert_all_cons in H.
    assert (Hstop : forall e, (target, @Err unit e) = (stored, r) ->
              exists pre post, d :: docs = pre ++ post /\ stored = target ++ map patch pre /\
                   (match r with Ok _ => post = [] | Err _ => post <> [] end)).
    { intros e He. injection He as <- <-. exists [], (d :: docs). simpl. rewrite app_nil_r.
      repeat split. discriminate. }
    destruct (out_id d) as [i|]; [|exact (Hstop _ H)].
    destruct (negb (id_modelled i)); [exact (Hstop _ H)|].
    destruct (id_clash i target); [exact (Hstop _ H)|].
    apply IH in H. destruct H as [pre [post [H1 [H2 H3]]]].
    exists (d :: pre), post. subst docs stored. simpl. rewrite <- app_assoc. repeat split. exact H3.
Qed.

Lemma insert_all_app : forall pre target stored rest,
  insert_all target pre = (stored, Ok tt) ->
  insert_all target (pre ++ rest) = insert_all stored rest.
Proof.
  induction pre as [|d pre IH]; intros target stored rest H.
  - simpl in H. injection H as <-. reflexivity.
  - simpl app. rewrite insert_all_cons in *.
    destruct (out_id d) as [i|]; [|discriminate H].
    destruct (negb (id_modelled i)); [discriminate H|].
    destruct (id_clash i target); [discriminate H|].
    apply IH. exact H.
Qed.

(* the first duplicate: everything before it is stored, the answer is a BulkWriteError *)
Lemma insert_all_dup pre d post a :
  Forall storable pre -> ids_distinct pre ->
  storable d -> In a pre -> clash a d ->
  insert_all [] (pre ++ d :: post) = (map patch pre, Err EBulk).
Proof.
  intros Hst Hdis [i [Hi Him]] Ha [ia [j [Hia [Hj Heq]]]].
  rewrite (insert_all_app pre [] (map patch pre)) by (apply insert_all_ok_nil; assumption).
  rewrite insert_all_cons, Hi, Him. simpl negb. cbv iota.
  rewrite Hj in Hi. injection Hi as ->.
  rewrite (id_clash_true i (map patch pre) (patch a) (patch ia)); [reflexivity| | |exact Heq].
  - apply in_map. exact Ha.
  - rewrite out_id_patch, Hia. reflexivity.
Qed.

(* ------------------------------------------------------------------ deciders for the premises *)
Definition storable_b (d : value) : bool :=
  match out_id d with Some i => id_modelled i | None => false end.

Definition no_clash_b (a b : value) : bool :=
  match out_id a, out_id b with
  | Some i, Some j => negb (py_eq (patch j) (patch i))
  | _, _ => true
  end.

Fixpoint ids_distinct_b (l : list value) : bool :=
  match l with
  | [] => true
  | a :: r => forallb (no_clash_b a) r && ids_distinct_b r
  end.

Lemma storable_b_iff d : storable_b d = true <-> storable d.
Proof.
  unfold storable_b, storable. destruct (out_id d) as [i|]; split.
  - intros H. exists i. split; [reflexivity|exact H].
  - intros [i' [Hi H]]. injection Hi as <-. exact H.
  - discriminate.
  - intros [i' [Hi _]]. discriminate Hi.
Qed.

Lemma no_clash_b_iff a b : no_clash_b a b = true <-> no_clash a b.
Proof.
  unfold no_clash_b, no_clash. split.
  - intros H i j Hi Hj. rewrite Hi, Hj in H. apply negb_true_iff in H. exact H.
  - intros H. destruct (out_id a) as [i|]; [|reflexivity]. destruct (out_id b) as [j|]; [|reflexivity].
    rewrite (H i j eq_refl eq_refl). reflexivity.
Qed.

Lemma storable_all_b l : forallb storable_b l = true <-> Forall storable l.
Proof.
  rewrite forallb_forall, Forall_forall. split; intros H d Hd; apply storable_b_iff, H, Hd.
Qed.

Lemma ids_distinct_b_iff l : ids_distinct_b l = true <-> ids_distinct l.
Proof.
  unfold ids_distinct. induction l as [|a l IH]; simpl.
  - split; [constructor|reflexivity].
  - rewrite andb_true_iff, IH, forallb_forall. split.
    + intros [H1 H2]. constructor; [|exact H2]. apply Forall_forall. intros b Hb.
      apply no_clash_b_iff, H1, Hb.
    + intros H. inversion H as [|? ? H1 H2]; subst. split; [|exact H2].
      intros b Hb. apply no_clash_b_iff. rewrite Forall_forall in H1. exact (H1 b Hb).
Qed.
