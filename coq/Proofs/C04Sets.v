(* C04 proofs, part 7: $setEquals. *)
From Coq Require Import ZArith List String Bool Ascii Lia.
From Verif Require Import Value PyEq BsonOrder Path Update Filter FilterSpec Cursor Expr ExprSpec ExprGuard.
From Verif Require Import C01Values C04Base C04Paths C04Order C04Slice C04Ops C04Lists C04Binders.
Import ListNotations.
Open Scope Z_scope.
Open Scope string_scope.
Open Scope list_scope.


(* ------------------------------------------------------------ $setEquals *)
Definition m_seteq vars doc :=
  fix go (l : list value) (acc : list (list value)) : eres :=
    match l with
    | [] => EV (VBool (all_pairs_eq acc))
    | x :: l' =>
        match eval vars doc true x with
        | EV (VArr vs) => if forallb hashable_scalar vs then go l' (acc ++ [vs]) else EE EType
        | EV VNull | EV (VInt _) | EV (VDbl _) | EV (VBool _) | EV (VDate _ _) | EV (VOid _) => EE EType
        | EV _ => EE EUnmodelled
        | EMiss => EMiss
        | EE er => EE er
        end
    end.

Definition arr_of (v : value) : list value := match v with VArr l => l | _ => [] end.

Lemma eval_seteq vars doc xs :
  eval vars doc true (VDoc [("$setEquals", VArr xs)]) = m_seteq vars doc xs [].
Proof. reflexivity. Qed.

Lemma seval_seteq vars doc xs :
  seval vars doc (VDoc [("$setEquals", VArr xs)]) =
  match xs with
  | _ :: _ :: _ =>
      match svalues (map (seval vars doc) xs) with
      | Some vs =>
          if forallb is_arr vs then
            match map arr_of vs with
            | s :: rest => SV (VBool (forallb (fun t => set_sub s t && set_sub t s) rest))
            | [] => SUndef
            end
          else SErr
      | None => SUndef
      end
  | _ => SUndef
  end.
Proof. destruct xs as [|a [|b xs]]; reflexivity. Qed.

Lemma svalues_cons s ss vs : svalues (s :: ss) = Some vs ->
  exists v vs', s = SV v /\ svalues ss = Some vs' /\ vs = v :: vs'.
Proof.
  simpl. destruct s as [v| | |]; try discriminate.
  destruct (svalues ss) as [vs'|]; [|discriminate]. intros H. inversion H. exists v, vs'. repeat split.
Qed.

Lemma seteq_go vars doc xs : forall acc vs,
  svalues (map (seval (lift vars) doc) xs) = Some vs ->
  (forall x, In x xs -> R (seval (lift vars) doc x) (eval vars doc true x)) ->
  existsb (fun r => match r with EV (VArr ws) => negb (forallb hashable_scalar ws) | _ => false end)
          (map (eval vars doc true) xs) = false ->
  if forallb is_arr vs
  then m_seteq vars doc xs acc = EE EUnmodelled \/
       (m_seteq vars doc xs acc = EV (VBool (all_pairs_eq (acc ++ map arr_of vs))) /\
        map (eval vars doc true) xs = map EV vs)
  else exists er, m_seteq vars doc xs acc = EE er.
Proof.
  induction xs as [|x xs IH]; intros acc vs Hs HR Hh.
  - simpl in Hs. inversion Hs. simpl. right. rewrite app_nil_r. split; reflexivity.
  - change (map (seval (lift vars) doc) (x :: xs)) with (seval (lift vars) doc x :: map (seval (lift vars) doc) xs) in Hs.
    destruct (svalues_cons _ _ _ Hs) as [v [vs' [Hv [Hs' ->]]]].
    simpl in Hh. apply orb_false_iff in Hh. destruct Hh as [Hh1 Hh2].
    pose proof (HR x (or_introl eq_refl)) as Hx. rewrite Hv in Hx.
    assert (HR' : forall y, In y xs -> R (seval (lift vars) doc y) (eval vars doc true y))
      by (intros y Hy; apply HR; right; exact Hy).
    change (m_seteq vars doc (x :: xs) acc) with
      (match eval vars doc true x with
       | EV (VArr ws) => if forallb hashable_scalar ws then m_seteq vars doc xs (acc ++ [ws]) else EE EType
       | EV VNull | EV (VInt _) | EV (VDbl _) | EV (VBool _) | EV (VDate _ _) | EV (VOid _) => EE EType
       | EV _ => EE EUnmodelled
       | EMiss => EMiss
       | EE er => EE er
       end).
    destruct Hx as [Hx|Hx]; rewrite Hx in *.
    + destruct (forallb is_arr (v :: vs')); [left; reflexivity|eexists; reflexivity].
    + destruct v as [| | | | | | | |ws]; simpl; try (eexists; reflexivity).
      simpl in Hh1. apply negb_false_iff in Hh1. rewrite Hh1.
      specialize (IH (acc ++ [ws]) vs' Hs' HR' Hh2).
      destruct (forallb is_arr vs'); [|exact IH].
      rewrite <- app_assoc in IH. destruct IH as [IH|[IH1 IH2]]; [left; exact IH|right].
      split; [exact IH1|]. simpl. rewrite Hx, IH2. reflexivity.
Qed.

(* ---- set equality: Python == on plain hashable scalars is an equivalence *)
Lemma set_sub_trans a b c : forallb hashable_scalar a = true ->
  set_sub a b = true -> set_sub b c = true -> set_sub a c = true.
Proof.
  unfold set_sub. rewrite !forallb_forall. intros Ha H1 H2 x Hx.
  specialize (H1 x Hx). apply existsb_exists in H1. destruct H1 as [y [Hy Hxy]].
  specialize (H2 y Hy). apply existsb_exists in H2. destruct H2 as [z [Hz Hyz]].
  apply existsb_exists. exists z. split; [exact Hz|].
  exact (bson_eq_trans_scalar x y z (Ha x Hx) Hxy Hyz).
Qed.

Definition seteq (a b : list value) : bool := set_sub a b && set_sub b a.

Fixpoint all_pairs_b (sets : list (list value)) : bool :=
  match sets with
  | [] => true
  | s :: rest => forallb (seteq s) rest && all_pairs_b rest
  end.

Lemma all_pairs_from_first s rest :
  forallb hashable_scalar s = true -> forallb (forallb hashable_scalar) rest = true ->
  forallb (seteq s) rest = true -> all_pairs_b rest = true.
Proof.
  intros Hs. induction rest as [|t rest IH]; intros Hh He; [reflexivity|].
  simpl in Hh, He. apply andb_true_iff in Hh, He. destruct Hh as [Ht Hh], He as [Est Her].
  simpl. rewrite (IH Hh Her), andb_true_r.
  unfold seteq in Est. apply andb_true_iff in Est. destruct Est as [Hst Hts].
  apply forallb_forall. intros u Hu.
  pose proof (proj1 (forallb_forall _ _) Her u Hu) as Esu. unfold seteq in Esu.
  apply andb_true_iff in Esu. destruct Esu as [Hsu Hus].
  pose proof (proj1 (forallb_forall _ _) Hh u Hu) as Hhu.
  unfold seteq. apply andb_true_iff. split.
  - exact (set_sub_trans t s u Ht Hts Hsu).
  - exact (set_sub_trans u s t Hhu Hus Hst).
Qed.

Lemma sub_set_plain a b : forallb plain a = true -> forallb plain b = true -> sub_set a b = set_sub a b.
Proof.
  intros Ha Hb. unfold sub_set, set_sub. apply forallb_ext_in. intros x Hx.
  apply py_in_plain; [|exact Hb]. exact (proj1 (forallb_forall _ _) Ha x Hx).
Qed.

Lemma all_pairs_plain sets : forallb (forallb plain) sets = true -> all_pairs_eq sets = all_pairs_b sets.
Proof.
  induction sets as [|s rest IH]; intros Hp; [reflexivity|].
  simpl in Hp. apply andb_true_iff in Hp. destruct Hp as [Hs Hr].
  simpl. rewrite (IH Hr). f_equal. apply forallb_ext_in. intros t Ht.
  pose proof (proj1 (forallb_forall _ _) Hr t Ht) as Hpt. unfold seteq.
  rewrite (sub_set_plain _ _ Hs Hpt), (sub_set_plain _ _ Hpt Hs). reflexivity.
Qed.

Lemma all_pairs_first s rest :
  forallb (forallb plain) (s :: rest) = true -> forallb (forallb hashable_scalar) (s :: rest) = true ->
  all_pairs_eq (s :: rest) = forallb (fun t => set_sub s t && set_sub t s) rest.
Proof.
  intros Hp Hh. rewrite (all_pairs_plain _ Hp). simpl.
  simpl in Hh. apply andb_true_iff in Hh. destruct Hh as [Hs Hr].
  change (forallb (fun t => set_sub s t && set_sub t s) rest) with (forallb (seteq s) rest).
  destruct (forallb (seteq s) rest) eqn:E; [|reflexivity].
  rewrite (all_pairs_from_first s rest Hs Hr E). reflexivity.
Qed.


Lemma sets_plain vs : forallb is_arr vs = true -> forallb plain_res (map EV vs) = true ->
  forallb (forallb plain) (map arr_of vs) = true.
Proof.
  induction vs as [|v vs IH]; intros Ha Hp; [reflexivity|].
  simpl in Ha, Hp. apply andb_true_iff in Ha, Hp. destruct Ha as [Ha1 Ha2], Hp as [Hp1 Hp2].
  simpl. rewrite (IH Ha2 Hp2), andb_true_r.
  destruct v; try discriminate. simpl. rewrite <- plain_arr. exact Hp1.
Qed.

Lemma sets_hashable vs : forallb is_arr vs = true ->
  existsb (fun r => match r with EV (VArr ws) => negb (forallb hashable_scalar ws) | _ => false end) (map EV vs) = false ->
  forallb (forallb hashable_scalar) (map arr_of vs) = true.
Proof.
  induction vs as [|v vs IH]; intros Ha Hp; [reflexivity|].
  simpl in Ha, Hp. apply andb_true_iff in Ha. apply orb_false_iff in Hp. destruct Ha as [Ha1 Ha2], Hp as [Hp1 Hp2].
  simpl. rewrite (IH Ha2 Hp2), andb_true_r.
  destruct v; try discriminate. simpl. apply negb_false_iff in Hp1. exact Hp1.
Qed.

Lemma case_setEquals doc arg : IHarg doc arg -> P doc (VDoc [("$setEquals", arg)]).
Proof.
  intros IH vars Hg. assert (Ho : ordinary "$setEquals") by ord.
  destruct arg as [| | | | | | | |xs]; try (simpl; done_R).
  destruct (guard_list _ _ _ _ Ho Hg) as [Hx Hn].
  rewrite eval_seteq, seval_seteq.
  destruct xs as [|a [|b xs0]]; try done_R. remember (a :: b :: xs0) as xs eqn:Exs.
  replace (match xs with _ :: _ :: _ =>
             match svalues (map (seval (lift vars) doc) xs) with
             | Some vs => if forallb is_arr vs then
                            match map arr_of vs with
                            | s :: rest => SV (VBool (forallb (fun t => set_sub s t && set_sub t s) rest))
                            | [] => SUndef
                            end
                          else SErr
             | None => SUndef
             end
           | _ => SUndef end)
    with (match svalues (map (seval (lift vars) doc) xs) with
          | Some vs => if forallb is_arr vs then
                         match map arr_of vs with
                         | s :: rest => SV (VBool (forallb (fun t => set_sub s t && set_sub t s) rest))
                         | [] => SUndef
                         end
                       else SErr
          | None => SUndef
          end) by (rewrite Exs; reflexivity).
  clear Exs a b xs0.
  destruct (svalues (map (seval (lift vars) doc) xs)) as [vs|] eqn:Es; [|done_R].
  assert (HR : forall x, In x xs -> R (seval (lift vars) doc x) (eval vars doc true x)).
  { intros x Hin. apply IH; [|apply Hx; exact Hin]. apply Nat.lt_le_incl. apply vsize_arr_in. exact Hin. }
  unfold node_reasons in Hn. simpl in Hn. split_guard Hn.
  match goal with H : negb (forallb plain_res _) = false |- _ => apply negb_false_iff in H; rename H into Hplain end.
  match goal with H : existsb _ (map (eval vars doc true) xs) = false |- _ => rename H into Hhash end.
  pose proof (seteq_go vars doc xs [] vs Es HR Hhash) as Hgo.
  destruct (forallb is_arr vs) eqn:Ha.
  - destruct Hgo as [Hm|[Hm Hmap]]; rewrite Hm; [done_R|].
    rewrite Hmap in Hplain, Hhash. simpl.
    pose proof (sets_plain vs Ha Hplain) as Hp. pose proof (sets_hashable vs Ha Hhash) as Hh.
    destruct (map arr_of vs) as [|s rest]; [done_R|].
    rewrite (all_pairs_first s rest Hp Hh). done_R.
  - destruct Hgo as [er Hm]. rewrite Hm. done_R.
Qed.
