(* C02 proofs, part 8: one update / replace step of the collection: the documents that
   changed, and facts about [patch] (the normalisation applied to filters and updates). *)
From Coq Require Import ZArith List String Bool Ascii Lia.
From Verif Require Import Value PyEq BsonOrder Path Filter FilterSpec Update Project Coll
                          HistCheck HistProps ProjectSpec Cursor UpdateLaws.
From Verif.Proofs Require Import C01Values C12Base C02Base C02Frame C02Local C02Ops C02FrameThm C02Store.
From Verif.Proofs Require C02OpLawA C02OpLawB C02OpLaw C02Replace.
Import ListNotations.
Open Scope Z_scope.
Open Scope string_scope.
Open Scope list_scope.

(* ---------------------------------------------------------------- patch *)
Definition patch_fields (fs : list (string * value)) : list (string * value) :=
  map (fun kv => (fst kv, patch (snd kv))) fs.

Lemma patch_doc fs : patch (VDoc fs) = VDoc (patch_fields fs).
Proof.
  cbn [patch]. f_equal. induction fs as [|[k x] fs IH]; [reflexivity|].
  cbn [patch_fields map fst snd] in *. rewrite IH. reflexivity.
Qed.

Lemma patch_arr xs : patch (VArr xs) = VArr (map patch xs).
Proof.
  reflexivity.
Qed.

Lemma floor1000_idem us : floor1000 (floor1000 us) = floor1000 us.
Proof. unfold floor1000. rewrite Z.div_mul by lia. reflexivity. Qed.

Lemma patch_idem : forall v, patch (patch v) = patch v.
Proof.
  induction v as [|b|z|e|s|us tz|n|fs IH|xs IH] using value_ind2; try reflexivity.
  - destruct tz as [m|]; simpl; rewrite floor1000_idem; reflexivity.
  - rewrite !patch_doc. f_equal. unfold patch_fields. rewrite map_map.
    apply map_ext_in. intros kv Hkv. simpl. rewrite Forall_forall in IH.
    rewrite (IH kv Hkv). reflexivity.
  - rewrite !patch_arr. f_equal. rewrite map_map.
    apply map_ext_in. intros x Hx. rewrite Forall_forall in IH. apply IH. exact Hx.
Qed.

Lemma patch_is_str x dst : patch x = VStr dst -> x = VStr dst.
Proof.
  destruct x as [| | | | |us tz| | |]; simpl; intro H; try discriminate; try exact H.
  destruct tz; discriminate.
Qed.

Lemma patch_not_doc x : is_doc x = false -> is_doc (patch x) = false.
Proof. destruct x as [| | | | |us tz| | |]; simpl; try reflexivity; try discriminate. destruct tz; reflexivity. Qed.

Lemma rename_target_patch (x : value) :
  match patch x with VStr dst => [split_dots dst] | _ => [] end
  = match x with VStr dst => [split_dots dst] | _ => [] end.
Proof. destruct x as [| | | | |u t| | |]; try reflexivity. destruct t; reflexivity. Qed.

Lemma key_paths_patch k v : key_paths k (patch v) = key_paths k v.
Proof.
  destruct v as [| | | | |u t| |fields|]; try reflexivity; [destruct t; reflexivity|].
  rewrite patch_doc. unfold key_paths, patch_fields. rewrite flat_map_concat_map, map_map.
  rewrite <- flat_map_concat_map. apply flat_map_ext. intros [p x]. cbn [fst snd]. f_equal.
  destruct (k =? "$rename"); [|reflexivity]. apply rename_target_patch.
Qed.

Lemma addressed_patch u : addressed (patch u) = addressed u.
Proof.
  destruct u as [| | | | |u0 t| |ufs|]; try reflexivity; [destruct t; reflexivity|].
  rewrite patch_doc, !addressed_eq. unfold patch_fields.
  rewrite flat_map_concat_map, map_map, <- flat_map_concat_map.
  apply flat_map_ext. intros [k v]. simpl. apply key_paths_patch.
Qed.

Lemma wf_patch : forall v, wf_value v = true -> wf_value (patch v) = true.
Proof.
  induction v as [|b|z|e|s|us tz|n|fs IH|xs IH] using value_ind2; intro H; try reflexivity.
  - destruct tz; reflexivity.
  - rewrite patch_doc. apply wf_doc_iff in H. destruct H as [Hnd Hall]. apply wf_doc_iff.
    unfold patch_fields. split; [rewrite map_map; simpl; exact Hnd|].
    apply Forall_map. rewrite Forall_forall in *. intros kv Hkv. simpl.
    apply (IH kv Hkv). apply (Hall kv Hkv).
  - rewrite patch_arr. apply wf_arr_iff in H. apply wf_arr_iff. apply Forall_map.
    rewrite Forall_forall in *. intros x Hx. apply (IH x Hx). apply (H x Hx).
Qed.

Lemma first_key_dollar_patch u : first_key_dollar (patch u) = first_key_dollar u.
Proof.
  destruct u as [| | | | |u0 t| |ufs|]; try reflexivity; [destruct t; reflexivity|].
  rewrite patch_doc. destruct ufs as [|[k v] ufs]; reflexivity.
Qed.

Lemma frame_ok_patch u d d' : frame_ok (patch u) d d' = frame_ok u d d'.
Proof. unfold frame_ok. rewrite addressed_patch. reflexivity. Qed.

(* ---------------------------------------------------------------- insert *)
Lemma insert_doc_ok c d c' id :
  no_ttl c -> insert_doc c d = (c', Ok id) ->
  exists data, docs c' = docs c ++ [(id, data)] /\ idx c' = idx c.
Proof.
  intros Httl H. unfold insert_doc in H.
  destruct d as [| | | | | | |fs|]; try pdisc.
  set (t := match assoc "_id" fs with
            | Some i => (c, fs, patch i)
            | None => (mkColl (docs c) (idx c) (forced c) (next_oid c + 1) (now c) (odocs c),
                       fs ++ [("_id", VOid (next_oid c))], VOid (next_oid c))
            end) in *.
  assert (Ht : docs (fst (fst t)) = docs c /\ idx (fst (fst t)) = idx c).
  { unfold t. destruct (assoc "_id" fs); simpl; auto. }
  destruct t as [[c0 fs1] id0]. simpl in Ht. destruct Ht as [Hd0 Hi0].
  assert (Httl0 : no_ttl c0) by (unfold no_ttl; rewrite Hi0; exact Httl).
  destruct (negb (id_modelled id0)); [destruct id0; pdisc|].
  rewrite (expire_no_ttl _ Httl0) in H.
  destruct (store_get id0 (docs c0)); [pdisc|].
  set (c2 := with_docs_w c0 (docs c0 ++ [(id0, patch (VDoc fs1))])) in *.
  assert (Httl2 : no_ttl c2) by exact Httl0.
  destruct (ensure_uniques c2 (patch (VDoc fs1))) as [touched|e].
  - rewrite (expire_if_no_ttl _ _ Httl2) in H. inversion H; subst.
    exists (patch (VDoc fs1)). simpl. rewrite Hd0. split; [reflexivity|exact Hi0].
  - destruct (expire c2); pdisc.
Qed.

(* ---------------------------------------------------------------- update *)
Lemma update_shape pre5 c f u multi upsert c' v :
  keys_distinct (docs c) -> keys_refl (docs c) -> no_ttl c ->
  update pre5 c f u multi upsert = (c', Ok v) ->
  exists t, Forall2 (step_rel (patch f) (patch u) (now c)) (docs c) t /\
            (docs c' = t \/ exists kd, docs c' = t ++ [kd]).
Proof.
  intros Hd Hr Httl H. unfold update in H.
  destruct (patch f) as [| | | | | | |sfs|] eqn:Ef; try pdisc.
  destruct (patch u) as [| | | | | | |ufs|] eqn:Eu; try pdisc.
  destruct (empty_operator pre5 (VDoc ufs)); [pdisc|].
  rewrite (expire_no_ttl _ Httl) in H.
  destruct (match docs c with [] => filter_applies (VDoc sfs) (VDoc []) | _ => Ok true end);
    [|pdisc].
  destruct (update_loop c (VDoc sfs) (VDoc ufs) multi (docs c) 0 0) as [c2 r] eqn:El.
  destruct r as [[matched modified]|e]; [|pdisc].
  destruct (update_loop_rel (VDoc sfs) (VDoc ufs) (now c) multi (docs c) Hd Hr
              (docs c) c 0 0 c2 (matched, modified) El eq_refl Httl
              (Forall2_step_refl _ _ _ _) Hd (fun kd Hkd => conj Hkd Hkd)) as [HR [Hnow Hidx]].
  exists (docs c2). split; [exact HR|].
  destruct (negb upsert || negb (matched =?? 0)); [inversion H; subst; left; reflexivity|].
  set (c3id := match match assoc "_id" sfs with
                     | Some i => if is_null i then None else Some i | None => None end with
               | Some i => (c2, i)
               | None => match match assoc "_id" ufs with
                               | Some i => if is_null i then None else Some i | None => None end with
                         | Some j => (c2, j)
                         | None => (mkColl (docs c2) (idx c2) (forced c2) (next_oid c2 + 1) (now c2)
                                           (odocs c2), VOid (next_oid c2))
                         end
               end) in *.
  assert (H3 : docs (fst c3id) = docs c2 /\ idx (fst c3id) = idx c2).
  { unfold c3id. destruct (match assoc "_id" sfs with Some i => _ | None => None end);
      [simpl; auto|]. destruct (match assoc "_id" ufs with Some i => _ | None => None end);
      simpl; auto. }
  destruct c3id as [c3 id]. simpl in H3. destruct H3 as [Hd3 Hi3].
  destruct (expand_dots (set_key "_id" id sfs)) as [expanded|e]; [|pdisc].
  destruct (apply_update (VDoc sfs) (VDoc ufs) true (now c3) _) as [d'|e]; [|pdisc].
  destruct (insert_doc c3 d') as [c4 ir] eqn:Ei.
  destruct ir as [new_id|e]; [|pdisc].
  inversion H; subst. simpl.
  assert (Httl3 : no_ttl c3) by (unfold no_ttl; rewrite Hi3, Hidx; exact Httl).
  destruct (insert_doc_ok _ _ _ _ Httl3 Ei) as [data [Hd4 _]].
  right. exists (new_id, data). rewrite Hd4, Hd3. reflexivity.
Qed.

Lemma Forall2_In_l {A B} (R : A -> B -> Prop) l m a :
  Forall2 R l m -> In a l -> exists b, In b m /\ R a b.
Proof.
  induction 1 as [|x y l m Hxy _ IH]; intro Hin; [contradiction|].
  destruct Hin as [->|Hin]; [exists y; split; [left; reflexivity|exact Hxy]|].
  destruct (IH Hin) as [b [Hb HR]]. exists b. split; [right; exact Hb|exact HR].
Qed.

(* every changed document was selected by the filter, is apply_update of its predecessor and
   still has an _id *)
Lemma changed_pairs_shape spec upd nw s t after :
  keys_distinct s -> keys_refl s ->
  Forall2 (step_rel spec upd nw) s t ->
  (after = t \/ exists kd, after = t ++ [kd]) ->
  forall dd, In dd (changed_pairs s after) ->
    (exists k, In (k, fst dd) s) /\
    filter_applies spec (fst dd) = Ok true /\
    apply_update spec upd false nw (fst dd) = Ok (snd dd) /\
    doc_id (snd dd) <> None.
Proof.
  intros Hd Hr HR Hafter dd Hin. unfold changed_pairs in Hin.
  apply in_flat_map in Hin. destruct Hin as [[k d] [Hkd Hdd]]. simpl in Hdd.
  destruct (Forall2_In_l _ _ _ _ HR Hkd) as [[k' d'] [Hin' [Hk Hrel]]]. simpl in Hk, Hrel. subst k'.
  pose proof (Forall2_step_keys _ _ _ _ _ HR) as Hkeys.
  assert (Hg : store_get k t = Some d').
  { apply store_get_in; [eapply keys_distinct_map; eassumption
                        | eapply keys_refl_map; eassumption | exact Hin']. }
  assert (Hg' : store_get k after = Some d').
  { destruct Hafter as [->|[kd ->]]; [exact Hg | apply store_get_app; exact Hg]. }
  rewrite Hg' in Hdd. destruct (value_eqb d d') eqn:Ev; [contradiction|].
  destruct Hdd as [<-|[]]. simpl. split; [exists k; exact Hkd|].
  destruct Hrel as [->|Hrel]; [rewrite value_eqb_refl in Ev; discriminate | exact Hrel].
Qed.

(* the state invariant of the history theorem *)
Record Inv (c : coll) : Prop := mkInv {
  inv_keys : keys_distinct (docs c);
  inv_refl : keys_refl (docs c);
  inv_nottl : no_ttl c;
  inv_wf : forall k d, In (k, d) (docs c) -> wf_value d = true;
  inv_patched : forall k d, In (k, d) (docs c) -> patch d = d
}.

Definition pair_facts (c : coll) (f u : value) (dd : value * value) : Prop :=
  (exists k, In (k, fst dd) (docs c)) /\
  matched f (fst dd) = true /\
  apply_update (patch f) (patch u) false (now c) (fst dd) = Ok (snd dd) /\
  doc_id (snd dd) <> None.

(* ---- the changed documents of an update_one / update_many step *)
Lemma update_op_pairs pre5 c f u multi upsert c' v :
  Inv c -> update_op pre5 c f u multi upsert = (c', Ok v) ->
  first_key_dollar u = Some true /\
  forall dd, In dd (changed_pairs (docs c) (docs c')) -> pair_facts c f u dd.
Proof.
  intros [Hd Hr Httl _ _] H. unfold update_op in H.
  destruct u as [| | | | | | |ufs|]; try pdisc.
  destruct (first_key_dollar (VDoc ufs)) as [[|]|] eqn:Ek; try pdisc.
  split; [reflexivity|].
  destruct (update_shape _ _ _ _ _ _ _ _ Hd Hr Httl H) as [t [HR Hafter]].
  intros dd Hdd.
  destruct (changed_pairs_shape _ _ _ _ _ _ Hd Hr HR Hafter dd Hdd) as [A [B [C D]]].
  unfold pair_facts, matched. rewrite B. auto.
Qed.

Lemma replace_op_pairs pre5 c f r upsert c' v :
  Inv c -> replace_op pre5 c f r upsert = (c', Ok v) ->
  first_key_dollar r <> Some true /\ is_doc r = true /\
  forall dd, In dd (changed_pairs (docs c) (docs c')) -> pair_facts c f r dd.
Proof.
  intros [Hd Hr Httl _ _] H. unfold replace_op in H.
  destruct r as [| | | | | | |rfs|]; try pdisc.
  assert (Hgen : update pre5 c f (VDoc rfs) false upsert = (c', Ok v) ->
                 forall dd, In dd (changed_pairs (docs c) (docs c')) -> pair_facts c f (VDoc rfs) dd).
  { intros H' dd Hdd.
    destruct (update_shape _ _ _ _ _ _ _ _ Hd Hr Httl H') as [t [HR Hafter]].
    destruct (changed_pairs_shape _ _ _ _ _ _ Hd Hr HR Hafter dd Hdd) as [A [B [C D]]].
    unfold pair_facts, matched. rewrite B. auto. }
  destruct (first_key_dollar (VDoc rfs)) as [[|]|] eqn:Ek; try pdisc.
  - split; [discriminate|]. split; [reflexivity|]. apply Hgen. exact H.
  - split; [discriminate|]. split; [reflexivity|]. apply Hgen. exact H.
Qed.

(* ---- the frame part of c02_step for an update step *)
Lemma pair_frame c f u dd :
  Inv c -> wf_value u = true -> first_key_dollar u = Some true ->
  collide (addressed u) = false -> canon_paths u = true ->
  fits_all u (fst dd) = true ->
  pair_facts c f u dd -> frame_ok u (fst dd) (snd dd) = true.
Proof.
  intros HI Hu Hfirst Hcol Hcan Hfit [[k Hk] [_ [Ha _]]].
  rewrite <- frame_ok_patch.
  eapply frame_sound; [| | | | | |exact Ha].
  - rewrite first_key_dollar_patch. exact Hfirst.
  - apply wf_patch. exact Hu.
  - eapply inv_wf; eassumption.
  - rewrite addressed_patch. exact Hcol.
  - unfold canon_paths in *. rewrite addressed_patch. exact Hcan.
  - unfold fits_all in *. rewrite addressed_patch. exact Hfit.
Qed.

(* ---- the operator-law part: the law is stated on the raw operand, the model runs on the
   normalised one *)
Import C02OpLawA C02OpLawB.

Lemma patch_numeric a : (exists z, patch a = VInt z) \/ (exists e, patch a = VDbl e) -> patch a = a.
Proof.
  destruct a as [| | | | |us0 t0| | |]; simpl; intros [[z' H]|[e' H]]; try discriminate; try reflexivity;
    destruct t0; discriminate.
Qed.

Lemma inc_arg_numeric spec p a now d d' :
  law_pre p d = true ->
  apply_update spec (VDoc [("$inc", VDoc [(p, a)])]) false now d = Ok d' ->
  (exists z, a = VInt z) \/ (exists e, a = VDbl e).
Proof.
  intros Hpre Hupd. apply law_pre_ok in Hpre.
  pose proof (split_dots_nonnil p) as Hne.
  apply (upd_fields _ _ UInc) in Hupd; [|reflexivity].
  destruct (walk_parent UInc now a ltac:(discriminate) _ _ _ Hne Hpre Hupd) as [r [Hr _]].
  unfold apply_updater in Hr. bind_inv Hr s Hs.
  destruct (match assoc (lst (split_dots p)) (pfs (split_dots p) d) with
            | Some x => x | None => VInt 0 end), a; simpl in Hs; try discriminate; eauto.
Qed.

Lemma op_law_patch_arg spec op p arg now d d' b :
  apply_update spec (VDoc [(op, VDoc [(p, patch arg)])]) false now d = Ok d' ->
  op_law op p arg now d d' = Some b ->
  op_law op p (patch arg) now d d' = Some b.
Proof.
  intros Hupd Hlaw.
  pose proof (law_names _ _ _ _ _ _ _ Hlaw) as Hin. simpl in Hin.
  destruct Hin as [<-|[<-|[<-|[<-|[<-|[<-|[<-|[<-|[<-|[<-|[<-|[]]]]]]]]]]]].
  - rewrite law_set in *. rewrite patch_idem. exact Hlaw.
  - rewrite law_unset in *. exact Hlaw.
  - rewrite law_inc in *. destruct (law_pre p d) eqn:Hpre; [|discriminate].
    assert (Hp : patch arg = arg).
    { apply patch_numeric. destruct (inc_arg_numeric _ _ _ _ _ _ Hpre Hupd) as [[z E]|[e E]];
        [left; exists z|right; exists e]; exact E. }
    rewrite Hp. exact Hlaw.
  - rewrite law_min in *. rewrite patch_idem. exact Hlaw.
  - rewrite law_max in *. rewrite patch_idem. exact Hlaw.
  - rewrite law_pop in *. destruct (law_pre p d); [|discriminate].
    destruct arg as [| |z| | |us0 t0| | |]; try exact Hlaw;
      try (destruct (at_path p d) as [[]|]; discriminate).
  - rewrite law_push in *. rewrite patch_idem. exact Hlaw.
  - rewrite law_addToSet in *. rewrite patch_idem. exact Hlaw.
  - rewrite law_pullAll in *. rewrite patch_idem. exact Hlaw.
  - rewrite law_pull in *. rewrite patch_idem. exact Hlaw.
  - rewrite law_currentDate in *. exact Hlaw.
Qed.

Lemma minmax_cross_field_patch p arg d :
  minmax_cross_field p (patch arg) d = minmax_cross_field p arg d.
Proof. unfold minmax_cross_field. rewrite patch_idem. reflexivity. Qed.

Lemma pair_op_law c f op p arg dd b :
  Inv c ->
  minmax_cross (VDoc [(op, VDoc [(p, arg)])]) (fst dd) = false ->
  addtoset_cross (VDoc [(op, VDoc [(p, arg)])]) (fst dd) = false ->
  pair_facts c f (VDoc [(op, VDoc [(p, arg)])]) dd ->
  op_law op p arg (now c) (fst dd) (snd dd) = Some b -> b = true.
Proof.
  intros HI Hmm Hats [[k Hk] [_ [Ha _]]] Hlaw.
  assert (Hpu : patch (VDoc [(op, VDoc [(p, arg)])]) = VDoc [(op, VDoc [(p, patch arg)])])
    by reflexivity.
  rewrite Hpu in Ha.
  pose proof (op_law_patch_arg _ _ _ _ _ _ _ _ Ha Hlaw) as Hlaw'.
  eapply (C02OpLaw.op_law_sound_patched (patch f) op p (patch arg) (now c) (fst dd) (snd dd) b).
  - apply patch_idem.
  - eapply inv_patched; eassumption.
  - eapply inv_wf; eassumption.
  - rewrite minmax_cross_field_patch. unfold minmax_cross in Hmm. cbn [existsb fst snd] in Hmm.
    rewrite !orb_false_r in Hmm. exact Hmm.
  - unfold addtoset_cross in Hats. cbn [existsb fst snd] in Hats. rewrite !orb_false_r in Hats.
    exact Hats.
  - exact Ha.
  - exact Hlaw'.
Qed.

(* ---- c02_step of an update step *)
Theorem c02_step_update pre5 c f u multi upsert c' r i i' :
  Inv c -> wf_value u = true ->
  collide (addressed u) = false -> canon_paths u = true ->
  (forall k d, In (k, d) (docs c) -> matched f d = true ->
               fits_all u d = true /\ minmax_cross u d = false /\ addtoset_cross u d = false) ->
  step pre5 c (OUpdate f u multi upsert) = (c', r) ->
  c02_step (mkCtx (docs c) i (now c)) (OUpdate f u multi upsert) (r, docs c', i') = true.
Proof.
  intros HI Hu Hcol Hcan Hg Hstep. simpl in Hstep. unfold c02_step.
  destruct r as [v|e]; [|reflexivity]. cbn [x_store x_now].
  destruct (update_op_pairs _ _ _ _ _ _ _ _ HI Hstep) as [Hfirst Hp].
  apply forallb_forall. intros dd Hdd. pose proof (Hp dd Hdd) as Hf.
  destruct Hf as [[k Hk] [Hm Hrest]].
  destruct (Hg k (fst dd) Hk Hm) as [Hfit [Hmm Hats]].
  apply andb_true_iff. split.
  - eapply (pair_frame c f); try eassumption. split; [exists k; exact Hk|]. split; assumption.
  - destruct (single_op u) as [[[op p] arg]|] eqn:Es; [|reflexivity].
    destruct (op_law op p arg (now c) (fst dd) (snd dd)) as [b|] eqn:El; [|reflexivity].
    assert (Eu : u = VDoc [(op, VDoc [(p, arg)])]).
    { clear - Es. unfold single_op in Es.
      destruct u as [| | | | | | |ufs|]; try discriminate.
      destruct ufs as [|[op0 v0] ufs']; try discriminate.
      destruct v0 as [| | | | | | |fl|]; try discriminate.
      destruct fl as [|[p0 a0] fl']; try discriminate.
      destruct fl'; try discriminate.
      destruct ufs'; try discriminate.
      inversion Es; subst. reflexivity. }
    subst u. eapply (pair_op_law c f); [exact HI | exact Hmm | exact Hats | | exact El].
    split; [exists k; exact Hk|]. split; assumption.
Qed.

(* ---- c02_step of a replace step *)
Lemma replace_law_patch r d d' : replace_law (patch r) d d' = replace_law r d d'.
Proof. unfold replace_law. rewrite patch_idem. reflexivity. Qed.

Lemma replace_no_dollar spec k v rest now d d' :
  starts_dollar k = false ->
  apply_update spec (VDoc ((k, v) :: rest)) false now d = Ok d' ->
  forallb (fun kv => negb (starts_dollar (fst kv))) ((k, v) :: rest) = true.
Proof.
  intros Hk H. unfold apply_update, apply_update_keys in H. bind_inv H r0 Hr0.
  rewrite (C02Replace.apply_update_key_replace _ _ _ _ _ _ Hk) in Hr0.
  destruct (existsb (fun kv => starts_dollar (fst kv)) ((k, v) :: rest)) eqn:E; [discriminate|].
  rewrite forallb_negb_existsb. rewrite E. reflexivity.
Qed.

Lemma replace_empty_law spec now d d' :
  replace_id_risk spec (VDoc []) d = false -> doc_id d' <> None ->
  apply_update spec (VDoc []) false now d = Ok d' -> replace_law (VDoc []) d d' = true.
Proof.
  intros _ Hid H. simpl in H. inversion H as [Hd']. clear H.
  unfold replace_law. cbn [patch].
  destruct d as [| | | | | | |dfs|]; try (subst d'; simpl in Hid; congruence).
  destruct (assoc "_id" dfs) as [i|] eqn:Eid; [|subst d'; simpl in Hid; congruence].
  destruct (is_null i) eqn:En; [subst d'; simpl in Hid; congruence|].
  subst d'. cbn [forallb andb]. simpl. rewrite Eid. simpl. apply value_eqb_refl.
Qed.

Theorem c02_step_replace pre5 c f r upsert c' rr i i' :
  Inv c -> wf_value r = true ->
  (forall k d, In (k, d) (docs c) -> matched f d = true ->
               replace_id_risk (patch f) (patch r) d = false) ->
  step pre5 c (OReplace f r upsert) = (c', rr) ->
  c02_step (mkCtx (docs c) i (now c)) (OReplace f r upsert) (rr, docs c', i') = true.
Proof.
  intros HI Hr Hg Hstep. simpl in Hstep. unfold c02_step.
  destruct rr as [v|e]; [|reflexivity]. cbn [x_store x_now].
  destruct (replace_op_pairs _ _ _ _ _ _ _ HI Hstep) as [Hfirst [Hdoc Hp]].
  apply forallb_forall. intros dd Hdd.
  destruct (Hp dd Hdd) as [[k Hk] [Hm [Ha Hid]]].
  pose proof (Hg k (fst dd) Hk Hm) as Hrisk.
  rewrite <- replace_law_patch.
  destruct r as [| | | | | | |rfs|]; try discriminate.
  destruct rfs as [|[k0 v0] rest].
  - change (patch (VDoc [])) with (VDoc []) in *. eapply replace_empty_law; eassumption.
  - assert (Hk0 : starts_dollar k0 = false).
    { simpl in Hfirst. destruct (starts_dollar k0); [congruence|reflexivity]. }
    eapply C02Replace.replace_law_sound; [| | |exact Hrisk|intros _; exact Hid|exact Ha].
    + apply patch_idem.
    + apply wf_patch. exact Hr.
    + rewrite patch_doc in *. cbn [patch_fields map fst snd] in *.
      eexists. split; [reflexivity|]. split; [discriminate|].
      eapply replace_no_dollar; [exact Hk0 | exact Ha].
Qed.
