(* C12 proofs, part 1: association lists, dotted names, path lists. *)
From Coq Require Import ZArith List String Bool Ascii Lia.
From Verif Require Import Value PyEq BsonOrder Path Filter Update Project Coll ProjectSpec.
From Verif.Proofs Require Import C01Values.
Import ListNotations.
Open Scope Z_scope.
Open Scope string_scope.
Open Scope list_scope.

(* ---------------------------------------------------------------- strings *)
Lemma eqb_neq_sym (a b : string) : (a =? b) = false -> (b =? a) = false.
Proof. rewrite String.eqb_sym. exact (fun H => H). Qed.

Lemma mem_str_In s l : mem_str s l = true <-> In s l.
Proof.
  induction l as [|x l IH]; simpl; [split; [discriminate|contradiction]|].
  rewrite orb_true_iff, IH, String.eqb_eq. split; intros [H|H]; auto.
Qed.

Lemma mem_str_false s l : mem_str s l = false <-> ~ In s l.
Proof.
  rewrite <- mem_str_In. destruct (mem_str s l); split; intro H; try reflexivity; try discriminate.
  exfalso. apply H. reflexivity.
Qed.

Lemma nodup_str_NoDup l : nodup_str l = true <-> NoDup l.
Proof.
  induction l as [|x l IH]; simpl; [split; [constructor|reflexivity]|].
  rewrite andb_true_iff, negb_true_iff, mem_str_false, IH. split.
  - intros [H1 H2]. constructor; assumption.
  - intro H. inversion H; subst. split; assumption.
Qed.

(* ---------------------------------------------------------------- structural equality *)
Lemma value_eqb_refl : forall v, value_eqb v v = true.
Proof.
  induction v as [|b|z|e|s|us tz|n|fs IH|xs IH] using value_ind2; simpl;
    try reflexivity; try apply Z.eqb_refl.
  - destruct b; reflexivity.
  - apply String.eqb_refl.
  - rewrite Z.eqb_refl. destruct tz as [m|]; simpl; [apply Z.eqb_refl|reflexivity].
  - induction IH as [|[k v] fs Hv _ IH2]; [reflexivity|].
    simpl in Hv. rewrite String.eqb_refl, Hv, IH2. reflexivity.
  - induction IH as [|x xs Hx _ IH2]; [reflexivity|]. rewrite Hx, IH2. reflexivity.
Qed.

(* ---------------------------------------------------------------- association lists *)
Section Assoc.
  Context {A : Type}.
  Implicit Types (l : list (string * A)).

  Lemma assoc_None_notin k l : assoc k l = None <-> ~ In k (map fst l).
  Proof.
    induction l as [|[k' v] l IH]; simpl; [tauto|].
    destruct (k =? k') eqn:E.
    - apply String.eqb_eq in E. subst. split; [discriminate|]. intro H. exfalso. apply H. left. reflexivity.
    - apply String.eqb_neq in E. rewrite IH. split.
      + intros H [H1|H1]; [apply E; symmetry; exact H1 | exact (H H1)].
      + intros H H1. apply H. right. exact H1.
  Qed.

  Lemma assoc_Some_in k l v : assoc k l = Some v -> In (k, v) l.
  Proof.
    induction l as [|[k' v'] l IH]; simpl; [discriminate|].
    destruct (k =? k') eqn:E.
    - apply String.eqb_eq in E. subst. intro H. inversion H. left. reflexivity.
    - intro H. right. apply IH. exact H.
  Qed.

  Lemma assoc_Some_key k l v : assoc k l = Some v -> In k (map fst l).
  Proof. intro H. apply assoc_Some_in in H. apply (in_map fst) in H. exact H. Qed.

  Lemma in_assoc k v l : NoDup (map fst l) -> In (k, v) l -> assoc k l = Some v.
  Proof.
    induction l as [|[k' v'] l IH]; simpl; [contradiction|].
    intros Hnd [H|H].
    - inversion H; subst. rewrite String.eqb_refl. reflexivity.
    - inversion Hnd as [|? ? Hni Hnd']; subst.
      destruct (k =? k') eqn:E.
      + apply String.eqb_eq in E. subst. exfalso. apply Hni.
        apply (in_map fst) in H. exact H.
      + apply IH; assumption.
  Qed.

  Lemma has_key_assoc k l : has_key k l = false <-> assoc k l = None.
  Proof.
    induction l as [|[k' v] l IH]; simpl; [tauto|].
    destruct (k =? k'); simpl; [split; discriminate | exact IH].
  Qed.

  Lemma assoc_set_key k k' v l :
    assoc k (set_key k' v l) = if k =? k' then Some v else assoc k l.
  Proof.
    induction l as [|[k2 v2] l IH]; simpl.
    - destruct (k =? k'); reflexivity.
    - destruct (k' =? k2) eqn:E2; simpl.
      + apply String.eqb_eq in E2. subst k2. destruct (k =? k'); reflexivity.
      + destruct (k =? k2) eqn:E3.
        * apply String.eqb_eq in E3. subst k2. rewrite (eqb_neq_sym _ _ E2). reflexivity.
        * exact IH.
  Qed.

  Lemma keys_set_key_in k' v l k :
    In k (map fst (set_key k' v l)) <-> k = k' \/ In k (map fst l).
  Proof.
    induction l as [|[k2 v2] l IH]; simpl.
    - intuition congruence.
    - destruct (k' =? k2) eqn:E2; simpl.
      + apply String.eqb_eq in E2. subst k2. intuition congruence.
      + rewrite IH. intuition congruence.
  Qed.

  Lemma NoDup_set_key k v l : NoDup (map fst l) -> NoDup (map fst (set_key k v l)).
  Proof.
    induction l as [|[k2 v2] l IH]; simpl; intro H.
    - constructor; [intros []|constructor].
    - inversion H as [|? ? Hni Hnd]; subst.
      destruct (k =? k2) eqn:E2; simpl.
      + apply String.eqb_eq in E2. subst k2. constructor; assumption.
      + constructor; [|apply IH; exact Hnd].
        rewrite keys_set_key_in. intros [H1|H1]; [|exact (Hni H1)].
        subst k2. rewrite String.eqb_refl in E2. discriminate.
  Qed.

  Lemma set_key_absent k v l : assoc k l = None -> set_key k v l = l ++ [(k, v)].
  Proof.
    induction l as [|[k2 v2] l IH]; simpl; [reflexivity|].
    destruct (k =? k2); [discriminate|]. intro H. rewrite IH; auto.
  Qed.

  Lemma keys_del_key_in k' l k : In k (map fst (del_key k' l)) -> In k (map fst l).
  Proof.
    induction l as [|[k2 v2] l IH]; simpl; [tauto|].
    destruct (k' =? k2); simpl; [auto|]. intros [H|H]; auto.
  Qed.

  Lemma NoDup_del_key k l : NoDup (map fst l) -> NoDup (map fst (del_key k l)).
  Proof.
    induction l as [|[k2 v2] l IH]; simpl; intro H; [constructor|].
    inversion H as [|? ? Hni Hnd]; subst.
    destruct (k =? k2); simpl; [exact Hnd|].
    constructor; [|apply IH; exact Hnd]. intro H1. apply Hni. eapply keys_del_key_in. exact H1.
  Qed.

  Lemma assoc_del_key k k' l :
    NoDup (map fst l) -> assoc k (del_key k' l) = if k =? k' then None else assoc k l.
  Proof.
    induction l as [|[k2 v2] l IH]; simpl; intro H.
    - destruct (k =? k'); reflexivity.
    - inversion H as [|? ? Hni Hnd]; subst.
      destruct (k' =? k2) eqn:E2; simpl.
      + apply String.eqb_eq in E2. subst k2. destruct (k =? k') eqn:E.
        * apply String.eqb_eq in E. subst k'. apply assoc_None_notin. exact Hni.
        * reflexivity.
      + destruct (k =? k2) eqn:E3.
        * apply String.eqb_eq in E3. subst k2. rewrite (eqb_neq_sym _ _ E2). reflexivity.
        * apply IH. exact Hnd.
  Qed.

  Lemma del_key_absent k l : assoc k l = None -> del_key k l = l.
  Proof.
    induction l as [|[k2 v2] l IH]; simpl; [reflexivity|].
    destruct (k =? k2); [discriminate|]. intro H. rewrite IH; auto.
  Qed.
End Assoc.

(* fields produced one by one from an option-valued function *)
Definition opt_fields (g : string -> value -> option value) (fs : list (string * value))
  : list (string * value) :=
  flat_map (fun kv => match g (fst kv) (snd kv) with Some w => [(fst kv, w)] | None => [] end) fs.

Lemma opt_fields_keys g fs k : In k (map fst (opt_fields g fs)) -> In k (map fst fs).
Proof.
  induction fs as [|[k0 x0] fs IH]; simpl; [tauto|].
  unfold opt_fields in *. simpl. destruct (g k0 x0); simpl; intros H.
  - destruct H as [H|H]; auto.
  - auto.
Qed.

Lemma opt_fields_NoDup g fs : NoDup (map fst fs) -> NoDup (map fst (opt_fields g fs)).
Proof.
  induction fs as [|[k0 x0] fs IH]; simpl; intro H; [constructor|].
  inversion H as [|? ? Hni Hnd]; subst. unfold opt_fields in *. simpl.
  destruct (g k0 x0); simpl; [|apply IH; exact Hnd].
  constructor; [|apply IH; exact Hnd]. intro H1. apply Hni. eapply opt_fields_keys. exact H1.
Qed.

Lemma opt_fields_assoc g fs k :
  NoDup (map fst fs) ->
  assoc k (opt_fields g fs) = match assoc k fs with Some x => g k x | None => None end.
Proof.
  induction fs as [|[k0 x0] fs IH]; simpl; intro H; [reflexivity|].
  inversion H as [|? ? Hni Hnd]; subst. unfold opt_fields in *. simpl.
  destruct (k =? k0) eqn:E.
  - apply String.eqb_eq in E. subst k0. destruct (g k x0) eqn:G; simpl.
    + rewrite String.eqb_refl. reflexivity.
    + rewrite IH by exact Hnd. apply assoc_None_notin in Hni. rewrite Hni. reflexivity.
  - destruct (g k0 x0); simpl; [rewrite E|]; apply IH; exact Hnd.
Qed.

(* two duplicate-free field lists with the same lookups are equal up to order *)
Lemma doc_eq_top_assoc a b :
  NoDup (map fst a) -> NoDup (map fst b) -> (forall k, assoc k a = assoc k b) ->
  doc_eq_top (VDoc a) (VDoc b) = true.
Proof.
  intros Ha Hb H. unfold doc_eq_top. apply andb_true_iff. split.
  - apply Nat.eqb_eq. rewrite <- (map_length fst a), <- (map_length fst b).
    apply Nat.le_antisymm; apply NoDup_incl_length; try assumption.
    + intros k Hk. destruct (assoc k b) eqn:E; [eapply assoc_Some_key; exact E|].
      rewrite <- H in E. apply assoc_None_notin in E. contradiction.
    + intros k Hk. destruct (assoc k a) eqn:E; [eapply assoc_Some_key; exact E|].
      rewrite H in E. apply assoc_None_notin in E. contradiction.
  - apply forallb_forall. intros [k v] Hin. simpl.
    rewrite <- H, (in_assoc k v a Ha Hin). apply value_eqb_refl.
Qed.

(* ---------------------------------------------------------------- dotted names *)
Lemma split_dots_aux_nonnil s : forall cur, split_dots_aux s cur <> [].
Proof.
  induction s as [|c s IH]; intros cur; simpl; [discriminate|].
  destruct (Ascii.eqb c "."); [discriminate|apply IH].
Qed.

Lemma split_dots_nonnil s : split_dots s <> [].
Proof. apply split_dots_aux_nonnil. Qed.

Lemma append_assoc_s (a b c : string) : ((a ++ b) ++ c = a ++ (b ++ c))%string.
Proof. induction a as [|x a IH]; simpl; [reflexivity|]. rewrite IH. reflexivity. Qed.

Lemma append_nil_r (a : string) : (a ++ "" = a)%string.
Proof. induction a as [|x a IH]; simpl; [reflexivity|]. rewrite IH. reflexivity. Qed.

Lemma split_dots_aux_single s : forall cur x, split_dots_aux s cur = [x] -> x = (cur ++ s)%string.
Proof.
  induction s as [|c s IH]; intros cur x; simpl.
  - intro H. inversion H. symmetry. apply append_nil_r.
  - destruct (Ascii.eqb c ".").
    + intro H. inversion H as [[H1 H2]]. exfalso. exact (split_dots_aux_nonnil _ _ H2).
    + intro H. apply IH in H. rewrite H, append_assoc_s. reflexivity.
Qed.

Lemma split_dots_single s x : split_dots s = [x] -> x = s.
Proof. intro H. apply split_dots_aux_single in H. exact H. Qed.

Lemma has_dot_app a b : has_dot (a ++ b)%string = has_dot a || has_dot b.
Proof.
  unfold has_dot. induction a as [|x a IH]; simpl; [reflexivity|].
  rewrite IH. apply orb_assoc.
Qed.

Lemma split_dots_aux_dotfree s : forall cur,
  has_dot cur = false -> Forall (fun x => has_dot x = false) (split_dots_aux s cur).
Proof.
  induction s as [|c s IH]; intros cur Hc; simpl.
  - constructor; [exact Hc|constructor].
  - destruct (Ascii.eqb c ".") eqn:E.
    + constructor; [exact Hc|]. apply IH. reflexivity.
    + apply IH. rewrite has_dot_app, Hc. unfold has_dot. simpl. rewrite E. reflexivity.
Qed.

Lemma split_dots_dotfree s : Forall (fun x => has_dot x = false) (split_dots s).
Proof. apply split_dots_aux_dotfree. reflexivity. Qed.

(* a dot-free prefix is absorbed into the current part *)
Lemma split_dots_aux_prefix x : forall s cur,
  has_dot x = false -> split_dots_aux (x ++ s)%string cur = split_dots_aux s (cur ++ x)%string.
Proof.
  induction x as [|c x IH]; intros s cur H; simpl.
  - rewrite append_nil_r. reflexivity.
  - unfold has_dot in H. simpl in H. apply orb_false_iff in H. destruct H as [H1 H2].
    rewrite H1. rewrite IH by exact H2. rewrite append_assoc_s. reflexivity.
Qed.

Lemma split_join l :
  l <> [] -> Forall (fun x => has_dot x = false) l -> split_dots (join_dots l) = l.
Proof.
  induction l as [|x l IH]; intros Hne Hf; [contradiction|].
  inversion Hf as [|? ? Hx Hl]; subst.
  destruct l as [|y l].
  - simpl. unfold split_dots. rewrite <- (append_nil_r x) at 1.
    rewrite split_dots_aux_prefix by exact Hx. reflexivity.
  - change (join_dots (x :: y :: l)) with (x ++ "." ++ join_dots (y :: l))%string.
    unfold split_dots. rewrite split_dots_aux_prefix by exact Hx.
    simpl. f_equal. apply IH; [discriminate|exact Hl].
Qed.

Lemma split_first_cases f :
  (split_dots f = [f] /\ split_first f = (f, None)) \/
  (exists base rest, rest <> [] /\ split_dots f = base :: rest /\
                     split_first f = (base, Some (join_dots rest)) /\
                     split_dots (join_dots rest) = rest).
Proof.
  unfold split_first. destruct (split_dots f) as [|x [|y rest]] eqn:E.
  - exfalso. exact (split_dots_nonnil _ E).
  - left. pose proof (split_dots_single _ _ E). subst x. split; reflexivity.
  - right. exists x, (y :: rest). split; [discriminate|]. split; [reflexivity|]. split; [reflexivity|].
    apply split_join; [discriminate|].
    pose proof (split_dots_dotfree f) as H. rewrite E in H. inversion H. assumption.
Qed.

(* ---------------------------------------------------------------- path lists *)
Definition pathsof (fields : list (string * value)) : list (list string) :=
  map (fun kv => split_dots (fst kv)) fields.

Lemma below_app k a b : below k (a ++ b) = below k a ++ below k b.
Proof. unfold below. apply flat_map_app. Qed.

Lemma below_cons k p ps :
  below k (p :: ps) = match p with
                      | k' :: rest => if k =? k' then [rest] else []
                      | [] => []
                      end ++ below k ps.
Proof. reflexivity. Qed.

Lemma In_below k r P : In r (below k P) <-> In (k :: r) P.
Proof.
  induction P as [|p P IH]; [simpl; tauto|].
  rewrite below_cons, in_app_iff, IH. simpl. split.
  - intros [H|H]; [|right; exact H]. left.
    destruct p as [|k' rest]; [contradiction|]. destruct (k =? k') eqn:E; [|contradiction].
    apply String.eqb_eq in E. subst. destruct H as [H|[]]. subst. reflexivity.
  - intros [H|H]; [|right; exact H]. left. subst p. rewrite String.eqb_refl. left. reflexivity.
Qed.

Lemma names_whole_In sub : names_whole sub = true <-> In [] sub.
Proof.
  unfold names_whole. rewrite existsb_exists. split.
  - intros [p [Hin Hp]]. destruct p; [exact Hin|discriminate].
  - intro H. exists []. split; [exact H|reflexivity].
Qed.

Lemma names_whole_app a b : names_whole (a ++ b) = names_whole a || names_whole b.
Proof. unfold names_whole. apply existsb_app. Qed.

Lemma is_prefix_refl p : is_prefix_of p p = true.
Proof. induction p as [|x p IH]; simpl; [reflexivity|]. rewrite String.eqb_refl. exact IH. Qed.

Lemma collide_cons p ps :
  collide (p :: ps) = existsb (fun q => is_prefix_of p q || is_prefix_of q p) ps || collide ps.
Proof. reflexivity. Qed.

Definition apart (p q : list string) : Prop :=
  is_prefix_of p q = false /\ is_prefix_of q p = false.

Lemma collide_false_cons p ps :
  collide (p :: ps) = false <-> (forall q, In q ps -> apart p q) /\ collide ps = false.
Proof.
  rewrite collide_cons, orb_false_iff. split; intros [H1 H2]; (split; [|exact H2]).
  - intros q Hq. pose proof (existsb_false_In _ _ H1 q Hq) as H. apply orb_false_iff in H. exact H.
  - apply existsb_all_false. intros q Hq. apply orb_false_iff. apply H1. exact Hq.
Qed.

Lemma collide_false_app a b :
  collide (a ++ b) = false ->
  collide a = false /\ collide b = false /\ (forall p q, In p a -> In q b -> apart p q).
Proof.
  induction a as [|x a IH]; simpl; intro H.
  - split; [reflexivity|]. split; [exact H|]. intros p q [].
  - apply collide_false_cons in H. destruct H as [H1 H2]. destruct (IH H2) as [Ha [Hb Hab]].
    split; [|split; [exact Hb|]].
    + apply collide_false_cons. split; [|exact Ha]. intros q Hq. apply H1. apply in_or_app. left. exact Hq.
    + intros p q [Hp|Hp] Hq; [subst p; apply H1; apply in_or_app; right; exact Hq | apply Hab; assumption].
Qed.

Lemma collide_below k P : collide P = false -> collide (below k P) = false.
Proof.
  induction P as [|p P IH]; intro H; [reflexivity|].
  apply collide_false_cons in H. destruct H as [H1 H2]. rewrite below_cons.
  destruct p as [|k' rest]; [apply IH; exact H2|].
  destruct (k =? k') eqn:E; [|apply IH; exact H2].
  apply String.eqb_eq in E. subst k'. simpl. apply collide_false_cons. split; [|apply IH; exact H2].
  intros q Hq. apply In_below in Hq. destruct (H1 _ Hq) as [A B]. simpl in A, B.
  rewrite String.eqb_refl in A, B. split; assumption.
Qed.

Definition nodollar (P : list (list string)) : Prop := forall p, In p P -> ~ In "$" p.

Lemma nodollar_below k P : nodollar P -> nodollar (below k P).
Proof. intros H r Hr Hin. apply In_below in Hr. apply (H _ Hr). right. exact Hin. Qed.

Lemma nodollar_below_nil P : nodollar P -> below "$" P = [].
Proof.
  intro H. destruct (below "$" P) as [|r sub] eqn:E; [reflexivity|].
  exfalso. assert (Hin : In r (below "$" P)) by (rewrite E; left; reflexivity).
  apply In_below in Hin. apply (H _ Hin). left. reflexivity.
Qed.

(* ---------------------------------------------------------------- depth *)
Definition depth_fields (fs : list (string * value)) : nat :=
  (fix go (fs : list (string * value)) : nat :=
     match fs with [] => O | (_, x) :: fs' => Nat.max (depth x) (go fs') end) fs.
Definition depth_list (xs : list value) : nat :=
  (fix go (xs : list value) : nat :=
     match xs with [] => O | x :: xs' => Nat.max (depth x) (go xs') end) xs.

Lemma depth_doc fs : depth (VDoc fs) = S (depth_fields fs).
Proof. reflexivity. Qed.
Lemma depth_arr xs : depth (VArr xs) = S (depth_list xs).
Proof. reflexivity. Qed.

Lemma depth_fields_in k x fs : In (k, x) fs -> (depth x <= depth_fields fs)%nat.
Proof.
  induction fs as [|[k0 x0] fs IH]; simpl; [contradiction|].
  intros [H|H]; [inversion H; subst; apply Nat.le_max_l|].
  etransitivity; [apply IH; exact H|apply Nat.le_max_r].
Qed.

Lemma depth_list_in x xs : In x xs -> (depth x <= depth_list xs)%nat.
Proof.
  induction xs as [|x0 xs IH]; simpl; [contradiction|].
  intros [H|H]; [subst; apply Nat.le_max_l|].
  etransitivity; [apply IH; exact H|apply Nat.le_max_r].
Qed.
