(* C03 part B -- the expression-evaluating stages that rewrite each document on its own:
   $addFields / $set (plain field names) and $replaceRoot, through the expression theorem
   of C04 (Proofs/C04Proofs.v, expr_agree) *)
From Coq Require Import ZArith List String Bool Ascii Lia.
From Verif Require Import Value PyEq BsonOrder Path Update Filter FilterSpec FilterGuard Coll Cursor
     Expr ExprSpec ExprGuard Pipeline PipelineSpec PipelineGuard.
From Verif Require Import C12Base C04Base C04Proofs.
From Verif Require Import C03Base C03Laws C03Stages.
Import ListNotations.
Open Scope Z_scope.
Open Scope string_scope.
Open Scope list_scope.

(* ------------------------------------------------------------ expressions inside the guard *)
Lemma expr_R d e : c04_reasons e d = 0 -> R (seval [] d e) (eval [] d true e).
Proof.
  intros H. unfold c04_reasons in H. pose proof (expr_agree d e [] H) as HR.
  rewrite lift_nil in HR. exact HR.
Qed.

Lemma expr_finding_false e l : expr_finding e l = false -> forall d, In d l -> c04_reasons e d = 0.
Proof.
  unfold expr_finding. intros H d Hin.
  destruct (Z.eqb_spec (c04_reasons e d) 0) as [E|E]; [exact E|]. exfalso.
  assert (Ht : existsb (fun d0 => negb (Z.eqb (c04_reasons e d0) 0)) l = true).
  { apply existsb_exists. exists d. split; [exact Hin|]. apply negb_true_iff. apply Z.eqb_neq. exact E. }
  rewrite Ht in H. discriminate.
Qed.

Lemma existsb_false_in {A} (p : A -> bool) l : existsb p l = false -> forall x, In x l -> p x = false.
Proof.
  intros H x Hin. destruct (p x) eqn:E; [|reflexivity]. exfalso.
  assert (Ht : existsb p l = true) by (apply existsb_exists; exists x; split; assumption).
  rewrite Ht in H. discriminate.
Qed.

Lemma no_sets_nil (ks : list string) : existsb (fun k => mem_str k []) ks = false.
Proof. induction ks as [|k ks IH]; [reflexivity|]. simpl. exact IH. Qed.

(* ------------------------------------------------------------ lists of options *)
Lemma all_opt_some_in {A B} (f : A -> option B) l outs :
  all_opt (map f l) = Some outs -> forall x, In x l -> exists y, f x = Some y.
Proof.
  revert outs. induction l as [|a l IH]; intros outs H x Hin; [destruct Hin|].
  cbn [map all_opt] in H. destruct (f a) as [y|] eqn:Ha; [|discriminate].
  destruct (all_opt (map f l)) as [r|] eqn:Hr; [|discriminate].
  destruct Hin as [<-|Hin]; [exists y; exact Ha|]. exact (IH r eq_refl x Hin).
Qed.

Lemma all_opt_ext {A B} (f g : A -> option B) l :
  (forall x, In x l -> f x = g x) -> all_opt (map f l) = all_opt (map g l).
Proof. intros H. f_equal. apply map_ext_in. exact H. Qed.

Lemma all_opt_pure {A B} (g : A -> B) l : all_opt (map (fun x => Some (g x)) l) = Some (map g l).
Proof. induction l as [|a l IH]; [reflexivity|]. cbn [map all_opt]. rewrite IH. reflexivity. Qed.

Lemma all_opt_length {A B} (f : A -> option B) l outs :
  all_opt (map f l) = Some outs -> List.length outs = List.length l.
Proof.
  revert outs. induction l as [|a l IH]; intros outs H; cbn [map all_opt] in H.
  - inversion H. reflexivity.
  - destruct (f a) as [y|]; [|discriminate].
    destruct (all_opt (map f l)) as [r|] eqn:Hr; [|discriminate].
    inversion H; subst. simpl. f_equal. apply IH. reflexivity.
Qed.

Lemma map_snd_combine {A B} (a : list A) (b : list B) :
  List.length b = List.length a -> map snd (combine a b) = b.
Proof.
  revert b. induction a as [|x a IH]; intros [|y b] H; try discriminate; [reflexivity|].
  simpl. f_equal. apply IH. simpl in H. lia.
Qed.

(* ------------------------------------------------------------ mapM *)
Lemma mapM_map {A B C} (f : B -> res C) (h : A -> B) l : mapM f (map h l) = mapM (fun x => f (h x)) l.
Proof. induction l as [|x l IH]; [reflexivity|]. cbn [map mapM]. rewrite IH. reflexivity. Qed.

Lemma mapM_unmod_or {A B} (f : A -> res B) (g : A -> B) l :
  (forall x, In x l -> f x = Err EUnmodelled \/ f x = Ok (g x)) ->
  mapM f l = Err EUnmodelled \/ mapM f l = Ok (map g l).
Proof.
  induction l as [|x l IH]; intros H; [right; reflexivity|].
  cbn [mapM map]. destruct (H x (or_introl eq_refl)) as [Hx|Hx]; rewrite Hx; cbn [bind]; [left; reflexivity|].
  destruct IH as [IH|IH]; [intros y Hy; apply H; right; exact Hy| |]; rewrite IH; cbn [bind];
    [left|right]; reflexivity.
Qed.

(* ------------------------------------------------------------ plain names *)
Lemma plain_name_split k : plain_name k = true -> split_dots k = [k].
Proof.
  unfold plain_name. intros H. apply andb_true_iff in H. destruct H as [_ H].
  apply Z.eqb_eq in H. destruct (split_dots k) as [|x [|y r]] eqn:E; simpl in H; try lia.
  apply split_dots_single in E. subst. reflexivity.
Qed.

(* ------------------------------------------------------------ $addFields / $set *)
(* the specification's walk over the fields, for one document *)
Definition sgo (d : value) :=
  fix go (cs : list (string * value)) (acc : list (string * value)) : option value :=
    match cs with
    | [] => Some (VDoc acc)
    | (k, e) :: cs' =>
        if negb (plain_name k) then None else
        match seval [] d e with
        | SV v => go cs' (set_key k v acc)
        | SMiss => go cs' acc
        | _ => None
        end
    end.

Definition dfields (d : value) : list (string * value) := match d with VDoc fs => fs | _ => [] end.

Lemma spec_add_fields_doc_sgo fs d y :
  spec_add_fields_doc fs d = Some y -> d = VDoc (dfields d) /\ sgo d fs (dfields d) = Some y.
Proof. destruct d; try discriminate. intros H. split; [reflexivity|exact H]. Qed.

Definition step_acc (k : string) (e : value) (p : value * list (string * value))
  : value * list (string * value) :=
  (fst p, match seval [] (fst p) e with SV v => set_key k v (snd p) | _ => snd p end).

Definition to_model (p : value * list (string * value)) : value * value := (fst p, VDoc (snd p)).

Lemma add_fields_go_nil fields : add_fields_go fields [] = Ok [].
Proof. induction fields as [|[k e] fields IH]; [reflexivity|]. cbn [add_fields_go mapM bind]. exact IH. Qed.

Lemma to_model_combine pairs :
  map to_model pairs = combine (map fst pairs) (map (fun p => VDoc (snd p)) pairs).
Proof. induction pairs as [|p pairs IH]; [reflexivity|]. cbn [map combine]. rewrite <- IH. reflexivity. Qed.

Lemma add_field_pair_spec k e p y :
  c04_reasons e (fst p) = 0 ->
  sgo (fst p) ((k, e) :: nil) (snd p) = Some y ->
  add_field_pair k e (to_model p) = Err EUnmodelled \/
  add_field_pair k e (to_model p) = Ok (to_model (step_acc k e p)).
Proof.
  intros Hg Hs. destruct p as [d acc]. cbn [fst snd] in *.
  unfold to_model, step_acc, add_field_pair. cbn [fst snd].
  cbn [sgo] in Hs. destruct (plain_name k) eqn:Hp; cbn [negb] in Hs; [|discriminate].
  rewrite (plain_name_split k Hp).
  destruct (R_Rc _ _ (expr_R d e Hg)) as [Hm|v Hsv Hm|Hsv Hm|er Hsv Hm|Hsv]; try rewrite Hm.
  - left. reflexivity.
  - rewrite Hsv. right. reflexivity.
  - rewrite Hsv. right. reflexivity.
  - rewrite Hsv in Hs. discriminate.
  - rewrite Hsv in Hs. discriminate.
Qed.

Lemma sgo_cons d k e cs acc :
  sgo d ((k, e) :: cs) acc =
  match sgo d ((k, e) :: nil) acc with
  | Some _ => sgo d cs (snd (step_acc k e (d, acc)))
  | None => None
  end.
Proof.
  cbn [sgo step_acc fst snd]. destruct (negb (plain_name k)); [reflexivity|].
  destruct (seval [] d e); reflexivity.
Qed.

Lemma add_fields_go_spec fields : forall pairs outs,
  (forall p k e, In p pairs -> In (k, e) fields -> c04_reasons e (fst p) = 0) ->
  all_opt (map (fun p => sgo (fst p) fields (snd p)) pairs) = Some outs ->
  add_fields_go fields (map to_model pairs) = Err EUnmodelled \/
  add_fields_go fields (map to_model pairs) = Ok (combine (map fst pairs) outs).
Proof.
  induction fields as [|[k e] fields IH]; intros pairs outs Hg Hs.
  - right. cbn [add_fields_go]. change (fun p : value * list (string * value) => sgo (fst p) [] (snd p))
      with (fun p : value * list (string * value) => Some (VDoc (snd p))) in Hs.
    rewrite all_opt_pure in Hs. inversion Hs; subst. rewrite to_model_combine. reflexivity.
  - cbn [add_fields_go].
    assert (Hone : forall p, In p pairs -> exists y, sgo (fst p) [(k, e)] (snd p) = Some y).
    { intros p Hp. destruct (all_opt_some_in _ _ _ Hs p Hp) as [y Hy].
      rewrite sgo_cons in Hy. destruct (sgo (fst p) [(k, e)] (snd p)) as [y'|]; [|discriminate].
      exists y'. reflexivity. }
    assert (Hs' : all_opt (map (fun p => sgo (fst p) fields (snd p)) (map (step_acc k e) pairs)) = Some outs).
    { rewrite map_map. rewrite <- Hs. apply all_opt_ext. intros p Hp.
      rewrite sgo_cons. destruct (Hone p Hp) as [y Hy]. rewrite Hy. destruct p; reflexivity. }
    rewrite mapM_map.
    destruct (mapM_unmod_or (fun p => add_field_pair k e (to_model p)) (fun p => to_model (step_acc k e p)) pairs)
      as [Hm|Hm].
    { intros p Hp. destruct (Hone p Hp) as [y Hy].
      apply (add_field_pair_spec k e p y); [|exact Hy].
      apply (Hg p k e Hp). left. reflexivity. }
    + rewrite Hm. left. reflexivity.
    + rewrite Hm. cbn [bind]. rewrite <- (map_map (step_acc k e) to_model).
      assert (Hf : map fst pairs = map fst (map (step_acc k e) pairs)).
      { rewrite map_map. apply map_ext. intros p. reflexivity. }
      rewrite Hf. apply IH; [|exact Hs'].
      intros p k' e' Hp Hin. apply in_map_iff in Hp. destruct Hp as (p0 & <- & Hp0).
      cbn [step_acc fst]. apply (Hg p0 k' e' Hp0). right. exact Hin.
Qed.

Lemma run_stage_add_fields db o l : run_stage db "$addFields" o l = add_fields o l.
Proof. destruct o; reflexivity. Qed.
Lemma run_stage_set db o l : run_stage db "$set" o l = add_fields o l.
Proof. destruct o; reflexivity. Qed.
Lemma spec_stage_add_fields db o s : spec_stage db "$addFields" o s = spec_add_fields o s.
Proof. destruct o; reflexivity. Qed.
Lemma spec_stage_set db o s : spec_stage db "$set" o s = spec_add_fields o s.
Proof. destruct o; reflexivity. Qed.

Definition add_fields_reasons (o : value) (l : list value) : Z :=
  match o with
  | VDoc fs => zb (existsb (fun kv => expr_finding (snd kv) l) fs) 2
  | _ => 0
  end.

Lemma add_fields_rel o l :
  add_fields_reasons o l = 0 ->
  rel (spec_add_fields o (mkStream l true [])) (add_fields o l).
Proof.
  intros Hg. destruct o as [| | | | | | |fs|];
    try (unfold add_fields; match goal with |- context [truthy ?v] => destruct (truthy v) end; exact I).
  destruct fs as [|kv fs]; [exact I|].
  unfold add_fields_reasons in Hg. apply zb_zero in Hg; [|discriminate].
  unfold spec_add_fields. cbn [s_docs s_ord s_sets]. rewrite no_sets_nil.
  destruct (spec_add_fields_doc (kv :: fs) (VDoc [])) as [y0|]; [|exact I].
  destruct (all_opt (map (spec_add_fields_doc (kv :: fs)) l)) as [outs|] eqn:Hs; [|exact I].
  set (pairs := map (fun d => (d, dfields d)) l).
  assert (Hdoc : forall d, In d l -> d = VDoc (dfields d)).
  { intros d Hd. destruct (all_opt_some_in _ _ _ Hs d Hd) as [y Hy].
    exact (proj1 (spec_add_fields_doc_sgo _ _ _ Hy)). }
  assert (Hs' : all_opt (map (fun p => sgo (fst p) (kv :: fs) (snd p)) pairs) = Some outs).
  { unfold pairs. rewrite map_map. cbn [fst snd]. rewrite <- Hs. apply all_opt_ext. intros d Hd.
    destruct (all_opt_some_in _ _ _ Hs d Hd) as [y Hy]. rewrite Hy.
    exact (proj2 (spec_add_fields_doc_sgo _ _ _ Hy)). }
  assert (Hpm : map to_model pairs = map (fun d => (d, d)) l).
  { unfold pairs. rewrite map_map. apply map_ext_in. intros d Hd. unfold to_model. cbn [fst snd].
    rewrite <- (Hdoc d Hd). reflexivity. }
  assert (Hgp : forall p k e, In p pairs -> In (k, e) (kv :: fs) -> c04_reasons e (fst p) = 0).
  { intros p k e Hp Hin. unfold pairs in Hp. apply in_map_iff in Hp. destruct Hp as (d & <- & Hd).
    cbn [fst]. apply (expr_finding_false e l); [|exact Hd].
    exact (existsb_false_in _ _ Hg (k, e) Hin). }
  unfold add_fields.
  destruct (add_fields_go_spec (kv :: fs) pairs outs Hgp Hs') as [Hm|Hm]; rewrite Hpm in Hm; rewrite Hm.
  - exact I.
  - cbn [bind]. simpl. repeat split.
    symmetry. apply map_snd_combine. rewrite (all_opt_length _ _ _ Hs'). rewrite map_length. reflexivity.
Qed.

Lemma stage_add_fields db o l :
  stage_reasons db "$addFields" o l = 0 ->
  rel (spec_stage db "$addFields" o (mkStream l true [])) (run_stage db "$addFields" o l).
Proof.
  intros Hg. rewrite run_stage_add_fields, spec_stage_add_fields. apply add_fields_rel.
  destruct o; exact Hg.
Qed.

Lemma stage_set db o l :
  stage_reasons db "$set" o l = 0 ->
  rel (spec_stage db "$set" o (mkStream l true [])) (run_stage db "$set" o l).
Proof.
  intros Hg. rewrite run_stage_set, spec_stage_set. apply add_fields_rel.
  destruct o; exact Hg.
Qed.

(* ------------------------------------------------------------ $replaceRoot *)
Lemma run_stage_replace_root db o l : run_stage db "$replaceRoot" o l = replace_root o l.
Proof. destruct o; reflexivity. Qed.
Lemma spec_stage_replace_root db o s : spec_stage db "$replaceRoot" o s = spec_replace_root o s.
Proof. destruct o; reflexivity. Qed.

Ltac peel_char k := destruct k as [|[[] [] [] [] [] [] [] []] k]; try reflexivity.

(* an option document of any other shape than {newRoot: e} is left undecided *)
Lemma spec_replace_root_other ofs s :
  (forall e, ofs <> [("newRoot", e)]) -> spec_replace_root (VDoc ofs) s = PUndef.
Proof.
  intros H. destruct ofs as [|[k e] tl]; [reflexivity|].
  do 7 (peel_char k).
  destruct k; [|reflexivity]. destruct tl; [|reflexivity].
  exfalso. apply (H e). reflexivity.
Qed.

Definition is_sdoc (r : sres) : bool := match r with SV (VDoc _) => true | _ => false end.
Definition sval_list (r : sres) : list value := match r with SV v => [v] | _ => [] end.

Definition rr_fn (e : value) (d : value) : res value :=
  match eval [] d true e with
  | EV (VDoc fs) => Ok (VDoc fs)
  | EV _ | EMiss => Err EOpFail
  | EE er => Err er
  end.

Lemma rr_docs e l :
  (forall d, In d l -> c04_reasons e d = 0) ->
  existsb is_sundef (map (fun d => seval [] d e) l) = false ->
  mapM (rr_fn e) l = Err EUnmodelled \/
  (forallb is_sdoc (map (fun d => seval [] d e) l) = true /\
   mapM (rr_fn e) l = Ok (flat_map sval_list (map (fun d => seval [] d e) l))) \/
  (forallb is_sdoc (map (fun d => seval [] d e) l) = false /\ exists er, mapM (rr_fn e) l = Err er).
Proof.
  induction l as [|d l IH]; intros Hg Hu.
  - right. left. split; reflexivity.
  - cbn [map existsb] in Hu. apply orb_false_iff in Hu. destruct Hu as [Hud Hul].
    specialize (IH (fun x Hx => Hg x (or_intror Hx)) Hul).
    cbn [map forallb flat_map mapM]. unfold rr_fn at 1 3 5.
    destruct (R_Rc _ _ (expr_R d e (Hg d (or_introl eq_refl)))) as [Hm|v Hsv Hm|Hsv Hm|er Hsv Hm|Hsv];
      try rewrite Hm; try rewrite Hsv.
    + left. reflexivity.
    + destruct v as [| | | | | | |fs|];
        try (right; right; split; [reflexivity|exists EOpFail; reflexivity]).
      cbn [bind is_sdoc sval_list andb app].
      destruct IH as [IH|[[Hf IH]|[Hf [er IH]]]]; rewrite IH; cbn [bind].
      * left. reflexivity.
      * right. left. split; [exact Hf|reflexivity].
      * right. right. split; [exact Hf|exists er; reflexivity].
    + right. right. split; [reflexivity|exists EOpFail; reflexivity].
    + right. right. split; [reflexivity|exists er; reflexivity].
    + rewrite Hsv in Hud. discriminate.
Qed.

Lemma stage_replace_root db o l :
  stage_reasons db "$replaceRoot" o l = 0 ->
  rel (spec_stage db "$replaceRoot" o (mkStream l true [])) (run_stage db "$replaceRoot" o l).
Proof.
  intros Hg. rewrite run_stage_replace_root, spec_stage_replace_root.
  destruct o as [| | | | | | |ofs|]; try exact I.
  assert (Hshape : (exists e, ofs = [("newRoot", e)]) \/ (forall e, ofs <> [("newRoot", e)])).
  { destruct ofs as [|[k e] [|kv2 tl]]; try (right; intros e0 Hq; discriminate Hq).
    destruct (String.eqb_spec k "newRoot") as [->|Hn].
    - left. exists e. reflexivity.
    - right. intros e0 Hq. inversion Hq. contradiction. }
  destruct Hshape as [[e ->]|Hn]; [|rewrite (spec_replace_root_other _ _ Hn); exact I].
  assert (Hg' : zb (expr_finding e l) 2 = 0) by exact Hg.
  apply zb_zero in Hg'; [|discriminate].
  change (replace_root (VDoc [("newRoot", e)]) l) with (mapM (rr_fn e) l).
  change (spec_replace_root (VDoc [("newRoot", e)]) (mkStream l true []))
    with (let rs := map (fun d => seval [] d e) l in
          if existsb is_sundef rs then PUndef
          else if forallb is_sdoc rs then PV (mkStream (flat_map sval_list rs) true [])
          else PErr).
  cbv zeta. destruct (existsb is_sundef (map (fun d => seval [] d e) l)) eqn:Hu; [exact I|].
  destruct (rr_docs e l (expr_finding_false e l Hg') Hu) as [Hm|[[Hf Hm]|[Hf [er Hm]]]]; rewrite Hm.
  - apply rel_unmodelled.
  - rewrite Hf. simpl. repeat split.
  - rewrite Hf. apply rel_err.
Qed.
