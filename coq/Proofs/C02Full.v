(* C02 proofs, part 12: the state invariant of the history theorem holds in every state a
   history without TTL index reaches, and only OSetClock moves the clock: the history theorem
   without premises on the reachable states. *)
From Coq Require Import ZArith List String Bool Ascii Lia.
From Verif Require Import Value PyEq BsonOrder Path Filter FilterSpec Update Project Coll
                          HistCheck HistProps HistGuards ProjectSpec Cursor UpdateLaws.
From Verif.Proofs Require Import C01Values C12Base C02Base C02Store C02Step C02History C02Wf C02Inv.
From Verif.Proofs Require C05Values C08Store C14Base C14Inv C18Values C18Store.
Import ListNotations.
Open Scope Z_scope.
Open Scope string_scope.
Open Scope list_scope.

(* guard bit 4: the history creates a TTL index *)
Definition ttl_create (o : op) : bool :=
  match o with OCreateIndex _ _ _ (Some _) _ _ => true | _ => false end.

Lemma ttl_create_c14 o : ttl_create o = false -> c14_ttl_op o = false.
Proof. destruct o; try reflexivity. destruct ttl; [discriminate|reflexivity]. Qed.

(* the invariants of the earlier properties, together *)
Record Good (c : coll) : Prop := mkGood {
  g_nd : C08Store.Inv (now c) c;          (* keys pairwise different *)
  g_ttl : C14Base.Inv c;                  (* no TTL index *)
  g_dn : C18Store.Inv c;                  (* stored documents normalised *)
  g_wf : W c                              (* keys and documents well-formed *)
}.

Lemma Good_empty : Good empty_coll.
Proof.
  split; [exact C08Store.Inv_empty|exact C14Base.Inv_empty|exact C18Store.Inv_empty|exact W_empty].
Qed.

Lemma store_nd_distinct l : C08Store.store_nd l -> keys_distinct l.
Proof.
  induction l as [|[k d] l IH]; simpl; [auto|]. intros [Hk Hl]. split; [|apply IH; exact Hl].
  intros k' d' Hin. rewrite Forall_forall in Hk. exact (Hk (k', d') Hin).
Qed.

Lemma Good_Inv c : Good c -> Inv c.
Proof.
  intros [[Hnd _] [Httl _] Hdn Hw]. split.
  - apply store_nd_distinct. exact Hnd.
  - intros k d Hin. unfold W, WS in Hw. rewrite Forall_forall in Hw.
    destruct (Hw (k, d) Hin) as [Hk _]. apply C05Values.py_eq_refl_wf. exact Hk.
  - intros i Hi. unfold C14Base.no_ttl in Httl. rewrite Forall_forall in Httl. exact (Httl i Hi).
  - intros k d Hin. unfold W, WS in Hw. rewrite Forall_forall in Hw.
    exact (proj2 (Hw (k, d) Hin)).
  - intros k d Hin. unfold C18Store.Inv, C18Store.DNS in Hdn. rewrite Forall_forall in Hdn.
    apply C18Values.patch_fixes_normal. exact (Hdn (k, d) Hin).
Qed.

(* one step: the invariant is kept and the clock moves only by OSetClock *)
Lemma step_Good pre5 c o :
  op_wf o -> ttl_create o = false -> Good c ->
  Good (fst (step pre5 c o)) /\
  now (fst (step pre5 c o)) = match o with OSetClock t => t | _ => now c end.
Proof.
  intros Hw Ht [Hnd Httl Hdn Hwf].
  destruct (step pre5 c o) as [c' r] eqn:Es. cbn [fst].
  pose proof (C08Store.step_nd _ _ _ _ _ _ Es Hnd) as Hnd'.
  assert (Hnow : now c' = C08Store.clock_after (now c) o) by exact (proj2 Hnd').
  split.
  - split.
    + rewrite Hnow. exact Hnd'.
    + pose proof (C14Inv.step_inv pre5 c o (ttl_create_c14 o Ht) Httl) as H. rewrite Es in H. exact H.
    + exact (C18Store.step_inv _ _ _ _ _ Es Hdn).
    + exact (step_W _ _ _ _ _ Hw Es Hwf).
  - rewrite Hnow. destruct o; reflexivity.
Qed.

Lemma reach_Good pre5 : forall ops1 c ops2,
  Good c -> Forall op_wf (ops1 ++ ops2) -> existsb ttl_create (ops1 ++ ops2) = false ->
  Good (final pre5 c ops1).
Proof.
  induction ops1 as [|o ops1 IH]; intros c ops2 Hg Hw Ht; [exact Hg|].
  simpl in *. inversion Hw as [|? ? Hwo Hw']; subst.
  apply orb_false_iff in Ht. destruct Ht as [Hto Ht'].
  apply (IH _ ops2); [|exact Hw'|exact Ht'].
  exact (proj1 (step_Good pre5 c o Hwo Hto Hg)).
Qed.

Theorem reach_inv_all pre5 ops :
  Forall op_wf ops -> existsb ttl_create ops = false -> reach_inv pre5 empty_coll ops.
Proof.
  intros Hw Ht ops1 ops2 E. subst ops. apply Good_Inv.
  apply (reach_Good pre5 ops1 empty_coll ops2 Good_empty Hw Ht).
Qed.

Theorem clock_ok_all pre5 ops :
  Forall op_wf ops -> existsb ttl_create ops = false -> clock_ok pre5 empty_coll ops.
Proof.
  intros Hw Ht ops1 o ops2 E. subst ops.
  pose proof (reach_Good pre5 ops1 empty_coll (o :: ops2) Good_empty Hw Ht) as Hg.
  apply Forall_app in Hw. destruct Hw as [_ Hw]. inversion Hw as [|? ? Hwo _]; subst.
  rewrite existsb_app in Ht. apply orb_false_iff in Ht. destruct Ht as [_ Ht]. simpl in Ht.
  apply orb_false_iff in Ht. destruct Ht as [Hto _].
  exact (proj2 (step_Good pre5 _ o Hwo Hto Hg)).
Qed.

Lemma reasons_no_ttl ops os : c02_reasons ops os = 0 -> existsb ttl_create ops = false.
Proof.
  unfold c02_reasons. fold ttl_create. intro H.
  destruct (existsb ttl_create ops); [exfalso|reflexivity].
  repeat match type of H with context [if ?b then _ else _] => destruct b end; lia.
Qed.

(* the history theorem *)
Theorem history_sound : forall pre5 ops,
  Forall op_wf ops ->
  c02_reasons ops (model_obs pre5 empty_coll ops) = 0 ->
  c02_ok ops (model_obs pre5 empty_coll ops) = true.
Proof.
  intros pre5 ops Hw Hr. pose proof (reasons_no_ttl _ _ Hr) as Ht.
  apply history_sound_partial; [apply reach_inv_all|apply clock_ok_all|exact Hw|exact Hr]; assumption.
Qed.
