(* C13, dotted filter keys: the premises of C13_history_dotted_partial / C13_history_wf_partial
   hold on a non-trivial history outside c13_flat, and the probes that were evaluated before
   proving anything (none is a counterexample). *)
From Coq Require Import ZArith List String Bool Ascii.
From Verif Require Import Value PyEq BsonOrder Path Filter Update Project Coll HistCheck HistProps
  HistGuards HistPropCheck.
From Verif.Proofs Require Import C13Proofs C13Id C13Match C13Dotted.
From Verif.Proofs Require C02History.
Import ListNotations.
Open Scope Z_scope.
Open Scope string_scope.
Open Scope list_scope.

Definition c13_ex_ops4 : list op :=
  [OInsertOne (VDoc [("_id", VInt 1); ("a", VDoc [("b", VInt 1)])]);
   (* something matches along the dotted path: modify, no insertion *)
   OUpdate (VDoc [("a.b", VInt 1)]) (VDoc [("$set", VDoc [("a.c", VInt 7)])]) false true;
   (* nothing matches: two keys sharing the head, one more level, a dot-free key; the update
      writes a sibling path below the same head and a fresh one *)
   OUpdate (VDoc [("a.b", VInt 2); ("a.d.e", VDoc [("$eq", VStr "s")]); ("c", VInt 2)])
           (VDoc [("$set", VDoc [("a.c", VInt 5)]); ("$inc", VDoc [("a.d.f", VInt 1); ("n", VInt 1)])])
           false true;
   (* null and array literals, a numeric component, an _id taken from the filter *)
   OUpdate (VDoc [("_id", VInt 3); ("p.0", VNull); ("p.q", VDoc [("$eq", VArr [VInt 1; VInt 2])])])
           (VDoc [("$push", VDoc [("p.r", VInt 1)]); ("$setOnInsert", VDoc [("p.1.x", VInt 1)]);
                  ("$unset", VDoc [("p.z", VInt 1)])]) true true;
   (* the same upsert again: now it matches *)
   OUpdate (VDoc [("_id", VInt 3); ("p.0", VNull); ("p.q", VDoc [("$eq", VArr [VInt 1; VInt 2])])])
           (VDoc [("$push", VDoc [("p.r", VInt 1)])]) true true;
   (* a date below a dotted key is normalised on both sides *)
   OUpdate (VDoc [("t.u", VDate 1234567 None)]) (VDoc [("$max", VDoc [("t.w", VInt 3)])]) false true;
   (* the update overwrites the filter's path: the last clause is not demanded *)
   OUpdate (VDoc [("a.b", VInt 9)]) (VDoc [("$set", VDoc [("a", VInt 5)])]) false true;
   (* a non-equality filter with a dotted key; a replacement upsert with a dotted key *)
   OUpdate (VDoc [("m.x", VDoc [("$gte", VInt 2)])]) (VDoc [("$set", VDoc [("m.y", VInt 1)])]) false true;
   OReplace (VDoc [("r.s", VInt 10)]) (VDoc [("z", VNull)]) true;
   OFind (VDoc []) None [] 0 0].

Example c13_ex_history4 :
  Forall C02History.op_wf c13_ex_ops4 /\
  c13_reasons c13_ex_ops4 (model_obs false empty_coll c13_ex_ops4) = 0 /\
  c13_undecided c13_ex_ops4 = false /\
  c13_dotted_ok c13_ex_ops4 = true /\
  c13_wf_args c13_ex_ops4 = true /\
  c13_flat c13_ex_ops4 = false /\
  modelled false empty_coll c13_ex_ops4 = true /\
  c13_ok c13_ex_ops4 (model_obs false empty_coll c13_ex_ops4) = true /\
  map (fun ob => List.length (snd (fst ob))) (model_obs false empty_coll c13_ex_ops4)
  = [1; 1; 2; 3; 3; 4; 5; 6; 7; 7]%nat.
Proof.
  split; [repeat constructor|].
  assert (Hr : c13_reasons c13_ex_ops4 (model_obs false empty_coll c13_ex_ops4) = 0) by (vm_compute; reflexivity).
  assert (Hu : c13_undecided c13_ex_ops4 = false) by (vm_compute; reflexivity).
  split; [exact Hr|]. split; [exact Hu|]. split; [reflexivity|]. split; [vm_compute; reflexivity|].
  split; [vm_compute; reflexivity|]. split; [vm_compute; reflexivity|].
  split; [apply c13_history_dotted; [repeat constructor|exact Hr|exact Hu|reflexivity]|].
  vm_compute; reflexivity.
Qed.

(* the third operation's outcome, spelled out *)
Example c13_ex4_third :
  option_map fst (nth_error (model_obs false empty_coll c13_ex_ops4) 2) =
  Some (Ok (VDoc [("matched", VInt 0); ("modified", VInt 0); ("upserted_id", VOid 1000)]),
        [(VInt 1, VDoc [("_id", VInt 1); ("a", VDoc [("b", VInt 1); ("c", VInt 7)])]);
         (VOid 1000,
          VDoc [("a", VDoc [("b", VInt 2); ("d", VDoc [("e", VStr "s"); ("f", VInt 1)]); ("c", VInt 5)]);
                ("c", VInt 2); ("_id", VOid 1000); ("n", VInt 1)])]).
Proof. vm_compute. reflexivity. Qed.
