(* C02 proofs, part 2: the path walk of $set (creation of intermediate sub-documents, padding
   of arrays, the frame along a path through sub-documents). *)
From Coq Require Import ZArith List String Bool Ascii Lia.
From Verif Require Import Value PyEq BsonOrder Path Filter FilterSpec Update Project Coll
                          HistCheck HistProps ProjectSpec Cursor UpdateLaws.
From Verif.Proofs Require Import C01Values C12Base C02Base.
Import ListNotations.
Open Scope Z_scope.
Open Scope string_scope.
Open Scope list_scope.

(* the value set is found again at the path *)
Lemma set_get : forall parts now d v d',
  parts <> [] -> parent_ok parts d = true ->
  walk USet now parts d v = Ok d' -> get_by_dot parts d' = Some v.
Proof.
  induction parts as [|p [|q rest] IH]; intros now d v d' Hne Hpo Hw.
  - congruence.
  - rewrite walk_one in Hw. destruct (parent_ok_doc _ _ Hpo) as [fs ->].
    simpl in Hw. inversion Hw; subst d'. simpl.
    rewrite assoc_set_key, String.eqb_refl. reflexivity.
  - rewrite walk_cons2 in Hw. destruct (parent_ok_doc _ _ Hpo) as [fs ->].
    rewrite parent_ok_cons2 in Hpo.
    destruct (assoc p fs) as [sub|] eqn:Ea.
    + bind_inv Hw sub' Hs. inversion Hw; subst d'.
      change (get_by_dot (p :: q :: rest) (VDoc (set_key p sub' fs)))
        with (match assoc p (set_key p sub' fs) with
              | Some x => get_by_dot (q :: rest) x | None => None end).
      rewrite assoc_set_key, String.eqb_refl.
      eapply IH; [discriminate | exact Hpo | exact Hs].
    + bind_inv Hw sub' Hs. inversion Hw; subst d'.
      change (get_by_dot (p :: q :: rest) (VDoc (set_key p sub' fs)))
        with (match assoc p (set_key p sub' fs) with
              | Some x => get_by_dot (q :: rest) x | None => None end).
      rewrite assoc_set_key, String.eqb_refl.
      eapply IH; [discriminate | apply parent_ok_empty | exact Hs].
Qed.

(* a missing first component is created, bound to nested singleton documents down to v *)
Lemma set_creates_empty : forall parts now v,
  parts <> [] -> walk USet now parts (VDoc []) v = Ok (nest parts v).
Proof.
  induction parts as [|p [|q rest] IH]; intros now v Hne.
  - congruence.
  - reflexivity.
  - rewrite walk_cons2. simpl assoc. cbv iota. rewrite IH by discriminate. reflexivity.
Qed.

Lemma set_creates : forall p rest now fs v,
  assoc p fs = None ->
  walk USet now (p :: rest) (VDoc fs) v = Ok (VDoc (fs ++ [(p, nest rest v)])).
Proof.
  intros p [|q rest] now fs v Ha.
  - rewrite walk_one. simpl. rewrite set_key_absent by exact Ha. reflexivity.
  - rewrite walk_cons2, Ha, set_creates_empty by discriminate. simpl.
    rewrite set_key_absent by exact Ha. reflexivity.
Qed.

(* setting index i >= len(xs) of an array pads it with nulls *)
Lemma set_pads_index : forall now xs name (i : nat) v,
  as_index name = Some (Z.of_nat i) -> (List.length xs <= i)%nat ->
  apply_updater USet now (VArr xs) name v
  = Ok (VArr (xs ++ repeat VNull (i - List.length xs) ++ [v])).
Proof.
  intros now xs name i v Hi Hlen. simpl. rewrite Hi, Nat2Z.id, set_nth_pad_app by exact Hlen.
  reflexivity.
Qed.

Lemma set_pads : forall now xs (i : nat) v,
  (List.length xs <= i)%nat ->
  apply_updater USet now (VArr xs) (string_of_nat i) v
  = Ok (VArr (xs ++ repeat VNull (i - List.length xs) ++ [v])).
Proof. intros. apply set_pads_index; [apply as_index_string_of_nat | assumption]. Qed.

(* the same through the walk: "a.b.<i>" on an array a.b *)
Lemma set_pads_walk : forall now fs p xs (i : nat) v,
  assoc p fs = Some (VArr xs) -> (List.length xs <= i)%nat ->
  walk USet now [p; string_of_nat i] (VDoc fs) v
  = Ok (VDoc (set_key p (VArr (xs ++ repeat VNull (i - List.length xs) ++ [v])) fs)).
Proof.
  intros now fs p xs i v Ha Hlen. rewrite walk_cons2, Ha, walk_one, set_pads by exact Hlen.
  reflexivity.
Qed.

(* every path that neither extends nor is extended by the path set keeps its value *)
Lemma set_frame_path : forall parts now d v d',
  parent_ok parts d = true -> walk USet now parts d v = Ok d' ->
  forall q, is_prefix_of q parts = false -> is_prefix_of parts q = false ->
  get_by_dot q d' = get_by_dot q d.
Proof.
  induction parts as [|p [|p2 rest] IH]; intros now d v d' Hpo Hw q Hq1 Hq2.
  - rewrite is_prefix_nil_l in Hq2. discriminate.
  - rewrite walk_one in Hw. destruct (parent_ok_doc _ _ Hpo) as [fs ->].
    simpl in Hw. inversion Hw; subst d'.
    destruct q as [|k q']; [rewrite is_prefix_nil_l in Hq1; discriminate|].
    rewrite is_prefix_cons, is_prefix_nil_l, andb_true_r in Hq2. simpl.
    rewrite assoc_set_key, (eqb_neq_sym _ _ Hq2). reflexivity.
  - rewrite walk_cons2 in Hw. destruct (parent_ok_doc _ _ Hpo) as [fs ->].
    rewrite parent_ok_cons2 in Hpo.
    destruct q as [|k q']; [rewrite is_prefix_nil_l in Hq1; discriminate|].
    rewrite is_prefix_cons in Hq1, Hq2.
    assert (Hstep : forall sub sub',
              parent_ok (p2 :: rest) sub = true ->
              walk USet now (p2 :: rest) sub v = Ok sub' ->
              (assoc p fs = Some sub \/ (assoc p fs = None /\ sub = VDoc [])) ->
              get_by_dot (k :: q') (VDoc (set_key p sub' fs)) = get_by_dot (k :: q') (VDoc fs)).
    { intros sub sub' Hpo' Hs Hsub. simpl. rewrite assoc_set_key.
      destruct (k =? p) eqn:Ekp.
      - apply String.eqb_eq in Ekp. subst k. rewrite String.eqb_refl in Hq2.
        simpl in Hq1, Hq2.
        rewrite (IH now sub v sub' Hpo' Hs q' Hq1 Hq2).
        destruct Hsub as [-> | [-> ->]]; [reflexivity|].
        destruct q' as [|k' q'']; [rewrite is_prefix_nil_l in Hq1; discriminate|]. reflexivity.
      - reflexivity. }
    destruct (assoc p fs) as [sub|] eqn:Ea.
    + bind_inv Hw sub' Hs. inversion Hw; subst d'.
      eapply Hstep; [exact Hpo | exact Hs | left; reflexivity].
    + bind_inv Hw sub' Hs. inversion Hw; subst d'.
      eapply Hstep; [apply parent_ok_empty | exact Hs | right; split; reflexivity].
Qed.

(* a non-trivial instance: {"$set": {"a.b.c": 7}} on {_id: 1, a: {x: 2}} *)
Example set_laws_example :
  let d := VDoc [("_id", VInt 1); ("a", VDoc [("x", VInt 2)])] in
  parent_ok ["a"; "b"; "c"] d = true /\
  walk USet 0 ["a"; "b"; "c"] d (VInt 7)
  = Ok (VDoc [("_id", VInt 1); ("a", VDoc [("x", VInt 2); ("b", VDoc [("c", VInt 7)])])]).
Proof. split; vm_compute; reflexivity. Qed.
