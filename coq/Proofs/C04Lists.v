(* C04 proofs, part 4: operators over a list of operands ($add, $multiply, $concat,
   $concatArrays, the accumulator-style operators, array literals). *)
From Coq Require Import ZArith List String Bool Ascii Lia.
From Verif Require Import Value PyEq BsonOrder Path Update Filter FilterSpec Cursor Expr ExprSpec ExprGuard.
From Verif Require Import C01Values C04Base C04Paths C04Order C04Slice C04Ops.
Import ListNotations.
Open Scope Z_scope.
Open Scope string_scope.
Open Scope list_scope.

(* ------------------------------------------------------------ documents of computed fields *)
Definition m_fields vars doc :=
  fix fields (l : list (string * value)) (acc : list (string * value)) : eres :=
    match l with
    | [] => EV (VDoc acc)
    | (fk, fv) :: l' =>
        match eval vars doc true fv with
        | EV v => fields l' (set_key fk v acc)
        | EMiss => fields l' acc
        | EE er => EE er
        end
    end.
Definition s_fields vars doc :=
  fix fields (l : list (string * value)) (acc : list (string * value)) : sres :=
    match l with
    | [] => SV (VDoc acc)
    | (fk, fv) :: l' =>
        match seval vars doc fv with
        | SV v => fields l' (set_key fk v acc)
        | SMiss => fields l' acc
        | other => other
        end
    end.

Lemma ltb_1_SS n : (1 <?? Z.of_nat (S (S n))) = true.
Proof. apply Z.ltb_lt. lia. Qed.

Lemma eval_doc_multi vars doc kv1 kv2 fs :
  eval vars doc true (VDoc (kv1 :: kv2 :: fs)) =
  if existsb (fun kv : string * value => starts_dollar (fst kv)) (kv1 :: kv2 :: fs) then EE EOpFail
  else m_fields vars doc (kv1 :: kv2 :: fs) [].
Proof.
  transitivity (if (1 <?? Z.of_nat (S (S (List.length fs))))
                   && existsb (fun kv : string * value => starts_dollar (fst kv)) (kv1 :: kv2 :: fs)
                then EE EOpFail else m_fields vars doc (kv1 :: kv2 :: fs) []).
  - destruct kv1, kv2. reflexivity.
  - rewrite ltb_1_SS. reflexivity.
Qed.

Lemma seval_doc_multi vars doc kv1 kv2 fs :
  seval vars doc (VDoc (kv1 :: kv2 :: fs)) =
  if existsb (fun kv : string * value => starts_dollar (fst kv)) (kv1 :: kv2 :: fs) then SErr
  else if negb (forallb (fun kv : string * value => plain_name (fst kv)) (kv1 :: kv2 :: fs)) then SUndef
  else s_fields vars doc (kv1 :: kv2 :: fs) [].
Proof.
  transitivity (if (1 <?? Z.of_nat (S (S (List.length fs))))
                   && existsb (fun kv : string * value => starts_dollar (fst kv)) (kv1 :: kv2 :: fs)
                then SErr
                else if negb (forallb (fun kv : string * value => plain_name (fst kv)) (kv1 :: kv2 :: fs)) then SUndef
                else s_fields vars doc (kv1 :: kv2 :: fs) []).
  - destruct kv1, kv2. reflexivity.
  - rewrite ltb_1_SS. reflexivity.
Qed.

(* a name that does not start with "$": empty, or its first character differs from "$" in
   some bit; [tac] closes every such case (the kernel then computes [starts_dollar]) *)
Ltac no_dollar k H tac :=
  let b0 := fresh "b" in let b1 := fresh "b" in let b2 := fresh "b" in let b3 := fresh "b" in
  let b4 := fresh "b" in let b5 := fresh "b" in let b6 := fresh "b" in let b7 := fresh "b" in
  let k' := fresh "k" in
  destruct k as [|[b0 b1 b2 b3 b4 b5 b6 b7] k']; [tac|];
  destruct b0; [tac|]; destruct b1; [tac|]; destruct b2; [|tac]; destruct b3; [tac|];
  destruct b4; [tac|]; destruct b5; [|tac]; destruct b6; [tac|]; destruct b7; [tac|];
  discriminate H.

Lemma seval_field1 vars doc k a : starts_dollar k = false ->
  seval vars doc (VDoc [(k, a)]) =
  if negb (plain_name k) then SUndef else
  match seval vars doc a with
  | SV v => SV (VDoc [(k, v)])
  | SMiss => SV (VDoc [])
  | other => other
  end.
Proof.
  intros H. no_dollar k H ltac:(reflexivity).
Qed.

Lemma eval_field1 vars doc k a : starts_dollar k = false ->
  eval vars doc true (VDoc [(k, a)]) =
  match eval vars doc true a with
  | EV v => EV (VDoc [(k, v)])
  | EMiss => EV (VDoc [])
  | EE er => EE er
  end.
Proof.
  intros H. no_dollar k H ltac:(reflexivity).
Qed.

Lemma fields_agree vars doc l : forall acc,
  (forall k x, In (k, x) l -> R (seval (lift vars) doc x) (eval vars doc true x)) ->
  R (s_fields (lift vars) doc l acc) (m_fields vars doc l acc).
Proof.
  induction l as [|[fk fv] l IH]; intros acc Hl; [done_R|].
  pose proof (Hl fk fv (or_introl eq_refl)) as Hf.
  assert (Hl' : forall k x, In (k, x) l -> R (seval (lift vars) doc x) (eval vars doc true x))
    by (intros k x Hin; apply (Hl k x); right; exact Hin).
  change (s_fields (lift vars) doc ((fk, fv) :: l) acc) with
    (match seval (lift vars) doc fv with
     | SV v => s_fields (lift vars) doc l (set_key fk v acc)
     | SMiss => s_fields (lift vars) doc l acc
     | other => other
     end).
  change (m_fields vars doc ((fk, fv) :: l) acc) with
    (match eval vars doc true fv with
     | EV v => m_fields vars doc l (set_key fk v acc)
     | EMiss => m_fields vars doc l acc
     | EE er => EE er
     end).
  rc Hf; try done_R; apply IH; exact Hl'.
Qed.

(* a document without operator keys never evaluates to a scalar, null or missing *)
Lemma s_fields_shape vars doc l : forall acc,
  match s_fields vars doc l acc with SV (VDoc _) | SErr | SUndef => True | _ => False end.
Proof.
  induction l as [|[fk fv] l IH]; intros acc; [exact I|].
  change (s_fields vars doc ((fk, fv) :: l) acc) with
    (match seval vars doc fv with
     | SV v => s_fields vars doc l (set_key fk v acc)
     | SMiss => s_fields vars doc l acc
     | other => other
     end).
  destruct (seval vars doc fv); try exact I; apply IH.
Qed.

Lemma seval_plain_doc vars doc afs :
  existsb (fun kv : string * value => starts_dollar (fst kv)) afs = false ->
  match seval vars doc (VDoc afs) with SV (VDoc _) | SErr | SUndef => True | _ => False end.
Proof.
  intros Hd. destruct afs as [|[k a] [|kv2 afs]].
  - exact I.
  - simpl in Hd. rewrite orb_false_r in Hd. rewrite (seval_field1 _ _ _ _ Hd).
    destruct (plain_name k); simpl; [|exact I]. destruct (seval vars doc a); exact I.
  - rewrite seval_doc_multi, Hd.
    destruct (negb (forallb (fun kv : string * value => plain_name (fst kv)) ((k, a) :: kv2 :: afs))); [exact I|].
    apply s_fields_shape.
Qed.

Lemma case_doc_single doc k arg : starts_dollar k = false -> IHarg doc arg -> P doc (VDoc [(k, arg)]).
Proof.
  intros Hk IH vars Hg. simpl in Hg. rewrite Hk in Hg. simpl in Hg.
  pose proof (IH arg (le_n _) vars Hg) as Ha.
  rewrite (seval_field1 _ _ _ _ Hk), (eval_field1 _ _ _ _ Hk).
  destruct (plain_name k); simpl; [|done_R].
  rc Ha; done_R.
Qed.

Lemma case_doc_multi doc fs : (List.length fs <> 1)%nat ->
  (forall k x, In (k, x) fs -> P doc x) -> P doc (VDoc fs).
Proof.
  intros Hlen IH vars Hg.
  destruct fs as [|kv1 [|kv2 fs]]; [done_R|contradiction|].
  rewrite eval_doc_multi, seval_doc_multi.
  destruct (existsb (fun kv : string * value => starts_dollar (fst kv)) (kv1 :: kv2 :: fs)); [done_R|].
  destruct (negb (forallb (fun kv : string * value => plain_name (fst kv)) (kv1 :: kv2 :: fs))); [done_R|].
  apply fields_agree. intros k x Hin. apply (IH k x Hin).
  assert (Hr : reasons vars doc (VDoc (kv1 :: kv2 :: fs)) =
               zor_list (map (fun kv : string * value => match kv with (_, cv) => reasons vars doc cv end) (kv1 :: kv2 :: fs)))
    by (destruct kv1; reflexivity).
  rewrite Hr in Hg. exact (zor_list_map0 _ _ Hg (k, x) Hin).
Qed.

(* ------------------------------------------------------------ array literals *)
Lemma case_arr doc xs : (forall x, In x xs -> P doc x) -> P doc (VArr xs).
Proof.
  intros IH vars Hg.
  assert (Hx : forall x, In x xs -> reasons vars doc x = 0) by (apply zor_list_map0; exact Hg).
  assert (HF : Forall2 R (map (seval (lift vars) doc) xs) (map (eval vars doc true) xs)).
  { apply Forall2_map_in. intros x Hin. apply IH; [exact Hin|apply Hx; exact Hin]. }
  change (eval vars doc true (VArr xs)) with
    (with_list (map (fun x => match eval vars doc true x with EMiss => EV VNull | r => r end) xs) (fun vs => EV (VArr vs))).
  change (seval (lift vars) doc (VArr xs)) with
    (with_all (map (seval (lift vars) doc) xs) (fun vs => SV (VArr vs))).
  replace (map (fun x => match eval vars doc true x with EMiss => EV VNull | r => r end) xs)
    with (map mi (map (eval vars doc true) xs))
    by (rewrite map_map; apply map_ext; intros x; destruct (eval vars doc true x); reflexivity).
  rewrite with_list_mi. unfold with_all.
  destruct (list_cases _ _ HF) as [Hu|Hu|er Hu He Hc|vs Hu He Hv Hc].
  - rewrite Hu. done_R.
  - rewrite Hu. done_R.
  - rewrite Hu, He, Hc. done_R.
  - rewrite Hu, He, Hc, Hv, svalues_SV. done_R.
Qed.

(* ------------------------------------------------------------ $add / $multiply *)
Definition m_scan (k : string) (vs : list value) :=
  fix scan (l : list value) : eres :=
    match l with
    | [] => if k =? "$add" then EV (py_sum vs)
            else match vs with
                 | v :: r => match py_reduce_mul v r with
                             | Ok p => EV p | Err er => EE er end
                 | [] => EE ECrash
                 end
    | v :: l' => if is_null v then EV VNull
                 else if is_number v then scan l' else EE ECrash
    end.

Lemma eval_add k vars doc xs : k = "$add" \/ k = "$multiply" ->
  eval vars doc true (VDoc [(k, VArr xs)]) =
  match xs with
  | [] => EE ECrash
  | _ => with_list (map (fun x => many_item true (eval vars doc true x)) xs) (fun vs => m_scan k vs vs)
  end.
Proof. intros [->| ->]; destruct xs; reflexivity. Qed.

Definition s_add (k : string) (args : list sres) : sres :=
  if existsb is_sundef args then SUndef
  else if existsb is_serr args then SUndef
  else if match args with [] => true | _ => false end then SUndef
  else if negb (forallb (fun r => nullish r || match r with SV v => is_num v | _ => false end) args)
       then SUndef
  else if existsb nullish args then SV VNull
  else match svalues args with
       | Some vs =>
           if negb (forallb is_num vs) then SUndef
           else if k =? "$add" then match ssum vs with Some s => SV s | None => SUndef end
           else match vs with
                | v :: r => match sprod v r with Some p => SV p | None => SUndef end
                | [] => SUndef
                end
       | None => SUndef
       end.

Lemma seval_add_gen k vars doc arg : k = "$add" \/ k = "$multiply" ->
  seval vars doc (VDoc [(k, arg)]) =
  s_add k (match arg with VArr xs => map (seval vars doc) xs | _ => [seval vars doc arg] end).
Proof. intros [->| ->]; reflexivity. Qed.

Lemma seval_add k vars doc xs : k = "$add" \/ k = "$multiply" ->
  seval vars doc (VDoc [(k, VArr xs)]) = s_add k (map (seval vars doc) xs).
Proof. intros Hk. exact (seval_add_gen k vars doc (VArr xs) Hk). Qed.

Lemma scan_null k vs l :
  forallb (fun v => is_null v || is_num v) l = true -> existsb is_null l = true ->
  m_scan k vs l = EV VNull.
Proof.
  induction l as [|v l IH]; intros Ha Hn; [discriminate|].
  simpl in Ha, Hn. apply andb_true_iff in Ha. destruct Ha as [Hv Ha].
  simpl. destruct (is_null v) eqn:En; [reflexivity|].
  simpl in Hv, Hn. assert (Hnum : is_number v = true) by (destruct v; try discriminate; reflexivity).
  rewrite Hnum. apply IH; assumption.
Qed.

Lemma scan_nums k vs l :
  forallb is_num l = true ->
  m_scan k vs l = m_scan k vs [].
Proof.
  induction l as [|v l IH]; intros Ha; [reflexivity|].
  simpl in Ha. apply andb_true_iff in Ha. destruct Ha as [Hv Ha].
  change (m_scan k vs (v :: l)) with
    (if is_null v then EV VNull else if is_number v then m_scan k vs l else EE ECrash).
  destruct v; try discriminate; simpl; apply IH; exact Ha.
Qed.

Lemma nullnum_num vs : forallb (fun v => is_null v || is_num v) vs = true ->
  existsb is_null vs = false -> forallb is_num vs = true.
Proof.
  induction vs as [|v vs IH]; intros Ha Hn; [reflexivity|].
  simpl in *. apply andb_true_iff in Ha. destruct Ha as [Hv Ha].
  apply orb_false_iff in Hn. destruct Hn as [Hn1 Hn2]. rewrite Hn1 in Hv. simpl in Hv.
  rewrite Hv, (IH Ha Hn2). reflexivity.
Qed.

Lemma eval_add_plain k vars doc arg : k = "$add" \/ k = "$multiply" -> is_arr arg = false ->
  eval vars doc true (VDoc [(k, arg)]) = EE ECrash.
Proof.
  intros Hk' Ea. destruct Hk' as [->| ->]; destruct arg; try discriminate Ea; reflexivity.
Qed.

Lemma case_addmul doc k arg : In k ["$add"; "$multiply"] -> IHarg doc arg -> P doc (VDoc [(k, arg)]).
Proof.
  intros Hk IH vars Hg.
  assert (Hk' : k = "$add" \/ k = "$multiply") by (destruct Hk as [<-|[<-|[]]]; tauto).
  assert (Ho : ordinary k) by (destruct Hk' as [->| ->]; ord).
  destruct (is_arr arg) eqn:Ea.
  - destruct arg as [| | | | | | | |xs]; try discriminate Ea.
    destruct (guard_list _ _ _ _ Ho Hg) as [Hx _].
    pose proof (IH_list _ _ _ IH Hx) as HF.
    rewrite (eval_add _ _ _ _ Hk'), (seval_add _ _ _ _ Hk').
    destruct xs as [|x0 xs0]; [done_R|]. remember (x0 :: xs0) as xs eqn:Exs.
    replace (match xs with [] => EE ECrash | _ => with_list (map (fun x => many_item true (eval vars doc true x)) xs) (fun vs => m_scan k vs vs) end)
      with (with_list (map (fun x => many_item true (eval vars doc true x)) xs) (fun vs => m_scan k vs vs))
      by (rewrite Exs; reflexivity).
    rewrite map_many_item, with_list_mi. unfold s_add.
    remember (map (seval (lift vars) doc) xs) as ss eqn:Ess.
    assert (Enil : match ss with [] => true | _ => false end = false) by (rewrite Ess, Exs; reflexivity).
    clear Exs Ess.
    destruct (list_cases _ _ HF) as [Hu|Hu|er Hu He Hc|vs Hu He Hv Hc].
    + rewrite Hu. done_R.
    + rewrite Hu. done_R.
    + rewrite Hu, He. done_R.
    + rewrite Hu, He, Hc, Enil.
      rewrite (ornull_forallb _ (fun v => is_null v || is_num v) _ _ Hv) by (intros; reflexivity).
      destruct (forallb (fun v => is_null v || is_num v) vs) eqn:Hnn; simpl; [|done_R].
      rewrite (ornull_nullish _ _ Hv).
      destruct (existsb is_null vs) eqn:Hnull.
      * rewrite (scan_null _ _ _ Hnn Hnull). done_R.
      * rewrite (ornull_no_null _ _ Hv Hnull), svalues_SV.
        pose proof (nullnum_num _ Hnn Hnull) as Hnum. rewrite Hnum. simpl.
        rewrite (scan_nums _ _ _ Hnum). simpl.
        destruct Hk' as [->| ->]; simpl.
        -- rewrite (py_sum_ssum _ Hnum). done_R.
        -- destruct vs as [|v r]; [done_R|].
           simpl in Hnum. apply andb_true_iff in Hnum. destruct Hnum as [H1 H2].
           pose proof (prod_agree r v H1 H2) as Hp.
           destruct (sprod v r); rewrite Hp; done_R.
  - (* operand not written as an array: F-ADD-SCALAR *)
    destruct (guard_unary _ _ _ _ Ho Ea Hg) as [_ Hn].
    rewrite (eval_add_plain _ _ _ _ Hk' Ea).
    assert (Hbit : node_reasons k arg [eval vars doc true arg] = 0 -> False).
    { intros H. unfold node_reasons in H. destruct Hk' as [->| ->]; destruct arg; try discriminate Ea;
        simpl in H; split_guard H; discriminate. }
    destruct arg as [|b|z|e|s|us tz|n|afs|xs]; try (exfalso; apply Hbit; apply Hn; exact I).
    + destruct (existsb (fun kv : string * value => starts_dollar (fst kv)) afs) eqn:Ed;
        [exfalso; apply Hbit; apply Hn; reflexivity|].
      pose proof (seval_plain_doc (lift vars) doc afs Ed) as Hs.
      assert (Hsp : seval (lift vars) doc (VDoc [(k, VDoc afs)]) = s_add k [seval (lift vars) doc (VDoc afs)])
        by exact (seval_add_gen k (lift vars) doc (VDoc afs) Hk').
      rewrite Hsp. clear Hsp. unfold s_add.
      destruct (seval (lift vars) doc (VDoc afs)) as [v| | |]; try destruct Hs; simpl; try done_R.
      destruct v; try destruct Hs; simpl; done_R.
Qed.



(* ------------------------------------------------------------ $concat *)
Definition m_concat (vs : list value) : eres :=
  if existsb is_null vs then EV VNull
  else if forallb is_str vs then
    EV (VStr (fold_left (fun acc v => match v with VStr s => String.append acc s | _ => acc end) vs EmptyString))
  else EE EUnmodelled.
Definition s_concat (args : list sres) : sres :=
  if existsb is_sundef args || existsb is_serr args then SUndef
  else if existsb nullish args then SV VNull
  else match svalues args with
       | Some vs =>
           if forallb is_str vs then
             SV (VStr (fold_left (fun acc v => match v with VStr s => String.append acc s | _ => acc end) vs EmptyString))
           else SUndef
       | None => SUndef
       end.
Lemma eval_concat vars doc xs :
  eval vars doc true (VDoc [("$concat", VArr xs)]) =
  with_list (map (fun x => many_item true (eval vars doc true x)) xs) m_concat.
Proof. reflexivity. Qed.
Lemma seval_concat vars doc xs :
  seval vars doc (VDoc [("$concat", VArr xs)]) = s_concat (map (seval vars doc) xs).
Proof. reflexivity. Qed.

Lemma case_concat doc arg : IHarg doc arg -> P doc (VDoc [("$concat", arg)]).
Proof.
  intros IH vars Hg. assert (Ho : ordinary "$concat") by ord.
  destruct arg as [| | | | | | | |xs]; try (simpl; done_R).
  destruct (guard_list _ _ _ _ Ho Hg) as [Hx _].
  pose proof (IH_list _ _ _ IH Hx) as HF.
  rewrite eval_concat, seval_concat, map_many_item, with_list_mi. unfold s_concat.
  destruct (list_cases _ _ HF) as [Hu|Hu|er Hu He Hc|vs Hu He Hv Hc].
  - rewrite Hu. done_R.
  - rewrite Hu. done_R.
  - rewrite Hu, He. done_R.
  - rewrite Hu, He, Hc. simpl. rewrite (ornull_nullish _ _ Hv). unfold m_concat.
    destruct (existsb is_null vs) eqn:Hnull; [done_R|].
    rewrite (ornull_no_null _ _ Hv Hnull), svalues_SV.
    destruct (forallb is_str vs); done_R.
Qed.

(* ------------------------------------------------------------ $concatArrays *)
Definition m_concatArrays (vs : list value) : eres :=
  if negb (forallb (fun v => is_null v || is_arr v) vs) then EE EOpFail
  else if existsb is_null vs then EV VNull
  else EV (VArr (flat_map (fun v => match v with VArr l => l | _ => [] end) vs)).
Definition s_concatArrays (args : list sres) : sres :=
  if existsb is_sundef args || existsb is_serr args then SUndef
  else if existsb nullish args then SV VNull
  else match svalues args with
       | Some vs =>
           if forallb is_arr vs then
             SV (VArr (flat_map (fun v => match v with VArr l => l | _ => [] end) vs))
           else SErr
       | None => SUndef
       end.
Lemma eval_concatArrays vars doc arg :
  eval vars doc true (VDoc [("$concatArrays", arg)]) =
  match arg with
  | VArr xs => with_list (map (fun x => many_item true (eval vars doc true x)) xs) m_concatArrays
  | _ => with_list [many_item true (eval vars doc true arg)] m_concatArrays
  end.
Proof. reflexivity. Qed.
Lemma seval_concatArrays vars doc arg :
  seval vars doc (VDoc [("$concatArrays", arg)]) =
  s_concatArrays (match arg with VArr xs => map (seval vars doc) xs | _ => [seval vars doc arg] end).
Proof. reflexivity. Qed.

(* the values collected from the operands *)
Lemma collect_vals ms : forall vs, collect (map mi ms) = Ok (Some vs) ->
  existsb nullish_e ms = existsb is_null vs /\
  existsb (fun r => match r with EV VNull | EV (VArr _) => false | EV _ => true | _ => false end) ms
  = existsb (fun v => negb (is_null v || is_arr v)) vs.
Proof.
  induction ms as [|m ms IH]; intros vs H; simpl in H.
  - inversion H. split; reflexivity.
  - destruct m as [v| |e]; simpl in H; try discriminate.
    + destruct (collect (map mi ms)) as [[ws|]|] eqn:Ec; try discriminate. inversion H; subst vs.
      destruct (IH ws eq_refl) as [H1 H2].
      split; [destruct v; simpl; first [reflexivity | exact H1] | destruct v; simpl; first [reflexivity | exact H2]].
    + destruct (collect (map mi ms)) as [[ws|]|] eqn:Ec; try discriminate. inversion H; subst vs.
      destruct (IH ws eq_refl) as [H1 H2]. split; simpl; first [reflexivity | exact H1 | exact H2].
Qed.

Lemma forallb_of_existsb_negb {A} (p : A -> bool) l :
  existsb (fun a => negb (p a)) l = false -> forallb p l = true.
Proof.
  induction l as [|a l IH]; simpl; intros H; [reflexivity|].
  apply orb_false_iff in H. destruct H as [H1 H2]. apply negb_false_iff in H1. rewrite H1, (IH H2). reflexivity.
Qed.

Lemma concatArrays_core vars doc arg xs :
  Forall2 R (map (seval (lift vars) doc) xs) (map (eval vars doc true) xs) ->
  node_reasons "$concatArrays" arg (map (eval vars doc true) xs) = 0 ->
  R (s_concatArrays (map (seval (lift vars) doc) xs))
    (with_list (map mi (map (eval vars doc true) xs)) m_concatArrays).
Proof.
  intros HF Hn. rewrite with_list_mi. unfold s_concatArrays.
  destruct (list_cases _ _ HF) as [Hu|Hu|er Hu He Hc|vs Hu He Hv Hc].
  - rewrite Hu. done_R.
  - rewrite Hu. done_R.
  - rewrite Hu, He. done_R.
  - rewrite Hu, He, Hc. simpl. rewrite (ornull_nullish _ _ Hv). unfold m_concatArrays.
    destruct (collect_vals _ _ Hc) as [Hc1 Hc2].
    destruct (existsb is_null vs) eqn:Hnull.
    + (* a null operand: the guard excludes a non-array next to it *)
      assert (Hall : forallb (fun v => is_null v || is_arr v) vs = true).
      { unfold node_reasons in Hn. simpl in Hn. split_guard Hn.
        match goal with H : andb (existsb nullish_e _) _ = false |- _ => rewrite Hc1, Hc2 in H; simpl in H; rename H into Hb end.
        apply forallb_of_existsb_negb. exact Hb. }
      rewrite Hall. simpl. done_R.
    + rewrite (ornull_no_null _ _ Hv Hnull), svalues_SV.
      assert (Hsame : forallb (fun v => is_null v || is_arr v) vs = forallb is_arr vs).
      { clear -Hnull. induction vs as [|v vs IH]; [reflexivity|]. simpl in *.
        apply orb_false_iff in Hnull. destruct Hnull as [H1 H2]. rewrite H1, (IH H2). reflexivity. }
      rewrite Hsame. destruct (forallb is_arr vs); simpl; done_R.
Qed.

Lemma concatArrays_single_guard arg m : node_reasons "$concatArrays" arg [m] = 0.
Proof.
  unfold node_reasons.
  destruct m as [v| |e]; [destruct v|..]; destruct arg as [| | | | | | | |ys]; try reflexivity;
    destruct ys as [|? [|? ?]]; reflexivity.
Qed.

Lemma case_concatArrays doc arg : IHarg doc arg -> P doc (VDoc [("$concatArrays", arg)]).
Proof.
  intros IH vars Hg. assert (Ho : ordinary "$concatArrays") by ord.
  rewrite eval_concatArrays, seval_concatArrays.
  destruct (is_arr arg) eqn:Ea.
  - destruct arg as [| | | | | | | |xs]; try discriminate Ea.
    destruct (guard_list _ _ _ _ Ho Hg) as [Hx Hn].
    pose proof (IH_list _ _ _ IH Hx) as HF.
    rewrite map_many_item. apply (concatArrays_core _ _ (VArr xs)); assumption.
  - destruct (guard_unary _ _ _ _ Ho Ea Hg) as [Hr _].
    pose proof (IH arg (le_n _) vars Hr) as Ha.
    rewrite !(match_not_arr arg _ _ Ea).
    apply (concatArrays_core vars doc arg [arg]); [constructor; [exact Ha|constructor]|apply concatArrays_single_guard].
Qed.


Arguments group_fold : simpl never.
Arguments sfold : simpl never.

Lemma fold_R k vs : In k ["$sum"; "$avg"; "$min"; "$max"] ->
  R (sfold k vs) (match group_fold k vs with Ok v => EV v | Err er => EE er end).
Proof.
  intros Hk. pose proof (fold_agree k vs Hk) as H.
  destruct (sfold k vs); try contradiction; [rewrite H|]; done_R.
Qed.

Lemma eval_fold_list k vars doc xs : In k ["$sum"; "$avg"; "$min"; "$max"] ->
  eval vars doc true (VDoc [(k, VArr xs)]) =
  with_list (map (fun x => many_item true (eval vars doc true x)) xs)
            (fun vs => match group_fold k vs with Ok v => EV v | Err er => EE er end).
Proof. intros [<-|[<-|[<-|[<-|[]]]]]; reflexivity. Qed.

Lemma seval_fold_list k vars doc xs : In k ["$sum"; "$avg"; "$min"; "$max"] ->
  seval vars doc (VDoc [(k, VArr xs)]) =
  match xs with
  | [_] => SUndef
  | _ => let args := map (seval vars doc) xs in
         if existsb is_sundef args || existsb is_serr args then SUndef
         else match svalues (map or_null args) with
              | Some vs => sfold k vs
              | None => SUndef
              end
  end.
Proof. intros [<-|[<-|[<-|[<-|[]]]]]; destruct xs as [|a [|b xs]]; reflexivity. Qed.

(* the single-operand form, for an operand that is not written as an array *)
Lemma eval_fold_plain k vars doc arg : In k ["$sum"; "$avg"; "$min"; "$max"] -> is_arr arg = false ->
  eval vars doc true (VDoc [(k, arg)]) =
  match arg with
  | VStr _ =>
      match eval vars doc true arg with
      | EV (VArr vs) => match group_fold k vs with Ok v => EV v | Err er => EE er end
      | EV (VStr _) | EV (VDoc _) => EE EUnmodelled
      | EV _ => EE EType
      | EMiss => EMiss
      | EE er => EE er
      end
  | _ => EE EUnmodelled
  end.
Proof.
  intros Hk Ea. destruct arg; try discriminate Ea; destruct Hk as [<-|[<-|[<-|[<-|[]]]]]; reflexivity.
Qed.

Lemma seval_fold_str k vars doc s : In k ["$sum"; "$avg"; "$min"; "$max"] ->
  seval vars doc (VDoc [(k, VStr s)]) =
  match seval vars doc (VStr s) with
  | SV (VArr vs) => sfold k vs
  | SV v => sfold k [v]
  | SMiss => sfold k []
  | _ => SUndef
  end.
Proof. intros [<-|[<-|[<-|[<-|[]]]]]; reflexivity. Qed.

(* the guard of the single-operand form: the operand is an array (or fails) *)
Lemma fold_guard_plain k arg m : In k ["$sum"; "$avg"; "$min"; "$max"] -> is_arr arg = false ->
  node_reasons k arg [m] = 0 -> match m with EV (VArr _) | EE _ => True | _ => False end.
Proof.
  intros Hk Ea Hn. unfold node_reasons in Hn.
  assert (Hl : match arg with VArr _ => true | _ => false end = false) by (destruct arg; try reflexivity; discriminate Ea).
  rewrite Hl in Hn. clear Hl Ea.
  destruct Hk as [<-|[<-|[<-|[<-|[]]]]]; simpl in Hn; split_guard Hn;
    (destruct m as [[]| |]; try exact I; discriminate).
Qed.

Lemma case_fold doc k arg : In k ["$sum"; "$avg"; "$min"; "$max"] -> IHarg doc arg -> P doc (VDoc [(k, arg)]).
Proof.
  intros Hk IH vars Hg.
  assert (Ho : ordinary k) by (destruct Hk as [<-|[<-|[<-|[<-|[]]]]]; ord).
  destruct (is_arr arg) eqn:Ea.
  - destruct arg as [| | | | | | | |xs]; try discriminate Ea.
    destruct (guard_list _ _ _ _ Ho Hg) as [Hx _].
    pose proof (IH_list _ _ _ IH Hx) as HF.
    rewrite (eval_fold_list _ _ _ _ Hk), (seval_fold_list _ _ _ _ Hk).
    destruct xs as [|a [|b xs']]; [|done_R|].
    all: rewrite map_many_item, with_list_mi; cbv zeta;
         destruct (list_cases _ _ HF) as [Hu|Hu|er Hu He Hc|vs Hu He Hv Hc];
         [rewrite Hu; done_R | rewrite Hu; done_R | rewrite Hu, He; done_R
         |rewrite Hu, He, Hc, Hv, svalues_SV; simpl; apply fold_R; exact Hk].
  - destruct (guard_unary _ _ _ _ Ho Ea Hg) as [Hr Hn].
    pose proof (IH arg (le_n _) vars Hr) as Ha. clear IH Hg Hr.
    rewrite (eval_fold_plain _ _ _ _ Hk Ea).
    destruct arg as [| | | |s| | | |]; try done_R.
    pose proof (fold_guard_plain _ _ _ Hk Ea (Hn I)) as Hm. clear Hn.
    rewrite (seval_fold_str _ _ _ _ Hk).
    absorb (VStr s) vars doc.
    rx Ha; try done_R; try contradiction.
    destruct v; try contradiction. apply fold_R. exact Hk.
Qed.

Lemma case_firstlast doc k arg : In k ["$first"; "$last"] -> IHarg doc arg -> P doc (VDoc [(k, arg)]).
Proof.
  intros [<-|[<-|[]]].
  all: unary
    ltac:(destruct xs as [|x [|y xs]]; simpl; try done_R; guard_off Hn)
    ltac:(try done_R; specialize (Hn I); rc Ha; simpl; try done_R; try goff;
          try (destruct v; simpl; try done_R; try goff)).
  - destruct xs; [goff|done_R].
  - destruct xs; [goff|]. rewrite last_cons. done_R.
Qed.



Definition spec_ops : list string :=
  ["$literal"; "$abs"; "$ceil"; "$floor"; "$trunc"; "$divide"; "$mod"; "$add"; "$multiply"; "$subtract";
   "$eq"; "$ne"; "$gt"; "$gte"; "$lt"; "$lte"; "$and"; "$or"; "$not"; "$cond"; "$ifNull"; "$switch"; "$let";
   "$map"; "$filter"; "$concat"; "$toLower"; "$toUpper"; "$strcasecmp"; "$substr"; "$size"; "$arrayElemAt";
   "$concatArrays"; "$slice"; "$isArray"; "$isNumber"; "$in"; "$setEquals"; "$sum"; "$avg"; "$min"; "$max";
   "$first"; "$last"; "$hour"; "$minute"; "$second"; "$millisecond"; "$dayOfWeek"].

Lemma seval_unknown svs doc k arg : starts_dollar k = true ->
  existsb (String.eqb k) spec_ops = false -> seval svs doc (VDoc [(k, arg)]) = SUndef.
Proof.
  intros Hd H. unfold spec_ops in H. simpl in H.
  repeat (apply orb_false_iff in H; let H1 := fresh "E" in destruct H as [H1 H]).
  clear H.
  (* one unfolding of [seval]; the tests on [k] are abstracted all at once, so that the
     proof term holds the (large) body of [seval] once *)
  cbn beta iota delta [seval].
  pattern (starts_dollar k),
    (k =? "$literal"), (k =? "$abs"), (k =? "$ceil"), (k =? "$floor"), (k =? "$trunc"), (k =? "$divide"),
    (k =? "$mod"), (k =? "$add"), (k =? "$multiply"), (k =? "$subtract"), (k =? "$eq"), (k =? "$ne"),
    (k =? "$gt"), (k =? "$gte"), (k =? "$lt"), (k =? "$lte"), (k =? "$and"), (k =? "$or"), (k =? "$not"),
    (k =? "$cond"), (k =? "$ifNull"), (k =? "$switch"), (k =? "$let"), (k =? "$map"), (k =? "$filter"),
    (k =? "$concat"), (k =? "$toLower"), (k =? "$toUpper"), (k =? "$strcasecmp"), (k =? "$substr"),
    (k =? "$size"), (k =? "$arrayElemAt"), (k =? "$concatArrays"), (k =? "$slice"), (k =? "$isArray"),
    (k =? "$isNumber"), (k =? "$in"), (k =? "$setEquals"), (k =? "$sum"), (k =? "$avg"), (k =? "$min"),
    (k =? "$max"), (k =? "$first"), (k =? "$last"), (k =? "$hour"), (k =? "$minute"), (k =? "$second"),
    (k =? "$millisecond"), (k =? "$dayOfWeek").
  match goal with |- ?G _ _ _ _ _ _ _ _ _ _ _ _ _ _ _ _ _ _ _ _ _ _ _ _ _ _ _ _ _ _ _ _ _ _ _ _ _ _ _ _ _ _ _ _ _ _ _ _ _ _ =>
    set (F := G) end.
  rewrite Hd.
  repeat match goal with E : (k =? _) = false |- _ => rewrite E; clear E end.
  reflexivity.
Qed.
