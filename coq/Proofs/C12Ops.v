(* C12 proofs, part 4: the projection operators $slice and $elemMatch. *)
From Coq Require Import ZArith List String Bool Ascii Lia.
From Verif Require Import Value PyEq BsonOrder Path Filter Update Project Coll ProjectSpec.
From Verif.Proofs Require Import C01Values C12Base.
Import ListNotations.
Open Scope Z_scope.
Open Scope string_scope.
Open Scope list_scope.

(* ---------------------------------------------------------------- windows of a list *)
Lemma skipn_min {A} (xs : list A) b : skipn b xs = skipn (Nat.min b (List.length xs)) xs.
Proof.
  destruct (Nat.le_gt_cases b (List.length xs)) as [H|H].
  - rewrite Nat.min_l by exact H. reflexivity.
  - rewrite Nat.min_r by lia. rewrite skipn_all. apply skipn_all2. lia.
Qed.

Lemma firstn_min {A} (ys : list A) a : firstn a ys = firstn (Nat.min a (List.length ys)) ys.
Proof.
  rewrite <- (firstn_all ys) at 1. rewrite firstn_firstn. reflexivity.
Qed.

Lemma window_eq {A} (xs : list A) a b a' b' :
  Nat.min b (List.length xs) = Nat.min b' (List.length xs) ->
  Nat.min a (List.length xs - Nat.min b (List.length xs))
  = Nat.min a' (List.length xs - Nat.min b (List.length xs)) ->
  firstn a (skipn b xs) = firstn a' (skipn b' xs).
Proof.
  intros Hb Ha. rewrite (skipn_min xs b), (skipn_min xs b'), <- Hb.
  rewrite (firstn_min _ a), (firstn_min _ a'), skipn_length. rewrite Ha. reflexivity.
Qed.

Ltac split_ltb :=
  repeat match goal with
         | |- context [?a <?? ?b] => destruct (Z.ltb_spec a b)
         end.

Lemma slice_int_ok xs c :
  let n := Z.of_nat (List.length xs) in
  slice_py xs (Some (if c <?? 0 then Z.max 0 (n + c) else 0))
              (Some (if c <?? 0 then n else Z.min c n))
  = (if c <?? 0 then skipn (Z.to_nat (Z.max 0 (n + c))) xs else firstn (Z.to_nat c) xs).
Proof.
  intro n. subst n. unfold slice_py. cbv beta zeta.
  destruct (Z.ltb_spec c 0) as [Hc|Hc].
  - rewrite <- (firstn_all (skipn (Z.to_nat (Z.max 0 (Z.of_nat (List.length xs) + c))) xs)).
    rewrite skipn_length.
    split_ltb; try lia; apply window_eq; lia.
  - change (firstn (Z.to_nat c) xs) with (firstn (Z.to_nat c) (skipn 0 xs)).
    split_ltb; try lia; apply window_eq; lia.
Qed.

Lemma slice_pair_ok xs s l :
  let n := Z.of_nat (List.length xs) in
  (l <?? 1) = false ->
  (s <?? 0) && (n <?? - s) = false ->
  slice_py xs (Some (if s <?? 0 then n + s else s))
              (Some (Z.min ((if s <?? 0 then n + s else s) + l) n))
  = firstn (Z.to_nat l) (skipn (Z.to_nat (if s <?? 0 then Z.max 0 (n + s) else s)) xs).
Proof.
  intros n Hl Hg. subst n. unfold slice_py. cbv beta zeta.
  apply Z.ltb_ge in Hl.
  destruct (Z.ltb_spec s 0) as [Hs|Hs]; simpl in Hg.
  - apply Z.ltb_ge in Hg. split_ltb; try lia; apply window_eq; lia.
  - split_ltb; try lia; apply window_eq; lia.
Qed.

(* ---------------------------------------------------------------- $elemMatch *)
Definition em_loop (q : value) : list value -> res (option value) :=
  fix go (xs : list value) : res (option value) :=
    match xs with
    | [] => Ok None
    | x :: xs' => let! b := filter_applies q x in if b then Ok (Some x) else go xs'
    end.

Lemma em_loop_spec q xs r : elem_match_spec xs q = Some r -> em_loop q xs = Ok r.
Proof.
  induction xs as [|x xs IH]; simpl; intro H.
  - inversion H. reflexivity.
  - destruct (filter_applies q x) as [[|]|e]; simpl.
    + inversion H. reflexivity.
    + apply IH. exact H.
    + discriminate.
Qed.

(* ---------------------------------------------------------------- one operator field *)
(* the step function of the fold in project_spec *)
Definition spec_step (dfs : list (string * value)) (acc : option value)
           (ko : string * list (string * value)) : option value :=
  match acc with
  | Some (VDoc afs) =>
      match assoc (fst ko) dfs, snd ko with
      | None, _ => Some (VDoc (del_key (fst ko) afs))
      | Some (VArr xs), [("$slice", arg)] =>
          match slice_spec xs arg with
          | Some ys => Some (VDoc (set_key (fst ko) (VArr ys) afs))
          | None => None
          end
      | Some (VArr xs), [("$elemMatch", q)] =>
          match elem_match_spec xs q with
          | Some (Some x) => Some (VDoc (set_key (fst ko) (VArr [x]) afs))
          | Some None => Some (VDoc (del_key (fst ko) afs))
          | None => None
          end
      | Some _, [("$elemMatch", _)] => Some (VDoc (del_key (fst ko) afs))
      | Some _, _ => None
      end
  | _ => None
  end.

Lemma spec_fold_none dfs ops : fold_left (spec_step dfs) ops None = None.
Proof. induction ops as [|ko ops IH]; [reflexivity|exact IH]. Qed.

(* the step function of the fold in copy_only_fields *)
Definition model_step (dfs : list (string * value)) (acc : res (list (string * value)))
           (kv : string * value) : res (list (string * value)) :=
  let! c := acc in
  match snd kv with
  | VDoc o => apply_proj_op (fst kv) o dfs c
  | _ => Ok c
  end.

Lemma model_fold_err dfs ops e : fold_left (model_step dfs) ops (Err e) = Err e.
Proof. induction ops as [|ko ops IH]; [reflexivity|exact IH]. Qed.

(* the value of one field after a step *)
Definition upd (f : string) (w : option value) (l : list (string * value)) (l' : list (string * value))
  : Prop :=
  NoDup (map fst l') /\ forall k, assoc k l' = if k =? f then w else assoc k l.

Lemma upd_set f v l : NoDup (map fst l) -> upd f (Some v) l (set_key f v l).
Proof. intro H. split; [apply NoDup_set_key; exact H|]. intro k. apply assoc_set_key. Qed.

Lemma upd_del f l : NoDup (map fst l) -> upd f None l (del_key f l).
Proof. intro H. split; [apply NoDup_del_key; exact H|]. intro k. apply assoc_del_key. exact H. Qed.

Lemma upd_trans f w1 w2 l l1 l2 : upd f w1 l l1 -> upd f w2 l1 l2 -> upd f w2 l l2.
Proof.
  intros [_ H1] [N2 H2]. split; [exact N2|]. intro k. rewrite H2, H1. destruct (k =? f); reflexivity.
Qed.

Lemma upd_same f l : NoDup (map fst l) -> upd f (assoc f l) l l.
Proof.
  intro H. split; [exact H|]. intro k. destruct (k =? f) eqn:E; [|reflexivity].
  apply String.eqb_eq in E. subst. reflexivity.
Qed.

Definition overshoot1 (dfs : list (string * value)) (ko : string * list (string * value)) : bool :=
  match snd ko, assoc (fst ko) dfs with
  | [("$slice", VArr [VInt s; VInt _])], Some (VArr xs) =>
      (s <?? 0) && (Z.of_nat (List.length xs) <?? - s)
  | _, _ => false
  end.

Lemma slice_neg_overshoot_eq dfs ops :
  slice_neg_overshoot (VDoc dfs) ops = existsb (overshoot1 dfs) ops.
Proof. reflexivity. Qed.

Lemma op_step dfs f name arg copy afs s :
  name = "$slice" \/ name = "$elemMatch" ->
  (assoc f copy = None \/ assoc f copy = assoc f dfs) ->
  NoDup (map fst copy) -> NoDup (map fst afs) ->
  overshoot1 dfs (f, [(name, arg)]) = false ->
  spec_step dfs (Some (VDoc afs)) (f, [(name, arg)]) = Some s ->
  exists copy' afs' w,
    apply_proj_op f [(name, arg)] dfs copy = Ok copy' /\ s = VDoc afs' /\
    upd f w afs afs' /\ upd f w copy copy'.
Proof.
  intros Hname Hc Hnc Hna Hg Hs.
  unfold spec_step in Hs. cbn [fst snd] in Hs. unfold overshoot1 in Hg. cbn [fst snd] in Hg.
  unfold apply_proj_op.
  destruct (assoc f dfs) as [x|] eqn:Ed.
  2:{ (* the field is absent from the document *)
    inversion Hs; subst s.
    assert (Hcn : assoc f copy = None) by (destruct Hc as [Hc|Hc]; exact Hc).
    rewrite Hcn. cbn [bind]. exists copy, (del_key f afs), None.
    split; [reflexivity|]. split; [reflexivity|]. split; [apply upd_del; exact Hna|].
    rewrite <- Hcn. apply upd_same. exact Hnc. }
  (* copy1: the copy with the field present *)
  set (copy1 := match assoc f copy with Some _ => copy | None => set_key f x copy end).
  assert (H1 : upd f (Some x) copy copy1).
  { unfold copy1. destruct Hc as [Hc|Hc]; rewrite Hc.
    - apply upd_set. exact Hnc.
    - rewrite <- Hc. apply upd_same. exact Hnc. }
  assert (Hrw : (let! c1 := match assoc f copy with
                           | Some _ => Ok (Some copy)
                           | None => Ok (Some (set_key f x copy))
                           end in
                 match c1 with
                 | None => Ok copy
                 | Some c => Ok c
                 end) = Ok copy1).
  { unfold copy1. destruct (assoc f copy); reflexivity. }
  assert (Hf1 : assoc f copy1 = Some x).
  { destruct H1 as [_ H1]. rewrite H1, String.eqb_refl. reflexivity. }
  assert (Hn1 : NoDup (map fst copy1)) by (destruct H1; assumption).
  replace (match assoc f copy with
           | Some _ => Ok (Some copy)
           | None => Ok (Some (set_key f x copy))
           end) with (Ok (A:=option (list (string * value))) (Some copy1))
    by (unfold copy1; destruct (assoc f copy); reflexivity).
  cbn [bind]. clear Hrw.
  destruct Hname as [Hname|Hname]; subst name.
  - (* $slice *)
    change (assoc "$slice" [("$slice", arg)]) with (Some arg).
    change (assoc "$elemMatch" [("$slice", arg)]) with (@None value).
    rewrite Hf1.
    destruct x as [| | | | | | | |xs]; try discriminate Hs.
    cbn iota in Hs. destruct (slice_spec xs arg) as [ys|] eqn:Esl; [|discriminate Hs].
    inversion Hs; subst s. clear Hs.
    assert (Hgoal : forall zs, zs = ys ->
              exists copy' afs' w,
                Ok (set_key f (VArr zs) copy1) = Ok copy' /\
                VDoc (set_key f (VArr ys) afs) = VDoc afs' /\ upd f w afs afs' /\ upd f w copy copy').
    { intros zs Hz. subst zs. exists (set_key f (VArr ys) copy1), (set_key f (VArr ys) afs), (Some (VArr ys)).
      split; [reflexivity|]. split; [reflexivity|]. split; [apply upd_set; exact Hna|].
      eapply upd_trans; [exact H1|apply upd_set; exact Hn1]. }
    unfold slice_spec in Esl.
    destruct arg as [| |c| | | | | |args]; try discriminate Esl.
    + (* $slice: n *)
      cbn [bind]. apply Hgoal. rewrite slice_int_ok.
      destruct (c <?? 0); inversion Esl; reflexivity.
    + (* $slice: [skip, limit] *)
      destruct args as [|a1 args]; [discriminate Esl|].
      destruct a1 as [| |sk| | | | | |]; try discriminate Esl.
      destruct args as [|a2 args]; [discriminate Esl|].
      destruct a2 as [| |lim| | | | | |]; try discriminate Esl.
      destruct args as [|a3 args]; [|discriminate Esl].
      destruct (lim <?? 1) eqn:El; [discriminate Esl|].
      cbn [as_int bind]. apply Hgoal. rewrite slice_pair_ok by assumption.
      inversion Esl. reflexivity.
  - (* $elemMatch *)
    change (assoc "$slice" [("$elemMatch", arg)]) with (@None value).
    change (assoc "$elemMatch" [("$elemMatch", arg)]) with (Some arg).
    cbn [bind]. rewrite Hf1.
    assert (Hdel : exists copy' afs' w,
                Ok (del_key f copy1) = Ok copy' /\
                VDoc (del_key f afs) = VDoc afs' /\ upd f w afs afs' /\ upd f w copy copy').
    { exists (del_key f copy1), (del_key f afs), None.
      split; [reflexivity|]. split; [reflexivity|]. split; [apply upd_del; exact Hna|].
      eapply upd_trans; [exact H1|apply upd_del; exact Hn1]. }
    destruct x as [| | | | | | | |xs];
      try (cbn iota in Hs; inversion Hs; subst s; exact Hdel).
    cbn iota in Hs. destruct (elem_match_spec xs arg) as [[e|]|] eqn:Eem; [| |discriminate Hs].
    + fold (em_loop arg). rewrite (em_loop_spec _ _ _ Eem). cbn [bind].
      inversion Hs; subst s.
      exists (set_key f (VArr [e]) copy1), (set_key f (VArr [e]) afs), (Some (VArr [e])).
      split; [reflexivity|]. split; [reflexivity|]. split; [apply upd_set; exact Hna|].
      eapply upd_trans; [exact H1|apply upd_set; exact Hn1].
    + fold (em_loop arg). rewrite (em_loop_spec _ _ _ Eem). cbn [bind].
      inversion Hs; subst s. exact Hdel.
Qed.

(* ---------------------------------------------------------------- all operator fields *)
Definition op_shape (ko : string * list (string * value)) : Prop :=
  exists name arg, snd ko = [(name, arg)] /\ (name = "$slice" \/ name = "$elemMatch").

Lemma ops_fold dfs : forall ops copy afs s,
  NoDup (map fst ops) ->
  (forall ko, In ko ops -> op_shape ko) ->
  existsb (overshoot1 dfs) ops = false ->
  NoDup (map fst copy) -> NoDup (map fst afs) ->
  (forall k, assoc k afs = if mem_str k (map fst ops) then assoc k dfs else assoc k copy) ->
  (forall f, In f (map fst ops) -> assoc f copy = None \/ assoc f copy = assoc f dfs) ->
  fold_left (spec_step dfs) ops (Some (VDoc afs)) = Some s ->
  exists out sfs,
    fold_left (model_step dfs) (map (fun ko => (fst ko, VDoc (snd ko))) ops) (Ok copy) = Ok out /\
    s = VDoc sfs /\ NoDup (map fst out) /\ NoDup (map fst sfs) /\
    forall k, assoc k sfs = assoc k out.
Proof.
  induction ops as [|[f o] ops IH]; intros copy afs s Hnd Hsh Hg Hnc Hna Hrel Hpre Hs.
  - simpl in *. inversion Hs; subst s. exists copy, afs. repeat split; auto.
  - simpl in Hnd. inversion Hnd as [|? ? Hni Hnd']; subst.
    destruct (Hsh (f, o)) as [name [arg [Ho Hname]]]; [left; reflexivity|]. cbn [snd] in Ho. subst o.
    simpl in Hg. apply orb_false_iff in Hg. destruct Hg as [Hg1 Hg2].
    cbn [fold_left map] in *.
    destruct (spec_step dfs (Some (VDoc afs)) (f, [(name, arg)])) as [s1|] eqn:Es1;
      [|rewrite spec_fold_none in Hs; discriminate Hs].
    destruct (op_step dfs f name arg copy afs s1 Hname
                (Hpre f ltac:(left; reflexivity)) Hnc Hna Hg1 Es1)
      as [copy' [afs' [w [Hm [Hs1 [[Na' Ua] [Nc' Uc]]]]]]].
    subst s1. unfold model_step at 2. cbn [bind fst snd]. rewrite Hm.
    apply (IH copy' afs' s Hnd'); auto.
    + intros ko Hko. apply Hsh. right. exact Hko.
    + intro k. rewrite Ua, Uc. specialize (Hrel k). simpl in Hrel.
      destruct (k =? f) eqn:E.
      * apply String.eqb_eq in E. subst k.
        apply mem_str_false in Hni. rewrite Hni. reflexivity.
      * exact Hrel.
    + intros f' Hf'. rewrite Uc. destruct (f' =? f) eqn:E.
      * apply String.eqb_eq in E. subst f'. contradiction.
      * apply Hpre. right. exact Hf'.
Qed.
