(* C02 proofs, part 5: every operator branch of the model is a local rewrite along the path
   of its field; one update document is a chain of local rewrites along [addressed u]. *)
From Coq Require Import ZArith List String Bool Ascii Lia.
From Verif Require Import Value PyEq BsonOrder Path Filter FilterSpec Update Project Coll
                          HistCheck HistProps ProjectSpec Cursor UpdateLaws.
From Verif.Proofs Require Import C01Values C12Base C02Base C02Frame C02Local.
Import ListNotations.
Open Scope Z_scope.
Open Scope string_scope.
Open Scope list_scope.

Ltac inv_ok H := inversion H; subst; clear H.

(* ---------------------------------------------------------------- small facts *)
Lemma py_add_wf a b s : py_add a b = Ok s -> wf_value s = true.
Proof. destruct a, b; simpl; intro H; try discriminate; inv_ok H; reflexivity. Qed.

Lemma Forall_removelast {A} (Q : A -> Prop) l : Forall Q l -> Forall Q (removelast l).
Proof.
  induction 1 as [|x l Hx Hl IH]; simpl; [constructor|].
  destruct l; [constructor|]. constructor; assumption.
Qed.

Lemma Forall_tl {A} (Q : A -> Prop) l : Forall Q l -> Forall Q (tl l).
Proof. destruct 1; simpl; [constructor|assumption]. Qed.

Lemma Forall_firstn' {A} (Q : A -> Prop) n l : Forall Q l -> Forall Q (firstn n l).
Proof.
  intro H. revert n. induction H as [|x l Hx Hl IH]; intros [|n]; simpl; constructor; auto.
Qed.

Lemma Forall_skipn' {A} (Q : A -> Prop) n l : Forall Q l -> Forall Q (skipn n l).
Proof.
  intro H. revert n. induction H as [|x l Hx Hl IH]; intros [|n]; simpl;
    [constructor | constructor | constructor; assumption | apply IH].
Qed.

Lemma Forall_filter' {A} (Q : A -> Prop) g l : Forall Q l -> Forall Q (List.filter g l).
Proof.
  induction 1 as [|x l Hx Hl IH]; simpl; [constructor|]. destruct (g x); [constructor|]; assumption.
Qed.

Lemma wf_pop_list xs arg :
  wf_value (VArr xs) = true -> wf_value (VArr (pop_list xs arg)) = true.
Proof.
  rewrite !wf_arr_iff. intro H. unfold pop_list. destruct xs as [|x xs]; [constructor|].
  destruct (py_eq arg (VInt 1)); [apply Forall_removelast | apply Forall_tl]; exact H.
Qed.

Lemma local_set_field fs k v :
  wf_value v = true -> local [k] (VDoc fs) (VDoc (set_key k v fs)).
Proof.
  intro Hv. destruct (assoc k fs) as [x|] eqn:Ea.
  - eapply L_doc; [left; exact Ea | apply L_end; exact Hv].
  - eapply (L_doc k [] fs (VDoc [])); [right; split; [exact Ea|reflexivity] | apply L_end; exact Hv].
Qed.

Lemma local_set_elem p xs i x v :
  as_index p = Some i -> nth_error xs (Z.to_nat i) = Some x -> wf_value v = true ->
  local [p] (VArr xs) (VArr (set_nth (Z.to_nat i) v xs)).
Proof. intros Hi Hn Hv. eapply L_arr; [exact Hi | exact Hn | apply L_end; exact Hv]. Qed.

Lemma fields_of_ok v fs : fields_of v = Ok fs -> v = VDoc fs.
Proof. destruct v; simpl; intro H; try discriminate. inv_ok H. reflexivity. Qed.

(* ---------------------------------------------------------------- the updaters *)
Lemma updater_local u now d last arg d' :
  wf_value d = true -> wf_value arg = true ->
  apply_updater u now d last arg = Ok d' -> local [last] d d'.
Proof.
  intros Hwf Harg H. destruct u; unfold apply_updater in H.
  - (* $set *)
    destruct d as [| | | | | | |fs|xs]; try (inv_ok H; apply L_refl).
    + inv_ok H. apply local_set_field. exact Harg.
    + destruct (as_index last) as [i|] eqn:Ei.
      * inv_ok H. apply L_pad; assumption.
      * destruct (part_modelled last); discriminate.
  - (* $unset *)
    destruct d as [| | | | | | |fs|xs]; try (inv_ok H; apply L_refl).
    inv_ok H. apply L_del.
  - (* $inc *)
    destruct d as [| | | | | | |fs|xs]; try (inv_ok H; apply L_refl).
    + bind_inv H s Hs. inv_ok H. apply local_set_field. eapply py_add_wf. exact Hs.
    + destruct (as_index last) as [i|] eqn:Ei.
      * destruct (nth_error xs (Z.to_nat i)) as [x|] eqn:En.
        -- bind_inv H s Hs. inv_ok H. eapply local_set_elem; [exact Ei | exact En |].
           assert (Hs' : py_add x arg = Ok s)
             by (unfold py_iadd in Hs; destruct x, arg; first [exact Hs | discriminate Hs]).
           eapply py_add_wf. exact Hs'.
        -- inv_ok H. apply L_pad; assumption.
      * destruct (part_modelled last); discriminate.
  - (* $max *)
    destruct d as [| | | | | | |fs|xs]; try (inv_ok H; apply L_refl).
    bind_inv H b Hb. inv_ok H. apply local_set_field.
    destruct b; [exact Harg|]. destruct (assoc last fs) as [x|] eqn:Ea; [|exact Harg].
    eapply wf_doc_assoc; eassumption.
  - (* $min *)
    destruct d as [| | | | | | |fs|xs]; try (inv_ok H; apply L_refl).
    bind_inv H b Hb. inv_ok H. apply local_set_field.
    destruct b; [exact Harg|]. destruct (assoc last fs) as [x|] eqn:Ea; [|exact Harg].
    eapply wf_doc_assoc; eassumption.
  - (* $pop *)
    destruct (negb (is_pop_arg arg)); [discriminate|].
    destruct d as [| | | | | | |fs|xs]; try (inv_ok H; apply L_refl).
    + destruct (assoc last fs) as [x|] eqn:Ea; [|discriminate].
      destruct x; try discriminate. inv_ok H. apply local_set_field.
      apply wf_pop_list. eapply wf_doc_assoc; eassumption.
    + destruct (as_index last) as [i|] eqn:Ei.
      * destruct (nth_error xs (Z.to_nat i)) as [x|] eqn:En; [|inv_ok H; apply L_refl].
        destruct x; try (destruct (truthy _); [discriminate | inv_ok H; apply L_refl]).
        inv_ok H. eapply local_set_elem; [exact Ei | exact En |].
        apply wf_pop_list. eapply wf_arr_nth; eassumption.
      * destruct (part_modelled last); discriminate.
  - (* $currentDate *)
    destruct d as [| | | | | | |fs|xs]; try (inv_ok H; apply L_refl).
    destruct (py_eq arg _); [discriminate|]. inv_ok H. apply local_set_field. reflexivity.
Qed.

(* ---------------------------------------------------------------- the path walk *)
Lemma walk_local u now : forall parts d arg d',
  wf_value d = true -> wf_value arg = true ->
  walk u now parts d arg = Ok d' -> local parts d d'.
Proof.
  induction parts as [|p [|q rest] IH]; intros d arg d' Hwf Harg H.
  - inv_ok H. apply L_refl.
  - rewrite walk_one in H. eapply updater_local; eassumption.
  - rewrite walk_cons2 in H.
    destruct d as [| | | | | | |fs|xs]; try (inv_ok H; apply L_refl).
    + destruct (assoc p fs) as [sub|] eqn:Ea.
      * bind_inv H sub' Hs. inv_ok H. eapply L_doc; [left; exact Ea|].
        eapply IH; [|exact Harg|exact Hs]. eapply wf_doc_assoc; eassumption.
      * assert (Hgen : (let! sub' := walk u now (q :: rest) (VDoc []) arg in
                        Ok (VDoc (set_key p sub' fs))) = Ok d' -> local (p :: q :: rest) (VDoc fs) d').
        { intro H'. bind_inv H' sub' Hs. inv_ok H'.
          eapply (L_doc p (q :: rest) fs (VDoc [])); [right; split; [exact Ea|reflexivity]|].
          eapply IH; [reflexivity|exact Harg|exact Hs]. }
        destruct u; try (apply Hgen; exact H). inv_ok H. apply L_refl.
    + destruct (as_index p) as [i|] eqn:Ei.
      * destruct (nth_error xs (Z.to_nat i)) as [sub|] eqn:En; [|discriminate].
        bind_inv H sub' Hs. inv_ok H. eapply L_arr; [exact Ei | exact En |].
        eapply IH; [|exact Harg|exact Hs]. eapply wf_arr_nth; eassumption.
      * destruct (negb (part_modelled p) || (p =? "$")); [discriminate|].
        apply L_skip; [exact Ei|]. eapply IH; eassumption.
Qed.

Definition field_paths (fields : list (string * value)) : list (list string) :=
  map (fun f => split_dots (fst f)) fields.

Lemma apply_fields_chain u now : forall fields d d',
  Forall (fun ka => wf_value (snd ka) = true) fields -> wf_value d = true ->
  apply_fields u now fields d = Ok d' -> chain (field_paths fields) d d'.
Proof.
  induction fields as [|[k arg] fields IH]; intros d d' Hargs Hwf H; simpl in H.
  - inv_ok H. reflexivity.
  - destruct (existsb _ _); [discriminate|]. bind_inv H d1 Hd1.
    inversion Hargs as [|? ? Ha Hargs']; subst. simpl in Ha.
    pose proof (walk_local _ _ _ _ _ _ Hwf Ha Hd1) as Hl.
    simpl. exists d1. split; [exact Hl|]. apply IH; [exact Hargs' | | exact H].
    eapply local_wf; eassumption.
Qed.

(* ---------------------------------------------------------------- with_parent *)
Lemma with_parent_spec_local (f : value -> string -> res value) :
  (forall parent last r, wf_value parent = true -> f parent last = Ok r -> local [last] parent r) ->
  forall parts d sub d',
    wf_value d = true -> with_parent_spec parts d sub f = Ok d' -> local parts d d'.
Proof.
  intro Hf. induction parts as [|p rest IH]; intros d sub d' Hwf H; [discriminate|].
  simpl in H. destruct (p =? "$"); [discriminate|].
  destruct d as [| | | | | | |fs|xs];
    try (destruct rest; [eapply Hf; eassumption | discriminate]).
  - destruct rest as [|q rest]; [eapply Hf; eassumption|].
    bind_inv H sub' Hsub. bind_inv H x' Hx. inv_ok H.
    destruct (assoc p fs) as [s|] eqn:Ea.
    + eapply L_doc; [left; exact Ea|]. eapply IH; [|exact Hx]. eapply wf_doc_assoc; eassumption.
    + eapply (L_doc p (q :: rest) fs (VDoc [])); [right; split; [exact Ea|reflexivity]|].
      eapply IH; [reflexivity|exact Hx].
  - destruct (as_index p) as [i|] eqn:Ei; [|destruct (part_modelled p); discriminate].
    bind_inv H sub1 Hsub1.
    destruct rest as [|q rest]; [eapply Hf; eassumption|].
    destruct (nth_error xs (Z.to_nat i)) as [x|] eqn:En; [|discriminate].
    bind_inv H sub2 Hsub2. bind_inv H x' Hx. inv_ok H.
    eapply L_arr; [exact Ei | exact En |]. eapply IH; [|exact Hx]. eapply wf_arr_nth; eassumption.
Qed.

(* ---------------------------------------------------------------- $push *)
Lemma Forall_slice_py (Q : value -> Prop) xs a b : Forall Q xs -> Forall Q (slice_py xs a b).
Proof. intro H. unfold slice_py. apply Forall_firstn'. apply Forall_skipn'. exact H. Qed.

Lemma Forall_insert_by {A} (Q : A -> Prop) lt x : forall l r,
  Q x -> Forall Q l -> insert_by lt x l = Ok r -> Forall Q r.
Proof.
  induction l as [|y l IH]; intros r Hx Hl H; simpl in H.
  - inv_ok H. constructor; [exact Hx|constructor].
  - bind_inv H b Hb. inversion Hl; subst. destruct b.
    + bind_inv H r' Hr. inv_ok H. constructor; [assumption|]. eapply IH; eassumption.
    + inv_ok H. constructor; [exact Hx|exact Hl].
Qed.

Lemma Forall_sort_by {A} (Q : A -> Prop) lt : forall l r,
  Forall Q l -> sort_by lt l = Ok r -> Forall Q r.
Proof.
  induction l as [|x l IH]; intros r Hl H; simpl in H.
  - inv_ok H. constructor.
  - bind_inv H s Hs. inversion Hl; subst. eapply Forall_insert_by; [| |exact H]; [assumption|].
    eapply IH; eassumption.
Qed.

Lemma Forall_py_sorted {A} (Q : A -> Prop) lt rv l r :
  Forall Q l -> py_sorted lt rv l = Ok r -> Forall Q r.
Proof.
  intros Hl H. unfold py_sorted in H. destruct rv.
  - bind_inv H s Hs. inv_ok H. apply Forall_rev. eapply Forall_sort_by; [|exact Hs].
    apply Forall_rev. exact Hl.
  - eapply Forall_sort_by; eassumption.
Qed.

(* the three stages of the $push branch, named *)
Definition push_cur (parent : value) (last : string) : res (list value) :=
  match parent with
  | VDoc fs => match assoc last fs with
               | None => Ok []
               | Some (VArr xs) => Ok xs
               | Some _ => Err ECrash
               end
  | VArr xs =>
      match as_index last with
      | Some i => match nth_error xs (Z.to_nat i) with
                  | Some (VArr ys) => Ok ys
                  | Some _ => Err ECrash
                  | None => Err ECrash
                  end
      | None => Err EUnmodelled
      end
  | _ => Err ECrash
  end.

Definition push_result (cur : list value) (arg : value) : res (list value) :=
  match arg with
  | VDoc mods =>
      if has_key "$each" mods then
        match assoc "$each" mods with
        | Some (VArr each) =>
            let! r1 := match assoc "$position" mods with
                       | Some p => match as_int p with
                                   | Some i => Ok (slice_py cur None (Some i) ++ each ++ slice_py cur (Some i) None)
                                   | None => Err EUnmodelled
                                   end
                       | None => Ok (cur ++ each)
                       end in
            let! r2 := match assoc "$sort" mods with
                       | None => Ok r1
                       | Some (VDoc [(k, dir)]) =>
                           match as_int dir with
                           | Some dz =>
                               py_sorted (fun a b =>
                                 match get_by_dot (split_dots k) a, get_by_dot (split_dots k) b with
                                 | Some x, Some y => py_lt x y
                                 | _, _ => Err EKey
                                 end) (dz <?? 0) r1
                           | None => Err EUnmodelled
                           end
                       | Some (VDoc _) => Err EUnmodelled
                       | Some dir =>
                           match as_int dir with
                           | Some dz => py_sorted py_lt (dz <?? 0) r1
                           | None => Err EUnmodelled
                           end
                       end in
            let! r3 := match assoc "$slice" mods with
                       | None => Ok r2
                       | Some s => match as_int s with
                                   | Some z => if z <?? 0 then Ok (slice_py r2 (Some z) None)
                                               else if z =?? 0 then Ok []
                                               else Ok (slice_py r2 None (Some z))
                                   | None => Err EUnmodelled
                                   end
                       end in
            if forallb (fun kv => mem_str (fst kv) ["$each"; "$slice"; "$position"; "$sort"]) mods
            then Ok r3 else Err EWrite
        | _ => Err EUnmodelled
        end
      else Ok (cur ++ [arg])
  | _ => Ok (cur ++ [arg])
  end.

Definition push_finish (parent : value) (last : string) (result : list value) : res value :=
  match parent with
  | VDoc fs => Ok (VDoc (set_key last (VArr result) fs))
  | VArr xs => match as_index last with
               | Some i => Ok (VArr (set_nth (Z.to_nat i) (VArr result) xs))
               | None => Err EUnmodelled
               end
  | _ => Err ECrash
  end.

Lemma push_one_eq spec doc field arg :
  push_one spec doc field arg =
  with_parent spec (split_dots field) doc (fun parent last =>
    let! cur := push_cur parent last in
    let! result := push_result cur arg in
    push_finish parent last result).
Proof. reflexivity. Qed.

Lemma push_result_wf cur arg r :
  Forall (fun x => wf_value x = true) cur -> wf_value arg = true ->
  push_result cur arg = Ok r -> Forall (fun x => wf_value x = true) r.
Proof.
  intros Hcur Harg H. unfold push_result in H.
  assert (Hplain : Forall (fun x => wf_value x = true) (cur ++ [arg])).
  { apply Forall_app. split; [exact Hcur|]. constructor; [exact Harg|constructor]. }
  destruct arg as [| | | | | | |mods|]; try (inv_ok H; exact Hplain).
  destruct (has_key "$each" mods); [|inv_ok H; exact Hplain].
  destruct (assoc "$each" mods) as [e|] eqn:Ee; [|discriminate].
  destruct e as [| | | | | | | |each]; try discriminate.
  assert (Heach : Forall (fun x => wf_value x = true) each).
  { apply wf_arr_iff. eapply wf_doc_assoc; eassumption. }
  bind_inv H r1 Hr1. bind_inv H r2 Hr2. bind_inv H r3 Hr3.
  destruct (forallb _ mods); [|discriminate]. inv_ok H.
  assert (H1 : Forall (fun x => wf_value x = true) r1).
  { destruct (assoc "$position" mods) as [p|].
    - destruct (as_int p); [|discriminate]. inv_ok Hr1.
      apply Forall_app. split; [apply Forall_slice_py; exact Hcur|].
      apply Forall_app. split; [exact Heach | apply Forall_slice_py; exact Hcur].
    - inv_ok Hr1. apply Forall_app. split; assumption. }
  assert (H2 : Forall (fun x => wf_value x = true) r2).
  { destruct (assoc "$sort" mods) as [sv|]; [|inv_ok Hr2; exact H1].
    destruct sv as [|b|z|e|s0|us tz|n|sfs|ys].
    1,4,5,6,7,9: cbn in Hr2; discriminate.
    1,2: cbn in Hr2; eapply Forall_py_sorted; eassumption.
    destruct sfs as [|[k dir] [|? ?]]; try discriminate.
    destruct (as_int dir); [|discriminate]. eapply Forall_py_sorted; eassumption. }
  destruct (assoc "$slice" mods) as [s|]; [|inv_ok Hr3; exact H2].
  destruct (as_int s) as [z|]; [|discriminate].
  destruct (z <?? 0); [inv_ok Hr3; apply Forall_slice_py; exact H2|].
  destruct (z =?? 0); inv_ok Hr3; [constructor | apply Forall_slice_py; exact H2].
Qed.

Lemma push_one_local spec d field arg d' :
  wf_value d = true -> wf_value arg = true ->
  push_one spec d field arg = Ok d' -> local (split_dots field) d d'.
Proof.
  intros Hwf Harg H. rewrite push_one_eq in H. unfold with_parent in H.
  eapply with_parent_spec_local; [|exact Hwf|exact H].
  intros parent last r Hwp Hr. bind_inv Hr cur Hcur. bind_inv Hr result Hres.
  destruct parent as [| | | | | | |fs|xs]; try discriminate.
  - simpl in Hr. inv_ok Hr. apply local_set_field. apply wf_arr_iff.
    eapply push_result_wf; [|exact Harg|exact Hres].
    simpl in Hcur. destruct (assoc last fs) as [x|] eqn:Ea; [|inv_ok Hcur; constructor].
    destruct x; try discriminate. inv_ok Hcur. apply wf_arr_iff. eapply wf_doc_assoc; eassumption.
  - simpl in Hr, Hcur. destruct (as_index last) as [i|] eqn:Ei; [|discriminate]. inv_ok Hr.
    destruct (nth_error xs (Z.to_nat i)) as [x|] eqn:En; [|discriminate].
    destruct x; try discriminate. inv_ok Hcur.
    eapply local_set_elem; [exact Ei | exact En |]. apply wf_arr_iff.
    eapply push_result_wf; [|exact Harg|exact Hres].
    apply wf_arr_iff. eapply wf_arr_nth; eassumption.
Qed.

(* ---------------------------------------------------------------- $addToSet *)
Lemma each_of_wf arg each :
  wf_value arg = true -> each_of arg = Some each -> Forall (fun x => wf_value x = true) each.
Proof.
  intros Harg H. unfold each_of in H. destruct arg as [| | | | | | |fs|]; try discriminate.
  destruct (assoc "$each" fs) as [e|] eqn:Ee; [|discriminate].
  destruct e; try discriminate. inv_ok H. apply wf_arr_iff. eapply wf_doc_assoc; eassumption.
Qed.

Definition ats_upd (arg : value) (cur : list value) : list value :=
  match each_of arg with
  | Some each => add_each cur each
  | None => if py_in arg cur then cur else cur ++ [arg]
  end.

Lemma ats_upd_wf arg cur :
  wf_value arg = true -> Forall (fun x => wf_value x = true) cur ->
  Forall (fun x => wf_value x = true) (ats_upd arg cur).
Proof.
  intros Harg Hcur. unfold ats_upd. destruct (each_of arg) as [each|] eqn:Ee.
  - unfold add_each. apply Forall_app. split; [exact Hcur|]. apply Forall_filter'.
    eapply each_of_wf; eassumption.
  - destruct (py_in arg cur); [exact Hcur|]. apply Forall_app. split; [exact Hcur|].
    constructor; [exact Harg|constructor].
Qed.

Definition ats_leaf (arg : value) (parent : value) (last : string) : res value :=
  match parent with
  | VDoc fs =>
      match assoc last fs with
      | None => Ok (VDoc (set_key last (VArr (ats_upd arg [])) fs))
      | Some (VArr xs) => Ok (VDoc (set_key last (VArr (ats_upd arg xs)) fs))
      | Some (VStr _) | Some (VDoc _) => Err EUnmodelled
      | Some _ => Err ECrash
      end
  | _ => Err EUnmodelled
  end.

Lemma ats_leaf_local arg parent last r :
  wf_value arg = true -> wf_value parent = true ->
  ats_leaf arg parent last = Ok r -> local [last] parent r.
Proof.
  intros Harg Hwp H. unfold ats_leaf in H.
  destruct parent as [| | | | | | |fs|xs]; try discriminate.
  destruct (assoc last fs) as [x|] eqn:Ea.
  - destruct x; try discriminate. inv_ok H. apply local_set_field. apply wf_arr_iff.
    apply ats_upd_wf; [exact Harg|]. apply wf_arr_iff. eapply wf_doc_assoc; eassumption.
  - inv_ok H. apply local_set_field. apply wf_arr_iff. apply ats_upd_wf; [exact Harg|constructor].
Qed.

Lemma add_to_set_one_eq spec doc field arg :
  add_to_set_one spec doc field arg =
  if has_each arg && match each_of arg with None => true | _ => false end then Err EUnmodelled else
  match split_dots field with
  | [name] =>
      match doc with
      | VDoc fs =>
          match assoc name fs with
          | None => Ok (VDoc (set_key name (VArr (ats_upd arg [])) fs))
          | Some (VArr xs) => Ok (VDoc (set_key name (VArr (ats_upd arg xs)) fs))
          | Some (VStr _) | Some (VDoc _) => Err EUnmodelled
          | Some _ => Err ECrash
          end
      | _ => Err ECrash
      end
  | _ =>
      let! _ := with_parent_d (split_dots field) doc (fun parent _ => Ok parent) in
      with_parent spec (split_dots field) doc (ats_leaf arg)
  end.
Proof. reflexivity. Qed.

Lemma add_to_set_one_local spec d field arg d' :
  wf_value d = true -> wf_value arg = true ->
  add_to_set_one spec d field arg = Ok d' -> local (split_dots field) d d'.
Proof.
  intros Hwf Harg H. rewrite add_to_set_one_eq in H.
  destruct (has_each arg && _); [discriminate|].
  assert (Hdeep : forall parts,
            (let! _ := with_parent_d parts d (fun parent _ => Ok parent) in
             with_parent spec parts d (ats_leaf arg)) = Ok d' -> local parts d d').
  { intros parts H'. bind_inv H' ign Hign. unfold with_parent in H'.
    eapply with_parent_spec_local; [|exact Hwf|exact H'].
    intros parent last r Hwp Hr. eapply (ats_leaf_local arg); eassumption. }
  destruct (split_dots field) as [|name [|q rest]] eqn:Esp;
    [apply Hdeep; exact H | | apply Hdeep; exact H].
  destruct d as [| | | | | | |fs|xs]; try discriminate.
  eapply (ats_leaf_local arg (VDoc fs) name d'); [exact Harg | exact Hwf |].
  unfold ats_leaf. exact H.
Qed.

(* ---------------------------------------------------------------- $pullAll *)
Definition pullall_leaf (vals : list value) (parent : value) (last : string) : res value :=
  match parent with
  | VDoc fs =>
      match assoc last fs with
      | None => Ok parent
      | Some (VArr xs) =>
          Ok (VDoc (set_key last (VArr (List.filter (fun o => negb (py_in o vals)) xs)) fs))
      | Some _ => Err EUnmodelled
      end
  | _ => Err EUnmodelled
  end.

Lemma pullall_leaf_local vals parent last r :
  wf_value parent = true -> pullall_leaf vals parent last = Ok r -> local [last] parent r.
Proof.
  intros Hwp H. unfold pullall_leaf in H.
  destruct parent as [| | | | | | |fs|xs]; try discriminate.
  destruct (assoc last fs) as [x|] eqn:Ea; [|inv_ok H; apply L_refl].
  destruct x; try discriminate. inv_ok H. apply local_set_field. apply wf_arr_iff.
  apply Forall_filter'. apply wf_arr_iff. eapply wf_doc_assoc; eassumption.
Qed.

Lemma pull_all_one_eq spec doc field arg :
  pull_all_one spec doc field arg =
  match arg with
  | VArr vals =>
      match split_dots field with
      | [name] =>
          match doc with
          | VDoc fs =>
              match assoc name fs with
              | None => Ok doc
              | Some (VArr xs) =>
                  Ok (VDoc (set_key name (VArr (List.filter (fun o => negb (py_in o vals)) xs)) fs))
              | Some _ => Err EUnmodelled
              end
          | _ => Err ECrash
          end
      | parts => with_parent spec parts doc (pullall_leaf vals)
      end
  | _ => Err EUnmodelled
  end.
Proof. reflexivity. Qed.

Lemma pull_all_one_local spec d field arg d' :
  wf_value d = true ->
  pull_all_one spec d field arg = Ok d' -> local (split_dots field) d d'.
Proof.
  intros Hwf H. rewrite pull_all_one_eq in H.
  destruct arg as [| | | | | | | |vals]; try discriminate.
  assert (Hdeep : forall parts,
            with_parent spec parts d (pullall_leaf vals) = Ok d' -> local parts d d').
  { intros parts H'. unfold with_parent in H'.
    eapply with_parent_spec_local; [|exact Hwf|exact H'].
    intros parent last r Hwp Hr. eapply pullall_leaf_local; eassumption. }
  destruct (split_dots field) as [|name [|q rest]]; [apply Hdeep; exact H | | apply Hdeep; exact H].
  destruct d as [| | | | | | |fs|xs]; try discriminate.
  eapply (pullall_leaf_local vals (VDoc fs) name d'); [exact Hwf|]. unfold pullall_leaf. exact H.
Qed.

(* ---------------------------------------------------------------- $pull *)
Lemma pull_walk_local (f : list value -> res (list value)) :
  (forall xs ys, Forall (fun x => wf_value x = true) xs -> f xs = Ok ys ->
                 Forall (fun x => wf_value x = true) ys) ->
  forall parts d d', wf_value d = true -> pull_walk parts d f = Ok d' -> local parts d d'.
Proof.
  intro Hf. induction parts as [|p rest IH]; intros d d' Hwf H; simpl in H.
  - destruct d as [| | | | | | |fs|xs]; try (inv_ok H; apply L_refl).
    bind_inv H ys Hys. inv_ok H. apply L_end. apply wf_arr_iff. eapply Hf; [|exact Hys].
    apply wf_arr_iff. exact Hwf.
  - destruct d as [| | | | s| | |fs|xs]; try discriminate.
    + destruct (String.index 0 p s); [discriminate|]. inv_ok H. apply L_refl.
    + destruct (assoc p fs) as [sub|] eqn:Ea; [|inv_ok H; apply L_refl].
      bind_inv H sub' Hs. inv_ok H. eapply L_doc; [left; exact Ea|].
      eapply IH; [|exact Hs]. eapply wf_doc_assoc; eassumption.
Qed.

Lemma pull_one_local d field arg d' :
  wf_value d = true -> pull_one d field arg = Ok d' -> local (split_dots field) d d'.
Proof.
  intros Hwf H. unfold pull_one in H. eapply pull_walk_local; [|exact Hwf|exact H].
  intros xs ys Hxs Hys. destruct arg as [| | | | | | |afs|];
    try (inv_ok Hys; apply Forall_filter'; exact Hxs).
  revert ys Hys. induction Hxs as [|x xs Hx Hxs IH]; intros ys Hys.
  - inv_ok Hys. constructor.
  - bind_inv Hys m1 Hm1. bind_inv Hys m Hm. bind_inv Hys r Hr. inv_ok Hys.
    specialize (IH r Hr). destruct m; [exact IH|]. constructor; assumption.
Qed.

(* ---------------------------------------------------------------- $rename *)
Lemma split_dots_aux_nodot s : forall cur,
  has_dot s = false -> split_dots_aux s cur = [(cur ++ s)%string].
Proof.
  induction s as [|c s IH]; intros cur H; simpl.
  - rewrite append_nil_r. reflexivity.
  - unfold has_dot in H. simpl in H. apply orb_false_iff in H. destruct H as [Hc Hs].
    rewrite Hc. rewrite IH by exact Hs. rewrite append_assoc_s. reflexivity.
Qed.

Lemma split_dots_nodot s : has_dot s = false -> split_dots s = [s].
Proof. intro H. unfold split_dots. rewrite split_dots_aux_nodot by exact H. reflexivity. Qed.

Definition rename_step (d : value) (src : string) (dstv : value) : res value :=
  match dstv with
  | VStr dst =>
      if has_dot src || has_dot dst then Err ENotImpl
      else match d with
           | VDoc dfs =>
               match assoc src dfs with
               | Some x => Ok (VDoc (set_key dst x (del_key src dfs)))
               | None => Ok d
               end
           | _ => Err ECrash
           end
  | _ => Err EUnmodelled
  end.

Definition rename_paths (src : string) (dstv : value) : list (list string) :=
  split_dots src :: match dstv with VStr dst => [split_dots dst] | _ => [] end.

Lemma rename_step_chain d src dstv d1 :
  wf_value d = true -> rename_step d src dstv = Ok d1 -> chain (rename_paths src dstv) d d1.
Proof.
  intros Hwf H. unfold rename_step in H. destruct dstv as [| | | |dst| | | |]; try discriminate.
  destruct (has_dot src || has_dot dst) eqn:Ed; [discriminate|].
  apply orb_false_iff in Ed. destruct Ed as [Es Ed].
  unfold rename_paths. rewrite (split_dots_nodot _ Es), (split_dots_nodot _ Ed).
  destruct d as [| | | | | | |dfs|]; try discriminate.
  destruct (assoc src dfs) as [x|] eqn:Ea; [|inv_ok H; apply chain_refl].
  inv_ok H. exists (VDoc (del_key src dfs)). split; [apply L_del|].
  apply chain_one. apply local_set_field. eapply wf_doc_assoc; eassumption.
Qed.

(* ---------------------------------------------------------------- folds *)
Lemma fold_fields_chain (f : value -> string -> value -> res value)
      (paths : string -> value -> list (list string)) :
  (forall d k a d1, wf_value d = true -> wf_value a = true -> f d k a = Ok d1 ->
                    chain (paths k a) d d1) ->
  forall fs d d', Forall (fun ka => wf_value (snd ka) = true) fs -> wf_value d = true ->
    fold_fields f fs d = Ok d' ->
    chain (flat_map (fun ka => paths (fst ka) (snd ka)) fs) d d'.
Proof.
  intro Hf. induction fs as [|[k a] fs IH]; intros d d' Hargs Hwf H; simpl in H.
  - inv_ok H. reflexivity.
  - bind_inv H d1 Hd1. inversion Hargs as [|? ? Ha Hargs']; subst. simpl in Ha.
    pose proof (Hf _ _ _ _ Hwf Ha Hd1) as Hc.
    simpl. eapply chain_app; [exact Hc|]. apply IH; [exact Hargs' | | exact H].
    eapply chain_wf; eassumption.
Qed.

Lemma flat_map_single {A B} (g : A -> B) l : flat_map (fun x => [g x]) l = map g l.
Proof. induction l as [|x l IH]; simpl; [reflexivity|]. rewrite IH. reflexivity. Qed.

Lemma fold_fields_chain1 (f : value -> string -> value -> res value) :
  (forall d k a d1, wf_value d = true -> wf_value a = true -> f d k a = Ok d1 ->
                    local (split_dots k) d d1) ->
  forall fs d d', Forall (fun ka => wf_value (snd ka) = true) fs -> wf_value d = true ->
    fold_fields f fs d = Ok d' -> chain (field_paths fs) d d'.
Proof.
  intros Hf fs d d' Hargs Hwf H. unfold field_paths.
  rewrite <- (flat_map_single (fun f0 : string * value => split_dots (fst f0))).
  apply (fold_fields_chain f (fun k _ => [split_dots k])); try assumption.
  intros d0 k a d1 Hw Ha Hd. apply chain_one. eapply Hf; eassumption.
Qed.

(* ---------------------------------------------------------------- one key of the update *)
Definition key_paths (k : string) (v : value) : list (list string) :=
  match v with
  | VDoc fields =>
      flat_map (fun f => split_dots (fst f) ::
                         (if k =? "$rename"
                          then match snd f with VStr dst => [split_dots dst] | _ => [] end
                          else [])) fields
  | _ => []
  end.

Lemma addressed_eq ufs :
  addressed (VDoc ufs) = flat_map (fun kv => key_paths (fst kv) (snd kv)) ufs.
Proof. reflexivity. Qed.

Lemma key_paths_plain k fields :
  (k =? "$rename") = false -> key_paths k (VDoc fields) = field_paths fields.
Proof.
  intro E. unfold key_paths, field_paths. rewrite E.
  rewrite <- (flat_map_single (fun f0 : string * value => split_dots (fst f0))). reflexivity.
Qed.

Lemma key_paths_rename fields :
  key_paths "$rename" (VDoc fields)
  = flat_map (fun ka => rename_paths (fst ka) (snd ka)) fields.
Proof. reflexivity. Qed.

Lemma updater_of_not_rename k u : updater_of k = Some u -> (k =? "$rename") = false.
Proof.
  intro H. destruct (k =? "$rename") eqn:E; [|reflexivity].
  apply String.eqb_eq in E. subst k. vm_compute in H. discriminate.
Qed.

Lemma wf_doc_args fs :
  wf_value (VDoc fs) = true -> Forall (fun ka => wf_value (snd ka) = true) fs.
Proof. intro H. apply wf_doc_iff in H. exact (proj2 H). Qed.

Lemma apply_update_key_chain spec update wi now first k v d d1 stop :
  existsb (fun kv => starts_dollar (fst kv)) update = true ->
  wf_value d = true -> wf_value v = true ->
  apply_update_key spec update wi now first k v d = Ok (d1, stop) ->
  stop = false /\ chain (key_paths k v) d d1.
Proof.
  intros Hdollar Hwf Hv H. unfold apply_update_key in H.
  destruct (updater_of k) as [u|] eqn:Eu.
  { bind_inv H fs Hfs. bind_inv H d2 Hd2. inv_ok H. split; [reflexivity|].
    apply fields_of_ok in Hfs. subst v.
    rewrite key_paths_plain by (eapply updater_of_not_rename; exact Eu).
    eapply apply_fields_chain; [apply wf_doc_args; exact Hv | exact Hwf | exact Hd2]. }
  destruct (k =? "$rename") eqn:Er.
  { apply String.eqb_eq in Er. subst k.
    bind_inv H fs Hfs. bind_inv H d2 Hd2. inv_ok H. split; [reflexivity|].
    apply fields_of_ok in Hfs. subst v. rewrite key_paths_rename.
    eapply (fold_fields_chain rename_step rename_paths);
      [| apply wf_doc_args; exact Hv | exact Hwf | exact Hd2].
    intros d0 k a d3 Hw _ Hd. eapply rename_step_chain; eassumption. }
  destruct (k =? "$setOnInsert").
  { destruct wi.
    - bind_inv H fs Hfs. bind_inv H d2 Hd2. inv_ok H. split; [reflexivity|].
      apply fields_of_ok in Hfs. subst v. rewrite key_paths_plain by exact Er.
      eapply apply_fields_chain; [apply wf_doc_args; exact Hv | exact Hwf | exact Hd2].
    - inv_ok H. split; [reflexivity|]. apply chain_refl. }
  destruct (k =? "$currentDate").
  { bind_inv H fs Hfs. bind_inv H d2 Hd2. inv_ok H. split; [reflexivity|].
    apply fields_of_ok in Hfs. subst v. rewrite key_paths_plain by exact Er.
    eapply apply_fields_chain; [apply wf_doc_args; exact Hv | exact Hwf | exact Hd2]. }
  destruct (k =? "$addToSet").
  { bind_inv H fs Hfs. bind_inv H d2 Hd2. inv_ok H. split; [reflexivity|].
    apply fields_of_ok in Hfs. subst v. rewrite key_paths_plain by exact Er.
    eapply (fold_fields_chain1 (add_to_set_one spec));
      [| apply wf_doc_args; exact Hv | exact Hwf | exact Hd2].
    intros d0 k0 a d3 Hw Ha Hd. eapply add_to_set_one_local; eassumption. }
  destruct (k =? "$pull").
  { bind_inv H fs Hfs. destruct (existsb _ fs); [discriminate|].
    bind_inv H d2 Hd2. inv_ok H. split; [reflexivity|].
    apply fields_of_ok in Hfs. subst v. rewrite key_paths_plain by exact Er.
    eapply (fold_fields_chain1 pull_one);
      [| apply wf_doc_args; exact Hv | exact Hwf | exact Hd2].
    intros d0 k0 a d3 Hw Ha Hd. eapply pull_one_local; eassumption. }
  destruct (k =? "$pullAll").
  { bind_inv H fs Hfs. bind_inv H d2 Hd2. inv_ok H. split; [reflexivity|].
    apply fields_of_ok in Hfs. subst v. rewrite key_paths_plain by exact Er.
    eapply (fold_fields_chain1 (pull_all_one spec));
      [| apply wf_doc_args; exact Hv | exact Hwf | exact Hd2].
    intros d0 k0 a d3 Hw Ha Hd. eapply pull_all_one_local; eassumption. }
  destruct (k =? "$push").
  { bind_inv H fs Hfs. bind_inv H d2 Hd2. inv_ok H. split; [reflexivity|].
    apply fields_of_ok in Hfs. subst v. rewrite key_paths_plain by exact Er.
    eapply (fold_fields_chain1 (push_one spec));
      [| apply wf_doc_args; exact Hv | exact Hwf | exact Hd2].
    intros d0 k0 a d3 Hw Ha Hd. eapply push_one_local; eassumption. }
  destruct first; [|discriminate]. rewrite Hdollar in H. discriminate.
Qed.

Lemma apply_update_keys_chain spec update wi now : forall todo first d d',
  existsb (fun kv => starts_dollar (fst kv)) update = true ->
  wf_value d = true -> Forall (fun kv => wf_value (snd kv) = true) todo ->
  apply_update_keys spec update wi now first todo d = Ok d' ->
  chain (flat_map (fun kv => key_paths (fst kv) (snd kv)) todo) d d'.
Proof.
  induction todo as [|[k v] todo IH]; intros first d d' Hdollar Hwf Htodo H; simpl in H.
  - inv_ok H. reflexivity.
  - bind_inv H r Hr. destruct r as [d1 stop].
    inversion Htodo as [|? ? Hv Htodo']; subst. simpl in Hv.
    destruct (apply_update_key_chain _ _ _ _ _ _ _ _ _ _ Hdollar Hwf Hv Hr) as [-> Hc].
    simpl. eapply chain_app; [exact Hc|]. eapply IH; [exact Hdollar | | exact Htodo' | exact H].
    eapply chain_wf; eassumption.
Qed.

(* the whole update document: a chain of local rewrites along its addressed paths *)
Lemma apply_update_chain spec u wi now d d' :
  first_key_dollar u = Some true ->
  wf_value u = true -> wf_value d = true ->
  apply_update spec u wi now d = Ok d' -> chain (addressed u) d d'.
Proof.
  intros Hfirst Hu Hwf H. unfold apply_update in H.
  destruct u as [| | | | | | |ufs|]; try discriminate.
  destruct ufs as [|[k0 v0] ufs]; [discriminate|].
  rewrite addressed_eq.
  eapply apply_update_keys_chain; [| exact Hwf | apply wf_doc_args; exact Hu | exact H].
  simpl in Hfirst. inv_ok Hfirst. simpl. rewrite H1. reflexivity.
Qed.
